//! C20 — validating without a schema is a relaxation (DESIGN.md §6 C20).
//! Every pair of the C17 space:
//! (a) if the pair validates against its schema, `ast::Document::validate_standalone_executable`
//!     is `Ok`;
//! (b) whenever standalone validation is `Err`, each of its diagnostics names a problem that is
//!     an error under every schema: `execval::schema_independent_problems(doc)` contains the
//!     corresponding rule.
//! Known finding `C20-directives-undefined-without-schema` (predictive classifier): the
//! document applies at least one directive and the complaints left after removing the
//! "cannot find directive" ones are judged instead.

use apollo_compiler::ast;
use apollo_compiler::ExecutableDocument;
use checks::execdocs::{self, Case, SchemaEnv};
use refmodel::ast::Document;
use refmodel::execval;
use std::collections::BTreeSet;
use vcore::{Check, Stats};

const KF: &str = "C20-directives-undefined-without-schema";

/// the rule of `schema_independent_problems` a standalone diagnostic corresponds to
fn rule_of(name: Option<&str>, message: &str) -> Option<&'static str> {
    match name {
        Some("UndefinedFragment") => return Some("KnownFragmentNames"),
        Some("UnusedFragment") => return Some("NoUnusedFragments"),
        Some("RecursiveFragmentDefinition") => return Some("NoFragmentCycles"),
        Some("UniqueVariable") => return Some("UniqueVariableNames"),
        Some("UnusedVariable") => return Some("NoUnusedVariables"),
        Some("UndefinedVariable") => return Some("NoUndefinedVariables"),
        Some("UniqueArgument") => return Some("UniqueArgumentNames"),
        Some("UniqueDirective") => return Some("UniqueDirectivesPerLocation"),
        Some("UniqueInputValue") => return Some("UniqueInputFieldNames"),
        _ => {}
    }
    if message.starts_with("an executable document must not contain") {
        Some("ExecutableDefinitions")
    } else if message.starts_with("anonymous operation cannot be selected") {
        Some("LoneAnonymousOperation")
    } else if message.starts_with("the operation `") && message.contains("is defined multiple times") {
        Some("UniqueOperationNames")
    } else if message.starts_with("the fragment `") && message.contains("is defined multiple times") {
        Some("UniqueFragmentNames")
    } else if message.ends_with("can only have one root field") {
        Some("SingleFieldSubscriptions")
    } else {
        None
    }
}

fn check_one(env: &SchemaEnv, doc: &Document, text: &str, case: &dyn Fn() -> serde_json::Value, kf_open: bool, st: &mut Stats) {
    st.states += 1;
    st.transitions += 2;
    let size = text.len() as u64;
    let pair_valid = match vcore::catch(|| ExecutableDocument::parse_and_validate(&env.apollo, text.to_string(), "q.graphql").is_ok()) {
        Ok(v) => v,
        Err(p) => {
            st.fail_simple("panic", case(), format!("parse_and_validate panicked: {p}"), size);
            return;
        }
    };
    let standalone = vcore::catch(|| {
        let parsed = match ast::Document::parse(text.to_string(), "q.graphql") {
            Ok(d) => d,
            Err(e) => return Err(vec![(None, format!("syntax: {}", e.errors.iter().next().map(|d| d.error.to_string()).unwrap_or_default()))]),
        };
        match parsed.validate_standalone_executable() {
            Ok(()) => Ok(()),
            Err(list) => Err(list.iter().map(|d| (d.error.unstable_error_name(), d.error.to_string())).collect::<Vec<_>>()),
        }
    });
    let diags = match standalone {
        Ok(Ok(())) => {
            if pair_valid {
                st.nontrivial += 1;
                st.outcome("pair-valid:standalone-ok");
            } else {
                st.outcome("pair-invalid:standalone-ok");
            }
            return;
        }
        Ok(Err(d)) => d,
        Err(p) => {
            st.fail_simple("panic", case(), format!("validate_standalone_executable panicked: {p}"), size);
            return;
        }
    };
    // classifier of the known finding: only the complaints that are not "cannot find directive"
    let is_directive_complaint = |(n, m): &(Option<&'static str>, String)| *n == Some("UndefinedDirective") && m.starts_with("cannot find directive");
    let n_dir = diags.iter().filter(|d| is_directive_complaint(d)).count();
    let applies = execval::applies_a_directive(doc);
    let (judged, used_finding): (Vec<&(Option<&'static str>, String)>, bool) = if kf_open && applies && n_dir > 0 {
        (diags.iter().filter(|d| !is_directive_complaint(d)).collect(), true)
    } else {
        (diags.iter().collect(), false)
    };
    if pair_valid {
        st.nontrivial += 1;
    }
    if judged.is_empty() {
        // nothing but directive complaints
        st.known(KF, text);
        st.outcome(if pair_valid { "pair-valid:known-finding-directives" } else { "pair-invalid:known-finding-directives" });
        return;
    }
    if pair_valid {
        st.fail_simple(
            "standalone-rejects-valid-pair",
            case(),
            format!("the pair validates against its schema, standalone validation reports {:?}; document: {}", judged.iter().take(3).collect::<Vec<_>>(), vcore::short(text)),
            size,
        );
        return;
    }
    // (b) every remaining diagnostic is a schema-independent problem of this document
    let problems: BTreeSet<&'static str> = execval::schema_independent_problems(doc).into_iter().map(|v| v.rule).collect();
    // apollo drops an ambiguous anonymous operation and later same-named definitions when it
    // builds the document; complaints about what those definitions used are follow-ups of a
    // genuine schema-independent problem, so only their *kind* is checked then
    let definitions_dropped = ["LoneAnonymousOperation", "UniqueOperationNames", "UniqueFragmentNames"].iter().any(|r| problems.contains(r));
    for (name, message) in judged.iter().map(|d| (&d.0, &d.1)) {
        let rule = rule_of(*name, message);
        let ok = match rule {
            Some(r) => problems.contains(r) || definitions_dropped,
            None => false,
        };
        if !ok {
            st.fail_simple(
                &format!("standalone-reports-schema-dependent:{}", name.unwrap_or("build-error")),
                case(),
                format!("standalone validation reports `{message}` ({name:?}); schema-independent problems of the document: {problems:?}; document: {}", vcore::short(text)),
                size,
            );
            return;
        }
    }
    if used_finding {
        st.known(KF, text);
    }
    let mut rules: Vec<&str> = judged.iter().filter_map(|d| rule_of(d.0, &d.1)).collect();
    rules.sort();
    rules.dedup();
    if rules.len() <= 2 {
        st.outcome(&format!("pair-invalid:standalone-err:{}", rules.join("+")));
    } else {
        st.outcome(&format!("pair-invalid:standalone-err:{}-rules", rules.len()));
    }
}

fn run_replay(case: &serde_json::Value, kf_open: bool, st: &mut Stats) {
    match execdocs::replay_env_and_doc(case) {
        Ok((env, doc)) => {
            let text = doc.print();
            check_one(&env, &doc, &text, &|| case.clone(), kf_open, st)
        }
        Err(e) => vcore::machinery_error(&format!("replay case unusable: {e}")),
    }
}

fn main() {
    let mut chk = Check::new("C20");
    vcore::quiet_panics();
    let kf_open = chk.known.is_open(KF);
    if let Some(case) = chk.replay_case() {
        let mut st = Stats::default();
        run_replay(&case, kf_open, &mut st);
        chk.absorb(st);
        chk.finish_replay();
    }
    let envs = execdocs::schema_envs();
    let (stats, info) = execdocs::sweep(&envs, chk.tier(), &|c: &Case<'_>, st: &mut Stats| {
        check_one(c.env, c.doc, c.text, &|| execdocs::case_json(c), kf_open, st);
        st.count(&format!("family:{}", c.family), 1);
        if c.family == "k1" && st.samples.is_empty() && c.text.len() % 17 == 0 {
            st.sample(serde_json::json!({"base": c.base, "operators": c.operators, "document": c.text}));
        }
    });
    chk.absorb(stats);
    chk.bounds = execdocs::bounds_json(&info);
    chk.rule = "every pair of the C17 space; non-trivial = pairs apollo validates against their schema (clause a); clause (b) is evaluated on every pair whose standalone validation fails".into();
    chk.assumptions = vec![
        "'validates against some schema' is witnessed by the pair's own schema and apollo's own verdict".into(),
        "refmodel::execval::schema_independent_problems lists every problem that is an error under every schema (type-system definitions, duplicate operation / fragment / variable / argument / input-field names, ambiguous anonymous operation, undefined / unused fragments, fragment cycles, undefined / unused variables, repeated built-in directive, several subscription root keys); unit-tested".into(),
        "a standalone diagnostic the harness cannot map to one of those problem classes is a violation; a mapped diagnostic must name a problem the document has, except when apollo dropped definitions (ambiguous anonymous operation, duplicate operation / fragment names), where follow-up complaints of a mapped kind are accepted".into(),
        "@defer is not in the alphabet".into(),
    ];
    chk.finish(&|case| {
        let mut st = Stats::default();
        run_replay(case, kf_open, &mut st);
        !st.failures.is_empty()
    })
}
