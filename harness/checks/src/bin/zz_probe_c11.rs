// temporary probe (c08/c11 builder) — removed before hand-over
use apollo_compiler::ast::Document;
fn main() {
    for s in [
        "\"dq\" , type Query { a: Int }",
        "\"dq\" type Query { a: Int }",
        "\"\u{0C}\" type Query { a: Int }",
        "\"dq\" # c\n type Query { a: Int }",
        "\"dq\"\u{feff}type Query { a: Int }",
        "type Query { \"d\" , a: Int }",
        "type Query { a(\"d\" , x: Int): Int }",
        "enum E { \"d\" , A }",
    ] {
        match Document::parse(s, "p.graphql") {
            Ok(_) => println!("{s:?}: ok"),
            Err(e) => println!("{s:?}: {:?}", e.errors.iter().map(|d| d.error.to_string()).collect::<Vec<_>>()),
        }
    }
}
