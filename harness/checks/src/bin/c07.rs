//! C07 — standalone type and field-set parsing consume the whole input (DESIGN.md §6 C07).
//! E-INPUT: prefix ⧺ core ⧺ suffix, prefix and suffix every token sequence over T′ (T plus
//! comment, comma, BOM, newline) within the length shapes of the tier, core one of five types /
//! eight selection lists; entry points `Parser::parse_type`, `Parser::parse_selection_set`,
//! `ast::Type::parse`, `executable::FieldSet::parse`.
//! Oracle (one-directional, as the statement): no error reported ⇒ the significant tokens of the
//! input are exactly one type / one optionally-braced selection list (`refmodel::standalone`).

use apollo_compiler::executable::FieldSet;
use apollo_compiler::validation::Valid;
use apollo_compiler::{name, Schema};
use apollo_parser::cst::CstNode;
use apollo_parser::Parser;
use checks::parsing::{FIELD_SET_CORES, T, TYPE_CORES, T_AFFIX};
use refmodel::lex::{Kind, Token};
use refmodel::standalone as sa;
use serde_json::{json, Value};
use std::sync::OnceLock;
use vcore::{enumerate as en, Check, Stats, Tier};

const KF_TRAILING: &str = "C07-trailing-tokens";
const KF_ARG: &str = "C07-argument-without-value";

/// Which known findings are listed as open.
#[derive(Clone, Copy)]
struct Kf {
    trailing: bool,
    arg: bool,
}

/// A schema in which every name token of T is a field of every type and every name token is
/// also a type, so that building a field set can only fail for syntactic reasons.
fn schema() -> &'static Valid<Schema> {
    static S: OnceLock<Valid<Schema>> = OnceLock::new();
    S.get_or_init(|| {
        let names: Vec<&str> = T
            .iter()
            .copied()
            .filter(|t| refmodel::lex::is_name(t))
            .collect();
        let fields: String = names.iter().map(|n| format!("  {n}(a: Int): Query\n")).collect();
        let mut text = format!("schema {{ query: Query }}\ntype Query {{\n{fields}}}\n");
        for n in &names {
            text.push_str(&format!("type {n} {{\n{fields}}}\n"));
        }
        text.push_str("directive @a(a: Int) repeatable on FIELD | FRAGMENT_SPREAD | INLINE_FRAGMENT\n");
        match Schema::parse_and_validate(text, "c07-schema.graphql") {
            Ok(s) => s,
            Err(e) => vcore::machinery_error(&format!("C07 fixture schema is not valid: {}", e.errors)),
        }
    })
}

#[derive(Clone, Copy, PartialEq, Eq, Debug)]
enum Entry {
    ParserType,
    CompilerType,
    ParserFieldSet,
    CompilerFieldSet,
}

impl Entry {
    fn label(self) -> &'static str {
        match self {
            Entry::ParserType => "Parser::parse_type",
            Entry::CompilerType => "ast::Type::parse",
            Entry::ParserFieldSet => "Parser::parse_selection_set",
            Entry::CompilerFieldSet => "FieldSet::parse",
        }
    }
    fn from_label(s: &str) -> Option<Entry> {
        [Entry::ParserType, Entry::CompilerType, Entry::ParserFieldSet, Entry::CompilerFieldSet]
            .into_iter()
            .find(|e| e.label() == s)
    }
    fn is_type(self) -> bool {
        matches!(self, Entry::ParserType | Entry::CompilerType)
    }
}

/// What the implementation said: Err(panic message) or Ok((number of errors, text of the
/// returned construct)).
fn run_impl(entry: Entry, s: &str) -> Result<(usize, String), String> {
    vcore::catch(|| match entry {
        Entry::ParserType => {
            let t = Parser::new(s).parse_type();
            (t.errors().len(), t.ty().syntax().to_string())
        }
        Entry::ParserFieldSet => {
            let t = Parser::new(s).parse_selection_set();
            (t.errors().len(), t.field_set().syntax().to_string())
        }
        Entry::CompilerType => match apollo_compiler::ast::Type::parse(s, "t.graphql") {
            Ok(t) => (0, t.to_string()),
            Err(e) => (e.len().max(1), String::new()),
        },
        Entry::CompilerFieldSet => match FieldSet::parse(schema(), name!("Query"), s, "f.graphql") {
            Ok(f) => (0, f.serialize().no_indent().to_string()),
            Err(e) => (e.errors.len().max(1), String::new()),
        },
    })
}

/// Token-wise comparison of what was returned with a prefix of the input's significant tokens
/// (string literals by kind only: a serializer may re-quote them).
fn same_tokens(entry: Entry, returned: &str, mut expect: &[Token<'_>]) -> bool {
    let Some(r) = sa::significant(returned) else {
        return false;
    };
    // FieldSet serializes without the optional outer braces
    if entry == Entry::CompilerFieldSet
        && expect.len() >= 2
        && expect[0].text == "{"
        && expect[expect.len() - 1].text == "}"
    {
        expect = &expect[1..expect.len() - 1];
    }
    r.len() == expect.len()
        && r.iter()
            .zip(expect)
            .all(|(a, b)| a.kind == b.kind && (a.kind == Kind::Str || a.text == b.text))
}

fn check(entry: Entry, input: &str, kf: Kf, st: &mut Stats) {
    st.transitions += 1;
    let case = || json!({"entry": entry.label(), "input": input});
    let Some(sig) = sa::significant(input) else {
        st.fail_simple(
            "harness-input-not-lexical",
            case(),
            "the generated input is not lexically valid for the reference lexer".into(),
            input.len() as u64,
        );
        return;
    };
    let (accept, longest) = if entry.is_type() {
        (sa::type_only(&sig), sa::longest_type_prefix(&sig))
    } else {
        (sa::field_set_only(&sig), sa::longest_field_set_prefix(&sig))
    };
    let pre = format!("{}: ", entry.label());
    match run_impl(entry, input) {
        Err(_panic) => {
            // a panic is not "no error reported"; panics of these entry points are C01's subject
            st.outcome(&(pre + "panicked (not judged here, see C01)"));
        }
        Ok((nerr, _)) if nerr > 0 => {
            st.nontrivial += 1;
            if accept && input.len() <= 8 {
                st.count(&format!("converse witness {} {:?}", entry.label(), input), 1);
            }
            st.outcome(
                &(pre
                    + if accept {
                        "error reported although exactly one construct (converse, not judged)"
                    } else {
                        "error reported, not exactly one construct"
                    }),
            );
        }
        Ok((_, _)) if accept => {
            st.outcome(&(pre + "no error, exactly one construct"));
        }
        Ok((_, returned)) => {
            // no error although the input is not exactly one construct: is it exactly what the
            // listed findings predict?
            let dev = sa::Params { argument_value_optional: kf.arg && !entry.is_type() };
            let expected_for = |k: usize, with_dev: bool| -> Option<Vec<Token<'_>>> {
                if !with_dev {
                    return Some(sig[..k].to_vec());
                }
                match entry {
                    // the CST keeps every token, the AST loses the valueless arguments
                    Entry::CompilerFieldSet => sa::field_set_tokens_as_kept(&sig[..k], dev),
                    _ => Some(sig[..k].to_vec()),
                }
            };
            // (1) the whole input is one construct of the grammar with the deviation switch on
            if dev.argument_value_optional && sa::field_set_only_with(&sig, dev) {
                if let Some(exp) = expected_for(sig.len(), true) {
                    if same_tokens(entry, &returned, &exp) {
                        st.known(KF_ARG, &format!("{} on {:?}", entry.label(), input));
                        st.outcome(&(pre + "known-finding: argument without value accepted"));
                        return;
                    }
                }
            }
            // (2) trailing tokens after the longest well-formed prefix (strict grammar)
            if kf.trailing {
                if let Some(k) = longest {
                    if k < sig.len() && same_tokens(entry, &returned, &sig[..k]) {
                        st.known(KF_TRAILING, &format!("{} on {:?}", entry.label(), input));
                        st.outcome(&(pre + "known-finding: trailing tokens ignored"));
                        return;
                    }
                }
            }
            // (3) both at once
            if kf.trailing && dev.argument_value_optional {
                if let Some(k) = sa::longest_field_set_prefix_with(&sig, dev) {
                    if let Some(exp) = expected_for(k, true) {
                        if k < sig.len() && same_tokens(entry, &returned, &exp) {
                            st.known(KF_TRAILING, &format!("{} on {:?}", entry.label(), input));
                            st.known(KF_ARG, &format!("{} on {:?}", entry.label(), input));
                            st.outcome(&(pre + "known-findings: argument without value + trailing tokens"));
                            return;
                        }
                    }
                }
            }
            st.fail_simple(
                &format!("no-error-but-not-one-construct/{}", entry.label()),
                case(),
                format!(
                    "{} reported no error for {:?}, which is not exactly one {}; it returned {:?} (longest well-formed prefix: {:?} of {} significant tokens)",
                    entry.label(),
                    input,
                    if entry.is_type() { "type" } else { "selection set" },
                    returned,
                    longest,
                    sig.len()
                ),
                input.len() as u64,
            );
        }
    }
}

/// The affix shapes (prefix length, suffix length) of a tier.
fn shapes(tier: Tier) -> Vec<(u32, u32)> {
    let (one, two) = tier.pick((2, 1), (3, 2));
    let mut v = vec![(0, 0)];
    for i in 1..=one {
        v.push((i, 0));
        v.push((0, i));
    }
    for i in 1..=two {
        for j in 1..=two {
            v.push((i, j));
        }
    }
    v
}

fn render_case(core: &str, shape: (u32, u32), mut idx: u64, out: &mut String) {
    let k = T_AFFIX.len() as u64;
    let ns = en::count_exact(k, shape.1);
    let (pi, si) = (idx / ns, idx % ns);
    idx = 0;
    let _ = idx;
    let mut seq = Vec::new();
    out.clear();
    en::nth_exact(k, shape.0, pi, &mut seq);
    for &i in &seq {
        out.push_str(T_AFFIX[i]);
        out.push(' ');
    }
    out.push_str(core);
    en::nth_exact(k, shape.1, si, &mut seq);
    for &i in &seq {
        out.push(' ');
        out.push_str(T_AFFIX[i]);
    }
}

fn main() {
    let mut chk = Check::new("C07");
    vcore::quiet_panics();
    let kf_open = Kf { trailing: chk.known.is_open(KF_TRAILING), arg: chk.known.is_open(KF_ARG) };
    let run_case = move |case: &Value, st: &mut Stats| {
        let input = case["input"].as_str().unwrap_or("");
        match Entry::from_label(case["entry"].as_str().unwrap_or("")) {
            Some(e) => {
                st.states += 1;
                check(e, input, kf_open, st)
            }
            None => vcore::machinery_error("replay case has no valid entry"),
        }
    };
    if let Some(case) = chk.replay_case() {
        let mut st = Stats::default();
        run_case(&case, &mut st);
        chk.absorb(st);
        chk.finish_replay();
    }
    let _ = schema();
    let tier = chk.tier();
    let shapes = shapes(tier);
    let k = T_AFFIX.len() as u64;
    let mut total_cases = 0u64;
    let cores: Vec<(bool, &str)> = TYPE_CORES
        .iter()
        .map(|c| (true, *c))
        .chain(FIELD_SET_CORES.iter().map(|c| (false, *c)))
        .collect();
    for (is_type, core) in &cores {
        for &shape in &shapes {
            let n = en::count_exact(k, shape.0) * en::count_exact(k, shape.1);
            total_cases += n;
            let stats = vcore::par_sweep(n, 8192, |i, st| {
                let mut s = String::new();
                render_case(core, shape, i, &mut s);
                st.states += 1;
                if i == n / 3 && n > 1 {
                    st.sample(json!({"core": core, "shape": [shape.0, shape.1], "input": s}));
                }
                if *is_type {
                    check(Entry::ParserType, &s, kf_open, st);
                    check(Entry::CompilerType, &s, kf_open, st);
                } else {
                    check(Entry::ParserFieldSet, &s, kf_open, st);
                    check(Entry::CompilerFieldSet, &s, kf_open, st);
                }
            });
            chk.absorb(stats);
        }
    }
    // other ways of separating the extra token from the construct than one space: comments ended
    // by each line terminator, bare line terminators, commas, a BOM
    const JOINERS: [&str; 8] = [" # c\r", " # c\r\n", " # c\n", "#\r", "\r", "\r\n", ",", "\u{feff}"];
    for (is_type, core) in &cores {
        let mut st = Stats::default();
        for t in T_AFFIX.iter() {
            for j in JOINERS {
                for input in [format!("{core}{j}{t}"), format!("{t}{j}{core}")] {
                    st.states += 1;
                    total_cases += 1;
                    if *is_type {
                        check(Entry::ParserType, &input, kf_open, &mut st);
                        check(Entry::CompilerType, &input, kf_open, &mut st);
                    } else {
                        check(Entry::ParserFieldSet, &input, kf_open, &mut st);
                        check(Entry::CompilerFieldSet, &input, kf_open, &mut st);
                    }
                }
            }
        }
        chk.absorb(st);
    }
    println!("cores {} shapes {:?} cases {}", cores.len(), shapes, total_cases);
    chk.bounds = json!({
        "affix_alphabet": T_AFFIX,
        "type_cores": TYPE_CORES,
        "field_set_cores": FIELD_SET_CORES,
        "affix_shapes_prefix_len_suffix_len": shapes.iter().map(|s| json!([s.0, s.1])).collect::<Vec<_>>(),
        "joiners_for_one_extra_token": JOINERS,
        "cases": total_cases,
        "entry_points": ["Parser::parse_type", "ast::Type::parse", "Parser::parse_selection_set", "FieldSet::parse"],
    });
    chk.rule = "every (core, prefix, suffix) with prefix/suffix every token sequence over T′ of the listed length shapes, symbols \
                joined with one space; each through both entry points of its kind. non-trivial = executions in which the \
                implementation reported ≥1 error"
        .into();
    chk.assumptions = vec![
        "refmodel::standalone transcribes the October 2021 productions for Type and SelectionSet; \"one selection set\" is taken as the federation field-set form: Selection+ with optional outer braces".into(),
        "the converse direction (an error although the input is exactly one construct) is counted and shown, not judged, as the statement is one-directional".into(),
        "a panic is not 'no error reported'; panics of the standalone entry points are judged by C01".into(),
        "FieldSet::parse runs against a fixture schema in which every name token of T is a type and a field of every type, so that only syntax can produce an error".into(),
    ];
    chk.finish(&|case| {
        let mut st = Stats::default();
        run_case(case, &mut st);
        !st.failures.is_empty()
    })
}
