//! C24 — introspection agrees with the reference implementation (DESIGN.md §6 C24, A.6).
//!
//! E-INPUT: a family of valid schemas = hand-written base schemas (mini-AST) × every
//! application of one (quick) or two (thorough, selected bases) single-site variation
//! operators. On each schema the real `introspection::partial_execute` answers
//!   * the standard full introspection query (graphql-js `getIntrospectionQuery`, all options
//!     on, verbatim text),
//!   * the same query with concrete root fields added (they must be skipped without error),
//!   * the same query with every `(includeDeprecated: true)` removed / set to `false`
//!     (exercises the deprecation filters and the argument's default),
//! and `data.__schema` is compared with `refmodel::introspect` (transcription of graphql-js
//! v16) as JSON after normalising the allowed differences.

use apollo_compiler::request::coerce_variable_values;
use apollo_compiler::response::JsonMap;
use apollo_compiler::{introspection, ExecutableDocument, Schema};
use refmodel::ast::*;
use refmodel::introspect::{self, Model, Switches};
use refmodel::{sdl, strings};
use serde_json::{json, Value as J};
use std::fmt::Write as _;
use vcore::{Check, Stats, Tier};

const KF_VERBATIM: &str = "C24-default-value-printed-verbatim";

// ---------------------------------------------------------------------------------
// Base schemas
// ---------------------------------------------------------------------------------

/// (name, pairs-in-thorough, SDL). Every base is valid for graphql-js and for apollo; every
/// default value is a type-correct literal; `@deprecated` only on optional arguments / input
/// fields (graphql-js rejects "required … cannot be deprecated").
const BASES: &[(&str, bool, &str)] = &[
    (
        "roots-explicit",
        false,
        r#"
"The schema" schema { query: Q subscription: S }
"Root" type Q { "a field" f: Int g(x: Int = 1): String }
type S { tick: Int! }
type Mutation { notARoot(v: Float = 1.5): Boolean }
"#,
    ),
    (
        "roots-implicit",
        false,
        r#"
type Query { me: String id: ID }
type Mutation { set(v: Int! = 0): Boolean! }
type Subscription { tick(every: Float = 2.5): Int }
type Unreferenced { x: Float }
"#,
    ),
    (
        "interfaces",
        true,
        r#"
type Query implements Node { id: ID! things: [Thing!]! node(id: ID!): Node entity: Entity }
interface Node { id: ID! }
"named" interface Entity implements Node { id: ID! name(upper: Boolean = false): String }
interface Thing implements Entity & Node { id: ID! name(upper: Boolean = false): String size: Int }
type Box implements Thing & Entity & Node { id: ID! name(upper: Boolean = false, prefix: String = "p"): String size: Int w: Float }
type Person implements Entity & Node { id: ID! name(upper: Boolean = false): String age: Int }
type Plain implements Node { id: ID! }
type Loose { id: ID! name(upper: Boolean = false): String size: Int }
interface Lonely { x: Int }
"#,
    ),
    (
        "unions-enums",
        true,
        r#"
type Query { search(kind: Kind = A, kinds: [Kind!] = [A, B]): [Result] pet: Pet color: Color }
union Result = Cat | Dog | Query
"pets" union Pet = Dog | Cat
type Cat { meow: String color: Color @deprecated }
type Dog { bark(loud: Boolean = true): String @deprecated(reason: "quiet") }
enum Kind { A B @deprecated C @deprecated(reason: "no C") }
"colors" enum Color { "r" RED GREEN @deprecated(reason: "") BLUE }
"#,
    ),
    (
        "defaults-scalars",
        true,
        r#"
type Query {
  f(i: Int = 1, fl: Float = 1.0, e3: Float = 1e3, s: String = "s", b: Boolean = true, id: ID = "1", n: Int = null): Int
  g(any: Any = 1.5, url: Url = "http://x", color: Color = RED, req: Int! = 2, none: String): Float
}
scalar Any
scalar Url @specifiedBy(url: "https://url.spec.whatwg.org/")
enum Color { RED GREEN }
"#,
    ),
    (
        "defaults-lists",
        true,
        r#"
type Query {
  f(a: [Int] = 1, b: [Int!]! = [1, 2], c: [[Int]] = [[1], [2, null]], d: [Float] = [1.0, 1e3], e: [String!] = "x"): Int
  g(k: [Kind] = A, ids: [ID!] = ["1", "a"], deep: [[[Int!]]!] = 7, bs: [Boolean] = [true, null]): Int
}
enum Kind { A B }
"#,
    ),
    (
        "defaults-input-objects",
        true,
        r#"
type Query {
  f(x: In = {b: 2, a: 1}, y: In! = {}, z: [In] = {s: "t"}): Int
  g(p: Point = {y: 2.0, x: 1e1}, q: Outer = {inner: {b: 3}, points: {x: 0, y: 0}}): Int
}
input In { a: Int = 1 b: Int s: String = "x" fl: Float = 1.0 l: [Int] = 5 }
input Point { x: Float! y: Float! label: String @deprecated }
input Outer { inner: In points: [Point!] = [] self: Outer tag: Tag = T1 }
enum Tag { T1 T2 }
"#,
    ),
    (
        "directives",
        false,
        r#"
schema @meta(info: "s") @tag(name: "a") @tag(name: "b") { query: Query }
"A directive" directive @meta("the info" info: String = "i", level: Int = 1 @deprecated, opts: Opts = {deep: true}) on SCHEMA | OBJECT | FIELD_DEFINITION | ARGUMENT_DEFINITION | ENUM_VALUE | INPUT_FIELD_DEFINITION | SCALAR | INTERFACE | UNION | ENUM | INPUT_OBJECT
directive @tag(name: String!) repeatable on SCHEMA | OBJECT | FIELD_DEFINITION
directive @exec(if: Boolean! = true, ids: [ID!] = ["a"]) on QUERY | MUTATION | SUBSCRIPTION | FIELD | FRAGMENT_DEFINITION | FRAGMENT_SPREAD | INLINE_FRAGMENT | VARIABLE_DEFINITION
type Query @meta @tag(name: "q") { f(a: Int @meta(level: 2)): E @meta(info: "f") @tag(name: "x") @tag(name: "y") s: Sc }
enum E @meta { V @meta(info: "v") }
input Opts { deep: Boolean = false }
scalar Sc @meta @specifiedBy(url: "https://sc.example")
"#,
    ),
    (
        "descriptions",
        false,
        r#"
"schema desc" schema { query: Query }
"type desc" type Query { "field desc" f("arg desc" a: Int = 1): Int "with \"quotes\" and \\ backslash" g: E h(i: In): U }
"enum desc" enum E { "value desc" V "second" W }
"input desc" input In { "input field desc" x: Int = 1 y: String }
"union desc" union U = Query
"scalar desc" scalar Sc
"interface desc" interface I { "if" x: Int }
"directive desc" directive @d("darg desc" a: Int) on FIELD
"#,
    ),
    (
        "deprecations",
        true,
        r#"
type Query {
  old: Int @deprecated
  older: Int @deprecated(reason: "gone")
  current(a: Int @deprecated, b: Int = 1 @deprecated(reason: "no b"), c: Int): Int
  all(only: Int @deprecated): E
  i(arg: In, other: AllDeprecatedButOne): Int
}
enum E { A @deprecated B @deprecated(reason: "b") C }
input In { x: Int @deprecated y: Int = 1 @deprecated(reason: "y") z: Int }
input AllDeprecatedButOne { a: Int @deprecated b: Int }
directive @d(a: Int @deprecated, b: Int @deprecated(reason: "db"), c: Int) on FIELD
"#,
    ),
    (
        "extensions",
        false,
        r#"
type Query { a: Int }
interface I { a: Int }
enum E { A }
union U = Query
input In { x: Int }
type T { t: E }
extend type Query implements I { b(i: In = {y: 2.5}): U "ext" c: Float @deprecated }
extend enum E { B @deprecated C }
extend union U = T
extend input In { y: Float = 1.5 }
extend interface I { z: ID }
extend type Query { z: ID }
"#,
    ),
    (
        "wrappers",
        true,
        r#"
type Query { a: Int b: Int! c: [Int] d: [Int!]! e: [[Int]!] f: [[Int!]!]! g: [[[T!]]]! h(x: [[Int!]!]! = [[1]], y: [In!], z: Int): T }
type T { t: [T!]! }
input In { deep: [[[In!]!]!] v: [Float!]! = 1 }
"#,
    ),
];

// ---------------------------------------------------------------------------------
// SDL printer with string styles
// ---------------------------------------------------------------------------------

#[derive(Clone, Copy, PartialEq, Eq, Debug)]
enum Style {
    /// every string a quoted string (the mini-AST printer's own escapes)
    Quoted,
    /// descriptions and default-value strings as block strings wherever the block form
    /// evaluates to exactly the value (checked with `refmodel::strings::block_value`)
    Block,
}

impl Style {
    fn name(self) -> &'static str {
        match self {
            Style::Quoted => "quoted",
            Style::Block => "block",
        }
    }
    fn from_name(s: &str) -> Style {
        if s == "block" {
            Style::Block
        } else {
            Style::Quoted
        }
    }
}

fn string_literal(s: &str, style: Style) -> String {
    if style == Style::Block
        && !s.contains("\"\"\"")
        && !s.ends_with('"')
        && !s.ends_with('\\')
        && s.chars().all(|c| c == '\t' || c == '\n' || c >= ' ')
        && strings::block_value(s) == s
    {
        return format!("\"\"\"{s}\"\"\"");
    }
    quote(s)
}

fn p_value(v: &Value, style: Style, o: &mut String) {
    match v {
        Value::Str(s) => o.push_str(&string_literal(s, style)),
        Value::List(items) => {
            o.push('[');
            for (i, it) in items.iter().enumerate() {
                if i > 0 {
                    o.push_str(", ");
                }
                p_value(it, style, o);
            }
            o.push(']');
        }
        Value::Object(fields) => {
            o.push('{');
            for (i, (k, it)) in fields.iter().enumerate() {
                if i > 0 {
                    o.push_str(", ");
                }
                o.push_str(k);
                o.push_str(": ");
                p_value(it, style, o);
            }
            o.push('}');
        }
        other => print_value(other, o),
    }
}

fn p_desc(d: &Option<String>, style: Style, o: &mut String) {
    if let Some(d) = d {
        o.push_str(&string_literal(d, style));
        o.push(' ');
    }
}

fn p_directives(ds: &[Directive], style: Style, o: &mut String) {
    for d in ds {
        o.push_str(" @");
        o.push_str(&d.name);
        if !d.args.is_empty() {
            o.push('(');
            for (i, (k, v)) in d.args.iter().enumerate() {
                if i > 0 {
                    o.push_str(", ");
                }
                o.push_str(k);
                o.push_str(": ");
                p_value(v, style, o);
            }
            o.push(')');
        }
    }
}

fn p_input_value(iv: &InputValueDef, style: Style, o: &mut String) {
    p_desc(&iv.description, style, o);
    write!(o, "{}: {}", iv.name, iv.ty).unwrap();
    if let Some(d) = &iv.default {
        o.push_str(" = ");
        p_value(d, style, o);
    }
    p_directives(&iv.directives, style, o);
}

fn p_args_def(args: &[InputValueDef], style: Style, o: &mut String) {
    if args.is_empty() {
        return;
    }
    o.push('(');
    for (i, a) in args.iter().enumerate() {
        if i > 0 {
            o.push_str(", ");
        }
        p_input_value(a, style, o);
    }
    o.push(')');
}

/// Type-system document → SDL text. With `Style::Quoted` this is `Document::print`.
fn print_sdl(doc: &Document, style: Style) -> String {
    if style == Style::Quoted {
        return doc.print();
    }
    let mut out = String::new();
    for (i, d) in doc.defs.iter().enumerate() {
        if i > 0 {
            out.push('\n');
        }
        let o = &mut out;
        match d {
            Definition::Schema(s) => {
                if s.extend {
                    o.push_str("extend ");
                } else {
                    p_desc(&s.description, style, o);
                }
                o.push_str("schema");
                p_directives(&s.directives, style, o);
                if !s.roots.is_empty() {
                    o.push_str(" {");
                    for (k, n) in &s.roots {
                        write!(o, " {}: {}", k.keyword(), n).unwrap();
                    }
                    o.push_str(" }");
                }
            }
            Definition::Directive(d) => {
                p_desc(&d.description, style, o);
                write!(o, "directive @{}", d.name).unwrap();
                p_args_def(&d.args, style, o);
                if d.repeatable {
                    o.push_str(" repeatable");
                }
                o.push_str(" on ");
                o.push_str(&d.locations.join(" | "));
            }
            Definition::Type(t) => {
                if t.extend {
                    o.push_str("extend ");
                } else {
                    p_desc(&t.description, style, o);
                }
                write!(o, "{} {}", t.kind.keyword(), t.name).unwrap();
                if matches!(t.kind, TypeKind::Object | TypeKind::Interface) && !t.implements.is_empty() {
                    o.push_str(" implements ");
                    o.push_str(&t.implements.join(" & "));
                }
                p_directives(&t.directives, style, o);
                match t.kind {
                    TypeKind::Scalar => {}
                    TypeKind::Object | TypeKind::Interface => {
                        if !t.fields.is_empty() {
                            o.push_str(" {");
                            for f in &t.fields {
                                o.push(' ');
                                p_desc(&f.description, style, o);
                                o.push_str(&f.name);
                                p_args_def(&f.args, style, o);
                                write!(o, ": {}", f.ty).unwrap();
                                p_directives(&f.directives, style, o);
                            }
                            o.push_str(" }");
                        }
                    }
                    TypeKind::Union => {
                        if !t.members.is_empty() {
                            o.push_str(" = ");
                            o.push_str(&t.members.join(" | "));
                        }
                    }
                    TypeKind::Enum => {
                        if !t.values.is_empty() {
                            o.push_str(" {");
                            for v in &t.values {
                                o.push(' ');
                                p_desc(&v.description, style, o);
                                o.push_str(&v.name);
                                p_directives(&v.directives, style, o);
                            }
                            o.push_str(" }");
                        }
                    }
                    TypeKind::Input => {
                        if !t.input_fields.is_empty() {
                            o.push_str(" {");
                            for f in &t.input_fields {
                                o.push(' ');
                                p_input_value(f, style, o);
                            }
                            o.push_str(" }");
                        }
                    }
                }
            }
            other => print_definition(other, o),
        }
    }
    out
}

// ---------------------------------------------------------------------------------
// Sites and single-site variation operators
// ---------------------------------------------------------------------------------

/// Where in the document a variation applies. Indices: definition, member (field / input field
/// / enum value), argument.
#[derive(Clone, Copy, Debug, PartialEq, Eq, PartialOrd, Ord)]
enum Path {
    Schema(usize),
    Type(usize),
    Field(usize, usize),
    FieldArg(usize, usize, usize),
    InputField(usize, usize),
    EnumValue(usize, usize),
    DirectiveDef(usize),
    DirectiveArg(usize, usize),
}

impl Path {
    fn json(self) -> J {
        match self {
            Path::Schema(d) => json!(["schema", d]),
            Path::Type(d) => json!(["type", d]),
            Path::Field(d, f) => json!(["field", d, f]),
            Path::FieldArg(d, f, a) => json!(["fieldarg", d, f, a]),
            Path::InputField(d, f) => json!(["inputfield", d, f]),
            Path::EnumValue(d, v) => json!(["enumvalue", d, v]),
            Path::DirectiveDef(d) => json!(["directive", d]),
            Path::DirectiveArg(d, a) => json!(["directivearg", d, a]),
        }
    }
    fn describe(self, doc: &Document) -> String {
        let tn = |d: usize| match &doc.defs[d] {
            Definition::Type(t) => t.name.clone(),
            Definition::Directive(dd) => format!("@{}", dd.name),
            _ => "schema".into(),
        };
        match self {
            Path::Schema(_) => "schema".into(),
            Path::Type(d) | Path::DirectiveDef(d) => tn(d),
            Path::Field(d, f) => match &doc.defs[d] {
                Definition::Type(t) => format!("{}.{}", t.name, t.fields[f].name),
                _ => "?".into(),
            },
            Path::FieldArg(d, f, a) => match &doc.defs[d] {
                Definition::Type(t) => {
                    format!("{}.{}({}:)", t.name, t.fields[f].name, t.fields[f].args[a].name)
                }
                _ => "?".into(),
            },
            Path::InputField(d, f) => match &doc.defs[d] {
                Definition::Type(t) => format!("{}.{}", t.name, t.input_fields[f].name),
                _ => "?".into(),
            },
            Path::EnumValue(d, v) => match &doc.defs[d] {
                Definition::Type(t) => format!("{}.{}", t.name, t.values[v].name),
                _ => "?".into(),
            },
            Path::DirectiveArg(d, a) => match &doc.defs[d] {
                Definition::Directive(dd) => format!("@{}({}:)", dd.name, dd.args[a].name),
                _ => "?".into(),
            },
        }
    }
}

fn type_at(doc: &Document, d: usize) -> &TypeDef {
    match &doc.defs[d] {
        Definition::Type(t) => t,
        _ => panic!("not a type definition"),
    }
}
fn type_at_mut(doc: &mut Document, d: usize) -> &mut TypeDef {
    match &mut doc.defs[d] {
        Definition::Type(t) => t,
        _ => panic!("not a type definition"),
    }
}

fn input_value(doc: &Document, p: Path) -> &InputValueDef {
    match p {
        Path::FieldArg(d, f, a) => &type_at(doc, d).fields[f].args[a],
        Path::InputField(d, f) => &type_at(doc, d).input_fields[f],
        Path::DirectiveArg(d, a) => match &doc.defs[d] {
            Definition::Directive(dd) => &dd.args[a],
            _ => panic!("not a directive"),
        },
        _ => panic!("not an input value path"),
    }
}
fn input_value_mut(doc: &mut Document, p: Path) -> &mut InputValueDef {
    match p {
        Path::FieldArg(d, f, a) => &mut type_at_mut(doc, d).fields[f].args[a],
        Path::InputField(d, f) => &mut type_at_mut(doc, d).input_fields[f],
        Path::DirectiveArg(d, a) => match &mut doc.defs[d] {
            Definition::Directive(dd) => &mut dd.args[a],
            _ => panic!("not a directive"),
        },
        _ => panic!("not an input value path"),
    }
}

fn description_mut(doc: &mut Document, p: Path) -> &mut Option<String> {
    match p {
        Path::Schema(d) => match &mut doc.defs[d] {
            Definition::Schema(s) => &mut s.description,
            _ => panic!(),
        },
        Path::Type(d) => &mut type_at_mut(doc, d).description,
        Path::Field(d, f) => &mut type_at_mut(doc, d).fields[f].description,
        Path::EnumValue(d, v) => &mut type_at_mut(doc, d).values[v].description,
        Path::DirectiveDef(d) => match &mut doc.defs[d] {
            Definition::Directive(dd) => &mut dd.description,
            _ => panic!(),
        },
        iv => &mut input_value_mut(doc, iv).description,
    }
}

fn directives_mut(doc: &mut Document, p: Path) -> &mut Vec<Directive> {
    match p {
        Path::Field(d, f) => &mut type_at_mut(doc, d).fields[f].directives,
        Path::EnumValue(d, v) => &mut type_at_mut(doc, d).values[v].directives,
        Path::Schema(_) | Path::Type(_) | Path::DirectiveDef(_) => panic!("not deprecatable"),
        iv => &mut input_value_mut(doc, iv).directives,
    }
}

/// every site that can carry a description
fn description_sites(doc: &Document) -> Vec<Path> {
    let mut v = Vec::new();
    for (d, def) in doc.defs.iter().enumerate() {
        match def {
            Definition::Schema(s) if !s.extend => v.push(Path::Schema(d)),
            Definition::Directive(dd) => {
                v.push(Path::DirectiveDef(d));
                for a in 0..dd.args.len() {
                    v.push(Path::DirectiveArg(d, a));
                }
            }
            Definition::Type(t) => {
                if !t.extend {
                    v.push(Path::Type(d));
                }
                for (f, fd) in t.fields.iter().enumerate() {
                    v.push(Path::Field(d, f));
                    for a in 0..fd.args.len() {
                        v.push(Path::FieldArg(d, f, a));
                    }
                }
                for f in 0..t.input_fields.len() {
                    v.push(Path::InputField(d, f));
                }
                for e in 0..t.values.len() {
                    v.push(Path::EnumValue(d, e));
                }
            }
            _ => {}
        }
    }
    v
}

fn input_value_sites(doc: &Document) -> Vec<Path> {
    description_sites(doc)
        .into_iter()
        .filter(|p| matches!(p, Path::FieldArg(..) | Path::InputField(..) | Path::DirectiveArg(..)))
        .collect()
}

/// sites where `@deprecated` may be toggled: fields, enum values, and *optional* arguments /
/// input fields (nullable or with a default)
fn deprecation_sites(doc: &Document) -> Vec<Path> {
    description_sites(doc)
        .into_iter()
        .filter(|p| match p {
            Path::Field(..) | Path::EnumValue(..) => true,
            Path::FieldArg(..) | Path::InputField(..) | Path::DirectiveArg(..) => {
                let iv = input_value(doc, *p);
                !iv.ty.is_non_null() || iv.default.is_some()
            }
            _ => false,
        })
        .collect()
}

const DESCRIPTION_MENU: [Option<&str>; 7] = [
    None,
    Some(""),
    Some("a"),
    Some("q\"uote b\\ackslash\nsecond line é🚀"),
    Some("  indented\n    more"),
    Some("ctl\u{1}\ttab"),
    Some("ends with quote\""),
];

/// `None` = no directive; `Some(None)` = `@deprecated`; `Some(Some(r))` = with reason
const DEPRECATION_MENU: [Option<Option<&str>>; 4] =
    [None, Some(None), Some(Some("because \"r\"\n2")), Some(Some(""))];

/// Type-correct default literals for a type (the alphabet of default values).
fn default_menu(m: &Model, ty: &Ty, depth: u32) -> Vec<Value> {
    let fl = |s: &str| Value::Float(s.into());
    match ty {
        Ty::NonNull(t) => default_menu(m, t, depth).into_iter().filter(|v| *v != Value::Null).collect(),
        Ty::List(item) => {
            let items = default_menu(m, item, depth + 1);
            let mut out = vec![Value::Null, Value::List(vec![])];
            for v in &items {
                match v {
                    Value::Null => {}
                    // a list literal is always read as the list itself: wrap it explicitly
                    Value::List(_) => out.push(Value::List(vec![v.clone()])),
                    // a single value for a list type
                    _ => out.push(v.clone()),
                }
            }
            out.push(Value::List(items.iter().take(3).cloned().collect()));
            if items.len() > 1 {
                out.push(Value::List(vec![items[items.len() - 1].clone()]));
            }
            out
        }
        Ty::Named(n) => {
            let Some(def) = m.ty(n) else { return vec![] };
            match def.kind {
                TypeKind::Enum => {
                    let mut v = vec![Value::Null];
                    v.extend(def.values.iter().map(|x| Value::en(&x.name)));
                    v
                }
                TypeKind::Input => {
                    let mut out = vec![Value::Null];
                    let first_non_null = |t: &Ty| -> Option<Value> {
                        default_menu(m, t, depth + 1).into_iter().find(|v| *v != Value::Null)
                    };
                    let mut required: Vec<(String, Value)> = Vec::new();
                    for f in &def.input_fields {
                        if f.ty.is_non_null() && f.default.is_none() {
                            match first_non_null(&f.ty) {
                                Some(v) => required.push((f.name.clone(), v)),
                                None => return out,
                            }
                        }
                    }
                    out.push(Value::Object(required.clone()));
                    if depth >= 2 {
                        return out;
                    }
                    for f in &def.input_fields {
                        let alts = default_menu(m, &f.ty, depth + 1);
                        let take = if depth == 0 { 4 } else { 2 };
                        for v in alts.into_iter().take(take) {
                            let mut o = vec![(f.name.clone(), v)];
                            o.extend(required.iter().filter(|(k, _)| *k != f.name).cloned());
                            out.push(Value::Object(o));
                        }
                    }
                    // every field, in reverse type order
                    let mut all = Vec::new();
                    for f in def.input_fields.iter().rev() {
                        if let Some(v) = first_non_null(&f.ty) {
                            all.push((f.name.clone(), v));
                        }
                    }
                    out.push(Value::Object(all));
                    out
                }
                TypeKind::Scalar => match n.as_str() {
                    "Int" => vec![Value::Null, Value::int(0), Value::int(-1), Value::int(2147483647)],
                    "Float" => vec![
                        Value::Null,
                        fl("1.0"),
                        fl("1e3"),
                        fl("1.5"),
                        fl("-2.50"),
                        Value::int(7),
                        fl("0.0"),
                        fl("1E2"),
                        fl("25e-1"),
                    ],
                    "String" => vec![
                        Value::Null,
                        Value::str(""),
                        Value::str("a"),
                        Value::str("q\"b\\s"),
                        Value::str("l1\nl2"),
                        Value::str("t\tt"),
                        Value::str("é🚀"),
                        Value::str("\u{1}\u{8}\u{c}\r"),
                    ],
                    "Boolean" => vec![Value::Null, Value::Bool(true), Value::Bool(false)],
                    "ID" => vec![
                        Value::Null,
                        Value::str("abc"),
                        Value::str("1"),
                        Value::int(1),
                        Value::str("01"),
                    ],
                    // custom scalar: literals whose graphql-js printing is beyond doubt
                    _ => vec![Value::Null, Value::int(1), fl("1.0"), Value::str("s"), Value::Bool(true)],
                },
                _ => vec![],
            }
        }
    }
}

const WRAPPERS: [&str; 6] = ["T", "T!", "[T]", "[T!]!", "[[T]!]", "[[T!]!]!"];

fn wrap(pattern: &str, name: &str) -> Ty {
    Ty::parse(&pattern.replace('T', name))
}

/// A single-site variation. Non-structural operators (`Default`, `Description`, `Deprecation`,
/// `FieldType`, `SpecifiedBy`, `Repeatable`) keep every path valid, so two of them compose.
#[derive(Clone, Debug, PartialEq)]
enum Op {
    /// alt = usize::MAX removes the default
    Default(Path, usize),
    Description(Path, usize),
    Deprecation(Path, usize),
    FieldType(Path, usize),
    SpecifiedBy(usize, usize),
    Repeatable(usize),
    SwapDefs(usize),
    /// (kind, def, member, index): swap entries index and index+1 of a list
    Swap(&'static str, usize, usize, usize),
    RemoveImplements(usize, usize),
    AddImplements(usize, usize),
    RemoveRoot(usize, usize),
    SchemaImplicit(usize),
    /// 0: explicit definition listing all conventional roots, 1: only the query root
    SchemaExplicit(usize),
}

impl Op {
    fn class(&self) -> &'static str {
        match self {
            Op::Default(..) => "default",
            Op::Description(..) => "description",
            Op::Deprecation(..) => "deprecation",
            Op::FieldType(..) => "type-wrapper",
            Op::SpecifiedBy(..) => "specifiedBy",
            Op::Repeatable(..) => "repeatable",
            Op::SwapDefs(..) | Op::Swap(..) => "reorder",
            Op::RemoveImplements(..) | Op::AddImplements(..) => "implements",
            Op::RemoveRoot(..) | Op::SchemaImplicit(..) | Op::SchemaExplicit(..) => "schema-definition",
        }
    }
    fn composable(&self) -> bool {
        matches!(
            self,
            Op::Default(..) | Op::Deprecation(..) | Op::FieldType(..) | Op::Description(..)
        )
    }
    fn path(&self) -> Option<Path> {
        match self {
            Op::Default(p, _) | Op::Description(p, _) | Op::Deprecation(p, _) | Op::FieldType(p, _) => Some(*p),
            _ => None,
        }
    }
}

fn implements_closed(doc: &Document, t: &TypeDef, iface: &TypeDef) -> bool {
    // T may implement I if it has I's fields with equal types and the same arguments, and
    // already implements everything I implements
    let _ = doc;
    iface.implements.iter().all(|i| t.implements.contains(i))
        && iface.fields.iter().all(|f| {
            t.fields.iter().any(|g| {
                g.name == f.name
                    && g.ty == f.ty
                    && f.args.iter().all(|a| g.args.iter().any(|b| b.name == a.name && b.ty == a.ty))
                    && g.args.iter().all(|b| {
                        f.args.iter().any(|a| a.name == b.name) || !b.ty.is_non_null() || b.default.is_some()
                    })
            })
        })
}

/// Is the type free of interface contracts (so its field types may change)?
fn unconstrained(doc: &Document, t: &TypeDef) -> bool {
    let has_ext_implements = doc.types().any(|x| x.name == t.name && !x.implements.is_empty());
    match t.kind {
        TypeKind::Object => !has_ext_implements,
        TypeKind::Interface => {
            !has_ext_implements && !doc.types().any(|x| x.implements.contains(&t.name))
        }
        _ => false,
    }
}

fn contains_string(v: &Value) -> bool {
    match v {
        Value::Str(_) => true,
        Value::List(items) => items.iter().any(contains_string),
        Value::Object(fs) => fs.iter().any(|(_, x)| contains_string(x)),
        _ => false,
    }
}

fn contains_object(v: &Value) -> bool {
    match v {
        Value::Object(_) => true,
        Value::List(items) => items.iter().any(contains_object),
        _ => false,
    }
}

/// does input type `from` reach input type `target` through input-field types (or is it)?
fn reaches(m: &Model, from: &str, target: &str, depth: u32) -> bool {
    if from == target {
        return true;
    }
    if depth > 8 {
        return false;
    }
    match m.ty(from) {
        Some(t) if t.kind == TypeKind::Input => {
            t.input_fields.iter().any(|f| reaches(m, f.ty.inner_name(), target, depth + 1))
        }
        _ => false,
    }
}

fn all_directive_lists(doc: &Document) -> Vec<&Vec<Directive>> {
    let mut v = Vec::new();
    for def in &doc.defs {
        match def {
            Definition::Schema(s) => v.push(&s.directives),
            Definition::Directive(dd) => v.extend(dd.args.iter().map(|a| &a.directives)),
            Definition::Type(t) => {
                v.push(&t.directives);
                for f in &t.fields {
                    v.push(&f.directives);
                    v.extend(f.args.iter().map(|a| &a.directives));
                }
                v.extend(t.input_fields.iter().map(|a| &a.directives));
                v.extend(t.values.iter().map(|a| &a.directives));
            }
            _ => {}
        }
    }
    v
}

/// All single-site variations of `doc`, in a fixed order.
fn operators(doc: &Document, m: &Model) -> Vec<Op> {
    let mut ops = Vec::new();
    // default values
    for p in input_value_sites(doc) {
        let iv = input_value(doc, p);
        let menu = default_menu(m, &iv.ty, 0);
        // graphql-js v16 resolves an input type's field map lazily and coerces the field
        // defaults while doing so: an object literal as the default of an input field whose
        // type leads back to the containing type re-enters that resolution (stack overflow in
        // graphql-js) — outside the alphabet
        let cyclic = match p {
            Path::InputField(d, _) => reaches(m, iv.ty.inner_name(), &type_at(doc, d).name, 0),
            _ => false,
        };
        for (i, v) in menu.iter().enumerate() {
            if cyclic && contains_object(v) {
                continue;
            }
            if iv.default.as_ref() != Some(v) {
                ops.push(Op::Default(p, i));
            }
        }
        let deprecated = iv.directives.iter().any(|d| d.name == "deprecated");
        if iv.default.is_some() && !iv.ty.is_non_null() && !deprecated {
            ops.push(Op::Default(p, usize::MAX));
        }
    }
    // descriptions
    {
        let mut probe = doc.clone();
        for p in description_sites(doc) {
            let cur = description_mut(&mut probe, p).clone();
            for (i, alt) in DESCRIPTION_MENU.iter().enumerate() {
                if cur.as_deref() != *alt {
                    ops.push(Op::Description(p, i));
                }
            }
        }
    }
    // deprecation
    {
        let mut probe = doc.clone();
        for p in deprecation_sites(doc) {
            let cur = directives_mut(&mut probe, p).iter().find(|d| d.name == "deprecated").cloned();
            for (i, alt) in DEPRECATION_MENU.iter().enumerate() {
                let same = match (&cur, alt) {
                    (None, None) => true,
                    (Some(d), Some(r)) => d.arg("reason") == r.map(Value::str).as_ref(),
                    _ => false,
                };
                if !same {
                    ops.push(Op::Deprecation(p, i));
                }
            }
        }
    }
    // type wrappers: output fields of unconstrained types; arguments of those fields that have
    // no default and no directive
    for (d, def) in doc.defs.iter().enumerate() {
        let Definition::Type(t) = def else { continue };
        if !unconstrained(doc, t) {
            continue;
        }
        for (f, fd) in t.fields.iter().enumerate() {
            for (w, pat) in WRAPPERS.iter().enumerate() {
                if wrap(pat, fd.ty.inner_name()) != fd.ty {
                    ops.push(Op::FieldType(Path::Field(d, f), w));
                }
            }
            for (a, arg) in fd.args.iter().enumerate() {
                if arg.default.is_none() && arg.directives.is_empty() {
                    for (w, pat) in WRAPPERS.iter().enumerate() {
                        if wrap(pat, arg.ty.inner_name()) != arg.ty {
                            ops.push(Op::FieldType(Path::FieldArg(d, f, a), w));
                        }
                    }
                }
            }
        }
    }
    for (d, def) in doc.defs.iter().enumerate() {
        match def {
            Definition::Type(t) if t.kind == TypeKind::Scalar && !t.extend => {
                for alt in 0..3 {
                    ops.push(Op::SpecifiedBy(d, alt));
                }
            }
            Definition::Directive(dd) => {
                // non-repeatable -> repeatable is always valid; the reverse only when the
                // directive is never applied twice to one element
                let applied_twice = all_directive_lists(doc)
                    .iter()
                    .any(|l| l.iter().filter(|x| x.name == dd.name).count() > 1);
                if !dd.repeatable || !applied_twice {
                    ops.push(Op::Repeatable(d));
                }
            }
            _ => {}
        }
    }
    // reorder: adjacent swaps
    for d in 0..doc.defs.len().saturating_sub(1) {
        let ext = |x: &Definition| match x {
            Definition::Type(t) => t.extend,
            Definition::Schema(s) => s.extend,
            _ => false,
        };
        if !ext(&doc.defs[d]) && !ext(&doc.defs[d + 1]) {
            ops.push(Op::SwapDefs(d));
        }
    }
    for (d, def) in doc.defs.iter().enumerate() {
        match def {
            Definition::Type(t) => {
                for i in 0..t.fields.len().saturating_sub(1) {
                    ops.push(Op::Swap("fields", d, 0, i));
                }
                for (f, fd) in t.fields.iter().enumerate() {
                    for i in 0..fd.args.len().saturating_sub(1) {
                        ops.push(Op::Swap("args", d, f, i));
                    }
                }
                for i in 0..t.input_fields.len().saturating_sub(1) {
                    ops.push(Op::Swap("input_fields", d, 0, i));
                }
                for i in 0..t.values.len().saturating_sub(1) {
                    ops.push(Op::Swap("values", d, 0, i));
                }
                for i in 0..t.members.len().saturating_sub(1) {
                    ops.push(Op::Swap("members", d, 0, i));
                }
                for i in 0..t.implements.len().saturating_sub(1) {
                    ops.push(Op::Swap("implements", d, 0, i));
                }
            }
            Definition::Directive(dd) => {
                for i in 0..dd.args.len().saturating_sub(1) {
                    ops.push(Op::Swap("directive_args", d, 0, i));
                }
                for i in 0..dd.locations.len().saturating_sub(1) {
                    ops.push(Op::Swap("locations", d, 0, i));
                }
            }
            Definition::Schema(s) => {
                for i in 0..s.roots.len().saturating_sub(1) {
                    ops.push(Op::Swap("roots", d, 0, i));
                }
            }
            _ => {}
        }
    }
    // implements
    for (d, def) in doc.defs.iter().enumerate() {
        let Definition::Type(t) = def else { continue };
        if !matches!(t.kind, TypeKind::Object | TypeKind::Interface) || t.extend {
            continue;
        }
        let extended = doc.types().filter(|x| x.name == t.name).count() > 1;
        if extended {
            continue;
        }
        for (i, iname) in t.implements.iter().enumerate() {
            // removable if no other implemented interface implements it, and (for an
            // interface) no implementer relies on the transitive chain
            let needed_by_other = t.implements.iter().any(|o| {
                o != iname && doc.types().any(|x| x.name == *o && x.implements.contains(iname))
            });
            let relied_on = t.kind == TypeKind::Interface;
            if !needed_by_other && !relied_on {
                ops.push(Op::RemoveImplements(d, i));
            }
        }
        for (j, other) in doc.defs.iter().enumerate() {
            let Definition::Type(iface) = other else { continue };
            if iface.kind != TypeKind::Interface || iface.extend || iface.name == t.name {
                continue;
            }
            if doc.types().filter(|x| x.name == iface.name).count() > 1 {
                continue;
            }
            if t.implements.contains(&iface.name) || t.kind == TypeKind::Interface {
                continue;
            }
            if implements_closed(doc, t, iface) {
                ops.push(Op::AddImplements(d, j));
            }
        }
    }
    // schema definition
    let schema_defs: Vec<usize> = doc
        .defs
        .iter()
        .enumerate()
        .filter(|(_, x)| matches!(x, Definition::Schema(s) if !s.extend))
        .map(|(i, _)| i)
        .collect();
    match schema_defs.first() {
        Some(&d) => {
            let Definition::Schema(s) = &doc.defs[d] else { unreachable!() };
            for (i, (k, _)) in s.roots.iter().enumerate() {
                if *k != OpKind::Query {
                    ops.push(Op::RemoveRoot(d, i));
                }
            }
            let conventional = s.roots.iter().all(|(k, n)| {
                n == match k {
                    OpKind::Query => "Query",
                    OpKind::Mutation => "Mutation",
                    OpKind::Subscription => "Subscription",
                }
            });
            let others_absent = ["Mutation", "Subscription"].iter().all(|n| {
                s.roots.iter().any(|(_, r)| r == n) || !doc.types().any(|t| t.name == *n)
            });
            let has_ext = doc.defs.iter().any(|x| matches!(x, Definition::Schema(s) if s.extend));
            if conventional && others_absent && s.description.is_none() && s.directives.is_empty() && !has_ext {
                ops.push(Op::SchemaImplicit(d));
            }
        }
        None => {
            if m.query.is_some() {
                ops.push(Op::SchemaExplicit(0));
                ops.push(Op::SchemaExplicit(1));
            }
        }
    }
    ops
}

fn apply(doc: &mut Document, m: &Model, op: &Op) {
    match op {
        Op::Default(p, alt) => {
            let ty = input_value(doc, *p).ty.clone();
            let v = if *alt == usize::MAX { None } else { Some(default_menu(m, &ty, 0)[*alt].clone()) };
            input_value_mut(doc, *p).default = v;
        }
        Op::Description(p, alt) => {
            *description_mut(doc, *p) = DESCRIPTION_MENU[*alt].map(|s| s.to_string());
        }
        Op::Deprecation(p, alt) => {
            let ds = directives_mut(doc, *p);
            ds.retain(|d| d.name != "deprecated");
            match DEPRECATION_MENU[*alt] {
                None => {}
                Some(None) => ds.push(Directive::new("deprecated")),
                Some(Some(r)) => ds.push(Directive::with("deprecated", &[("reason", Value::str(r))])),
            }
        }
        Op::FieldType(p, w) => match *p {
            Path::Field(d, f) => {
                let fd = &mut type_at_mut(doc, d).fields[f];
                fd.ty = wrap(WRAPPERS[*w], fd.ty.inner_name());
            }
            iv => {
                let x = input_value_mut(doc, iv);
                x.ty = wrap(WRAPPERS[*w], x.ty.inner_name());
            }
        },
        Op::SpecifiedBy(d, alt) => {
            let t = type_at_mut(doc, *d);
            t.directives.retain(|x| x.name != "specifiedBy");
            match alt {
                0 => {}
                1 => t.directives.push(Directive::with("specifiedBy", &[("url", Value::str("https://x.example/a"))])),
                _ => t.directives.push(Directive::with("specifiedBy", &[("url", Value::str("q\"\\\n\té"))])),
            }
        }
        Op::Repeatable(d) => {
            if let Definition::Directive(dd) = &mut doc.defs[*d] {
                dd.repeatable = !dd.repeatable;
            }
        }
        Op::SwapDefs(d) => doc.defs.swap(*d, *d + 1),
        Op::Swap(kind, d, f, i) => match &mut doc.defs[*d] {
            Definition::Type(t) => match *kind {
                "fields" => t.fields.swap(*i, *i + 1),
                "args" => t.fields[*f].args.swap(*i, *i + 1),
                "input_fields" => t.input_fields.swap(*i, *i + 1),
                "values" => t.values.swap(*i, *i + 1),
                "members" => t.members.swap(*i, *i + 1),
                "implements" => t.implements.swap(*i, *i + 1),
                _ => panic!("bad swap kind"),
            },
            Definition::Directive(dd) => match *kind {
                "directive_args" => dd.args.swap(*i, *i + 1),
                "locations" => dd.locations.swap(*i, *i + 1),
                _ => panic!("bad swap kind"),
            },
            Definition::Schema(s) => s.roots.swap(*i, *i + 1),
            _ => panic!("bad swap target"),
        },
        Op::RemoveImplements(d, i) => {
            type_at_mut(doc, *d).implements.remove(*i);
        }
        Op::AddImplements(d, j) => {
            let name = type_at(doc, *j).name.clone();
            let inherited = type_at(doc, *j).implements.clone();
            let t = type_at_mut(doc, *d);
            debug_assert!(inherited.iter().all(|i| t.implements.contains(i)));
            t.implements.push(name);
        }
        Op::RemoveRoot(d, i) => {
            if let Definition::Schema(s) = &mut doc.defs[*d] {
                s.roots.remove(*i);
            }
        }
        Op::SchemaImplicit(d) => {
            doc.defs.remove(*d);
        }
        Op::SchemaExplicit(which) => {
            let mut roots = vec![(OpKind::Query, m.query.clone().unwrap())];
            if *which == 0 {
                if let Some(n) = &m.mutation {
                    roots.push((OpKind::Mutation, n.clone()));
                }
                if let Some(n) = &m.subscription {
                    roots.push((OpKind::Subscription, n.clone()));
                }
            }
            doc.defs.push(Definition::Schema(SchemaDef {
                extend: false,
                description: None,
                directives: vec![],
                roots,
            }));
        }
    }
}

// ---------------------------------------------------------------------------------
// Running one schema
// ---------------------------------------------------------------------------------

struct Variant {
    name: &'static str,
    include_deprecated: Option<bool>,
    concrete_roots: bool,
    verbatim_text: bool,
}

const VARIANTS: [Variant; 4] = [
    Variant { name: "standard", include_deprecated: Some(true), concrete_roots: false, verbatim_text: true },
    Variant { name: "with-concrete-root-fields", include_deprecated: Some(true), concrete_roots: true, verbatim_text: false },
    Variant { name: "includeDeprecated-omitted", include_deprecated: None, concrete_roots: false, verbatim_text: false },
    Variant { name: "includeDeprecated-false", include_deprecated: Some(false), concrete_roots: false, verbatim_text: false },
];

struct Ctx {
    kf_open: bool,
    /// development aid (C24_COUNT=1): enumerate and count only
    dry: bool,
}

/// Concrete root fields that can be selected without arguments (up to three; composite ones get
/// `{ __typename }`).
fn concrete_roots(m: &Model) -> Vec<Selection> {
    let mut out = Vec::new();
    let Some(q) = m.query.as_ref().and_then(|n| m.ty(n)) else { return out };
    for f in &q.fields {
        if f.args.iter().any(|a| a.ty.is_non_null() && a.default.is_none()) {
            continue;
        }
        let inner = m.ty(f.ty.inner_name()).map(|t| t.kind);
        let sel = match inner {
            Some(TypeKind::Scalar) | Some(TypeKind::Enum) => Selection::field(&f.name),
            Some(_) => Field::new(&f.name).sel(vec![Selection::field("__typename")]).into(),
            None => continue,
        };
        out.push(sel);
        if out.len() == 3 {
            break;
        }
    }
    out
}

/// The smallest input value of the schema whose verbatim printing differs from the reference.
fn verbatim_witness(doc: &Document, m: &Model) -> Option<String> {
    let mut best: Option<String> = None;
    for p in input_value_sites(doc) {
        let iv = input_value(doc, p);
        let strict = introspect::default_value_string(m, iv, Switches::default()).ok()?;
        let dev = introspect::default_value_string(m, iv, Switches { default_value_printed_verbatim: true }).ok()?;
        if strict != dev {
            let w = format!(
                "{} {} = {}  -> defaultValue {:?}, reference {:?}",
                p.describe(doc),
                iv.ty,
                iv.default.as_ref().map(value_to_string).unwrap_or_default(),
                dev.unwrap_or_default(),
                strict.unwrap_or_default()
            );
            if best.as_ref().map_or(true, |b| (w.len(), &w) < (b.len(), b)) {
                best = Some(w);
            }
        }
    }
    best
}

fn path_class(diff: &str) -> String {
    // ".types[12:Query].fields[0:f].args[1:x].defaultValue: a vs b" -> "types.fields.args.defaultValue"
    let path = diff.split(": ").next().unwrap_or("");
    let mut out = String::new();
    let mut skip = false;
    for c in path.chars() {
        match c {
            '[' => skip = true,
            ']' => skip = false,
            c if !skip => out.push(c),
            _ => {}
        }
    }
    out.trim_start_matches('.').to_string()
}

#[derive(PartialEq, Eq, Clone, Copy)]
enum Agg {
    Agree,
    Known,
    Violation,
}

struct CaseInfo<'a> {
    base: &'a str,
    style: Style,
    ops: &'a [String],
    class: &'a str,
    /// normalised reference `__schema` of the base schema (standard query), for the
    /// non-triviality rule
    base_ref: Option<&'a J>,
}

fn run_schema(ctx: &Ctx, doc: &Document, info: &CaseInfo<'_>, st: &mut Stats) {
    st.states += 1;
    if ctx.dry {
        return;
    }
    let canonical = doc.print();
    let case = || {
        json!({
            "base": info.base, "style": info.style.name(), "ops": info.ops, "sdl": canonical,
        })
    };
    let size = canonical.len() as u64 + 100_000 * info.ops.len() as u64;
    let sdl_text = print_sdl(doc, info.style);
    let model = match introspect::build(doc) {
        Ok(m) => m,
        Err(e) => {
            st.fail_simple("machinery:reference-build", case(), e, size);
            return;
        }
    };
    let schema = match Schema::parse_and_validate(&sdl_text, "schema.graphql") {
        Ok(s) => s,
        Err(e) => {
            st.count("generator_invalid_schemas", 1);
            st.fail_simple(
                "machinery:generated-schema-rejected",
                case(),
                format!("apollo rejects the generated schema: {} ; SDL: {}", e.errors, vcore::short(&sdl_text)),
                size,
            );
            return;
        }
    };
    let implementers = schema.implementers_map();
    let roots = concrete_roots(&model);
    let mut agg = Agg::Agree;
    let mut nontrivial = false;
    for v in &VARIANTS {
        let extra: &[Selection] = if v.concrete_roots { &roots } else { &[] };
        let q_ast = introspect::full_query(v.include_deprecated, extra);
        let q_text = if v.verbatim_text { introspect::FULL_QUERY_TEXT.to_string() } else { q_ast.print() };
        let fail = |st: &mut Stats, sig: &str, detail: String| {
            st.fail_simple(&format!("{}:{sig}", v.name), case(), detail, size);
        };
        // the reference
        let expected = match introspect::execute(&model, &q_ast, Switches::default()) {
            Ok(J::Object(mut d)) => d.remove("__schema").unwrap_or(J::Null),
            Ok(_) => J::Null,
            Err(e) => {
                st.fail_simple("machinery:reference-outside-alphabet", case(), e, size);
                return;
            }
        };
        // the implementation
        st.transitions += 1;
        let got = vcore::catch(|| -> Result<J, String> {
            let qdoc = ExecutableDocument::parse_and_validate(&schema, &q_text, "query.graphql")
                .map_err(|e| format!("query rejected: {}", e.errors))?;
            let op = qdoc.operations.get(None).map_err(|e| format!("no operation: {}", e.message()))?;
            let vars = coerce_variable_values(&schema, op, &JsonMap::new())
                .map_err(|e| format!("variables: {}", e.message()))?;
            let resp = introspection::partial_execute(&schema, &implementers, &qdoc, op, &vars)
                .map_err(|e| format!("request error: {}", e.message()))?;
            serde_json::to_value(&resp).map_err(|e| format!("response does not serialise: {e}"))
        });
        let resp = match got {
            Err(p) => {
                fail(st, "panic", format!("panic: {p}"));
                agg = Agg::Violation;
                continue;
            }
            Ok(Err(e)) => {
                fail(st, "request-failed", e);
                agg = Agg::Violation;
                continue;
            }
            Ok(Ok(r)) => r,
        };
        if resp.get("errors").is_some_and(|e| e.as_array().map_or(true, |a| !a.is_empty())) {
            fail(st, "errors", format!("errors: {}", vcore::short(&resp["errors"].to_string())));
            agg = Agg::Violation;
            continue;
        }
        let keys: Vec<&str> = resp["data"].as_object().map(|o| o.keys().map(|k| k.as_str()).collect()).unwrap_or_default();
        if keys != ["__schema"] {
            fail(st, "root-keys", format!("data has keys {keys:?}, expected exactly [\"__schema\"]"));
            agg = Agg::Violation;
            continue;
        }
        let mut actual = resp["data"]["__schema"].clone();
        let mut expected = expected;
        introspect::normalise(&mut actual);
        introspect::normalise(&mut expected);
        if v.verbatim_text {
            if let Some(b) = info.base_ref {
                nontrivial = *b != expected;
            }
        }
        if actual == expected {
            continue;
        }
        let diff = introspect::first_difference(&actual, &expected, "").unwrap_or_default();
        if ctx.kf_open {
            let dev = Switches { default_value_printed_verbatim: true };
            if let Ok(J::Object(mut d)) = introspect::execute(&model, &q_ast, dev) {
                let mut e2 = d.remove("__schema").unwrap_or(J::Null);
                introspect::normalise(&mut e2);
                if actual == e2 && e2 != expected {
                    if v.verbatim_text {
                        st.known(KF_VERBATIM, &verbatim_witness(doc, &model).unwrap_or(format!("at {diff}")));
                    }
                    if agg == Agg::Agree {
                        agg = Agg::Known;
                    }
                    continue;
                }
            }
        }
        agg = Agg::Violation;
        fail(
            st,
            &path_class(&diff),
            format!("apollo vs reference (after normalisation) first differ at {}", vcore::short(&diff)),
        );
    }
    if nontrivial {
        st.nontrivial += 1;
    }
    st.outcome(&format!(
        "{} [{}{}]",
        match agg {
            Agg::Agree => "agree",
            Agg::Known => "known-finding",
            Agg::Violation => "VIOLATION",
        },
        info.class,
        if info.style == Style::Block { ", block strings" } else { "" }
    ));
}

fn op_label(doc: &Document, m: &Model, op: &Op) -> String {
    match op {
        Op::Default(p, alt) => {
            let iv = input_value(doc, *p);
            let v = if *alt == usize::MAX {
                "<none>".to_string()
            } else {
                value_to_string(&default_menu(m, &iv.ty, 0)[*alt])
            };
            format!("default {} {} = {}", p.describe(doc), iv.ty, v)
        }
        Op::Description(p, alt) => format!("description {} := {:?}", p.describe(doc), DESCRIPTION_MENU[*alt]),
        Op::Deprecation(p, alt) => format!("deprecation {} := {:?}", p.describe(doc), DEPRECATION_MENU[*alt]),
        Op::FieldType(p, w) => format!("type {} := {}", p.describe(doc), WRAPPERS[*w]),
        other => format!("{other:?}"),
    }
}

fn replay(ctx: &Ctx, case: &J, st: &mut Stats) {
    let text = case["sdl"].as_str().unwrap_or("");
    let doc = match sdl::parse(text) {
        Ok(d) => d,
        Err(e) => vcore::machinery_error(&format!("replay: SDL does not parse: {e}")),
    };
    if doc.print() != text {
        vcore::machinery_error("replay: SDL does not round-trip through refmodel::sdl");
    }
    let ops: Vec<String> = case["ops"]
        .as_array()
        .map(|a| a.iter().filter_map(|x| x.as_str().map(String::from)).collect())
        .unwrap_or_default();
    let info = CaseInfo {
        base: case["base"].as_str().unwrap_or("?"),
        style: Style::from_name(case["style"].as_str().unwrap_or("")),
        ops: &ops,
        class: "replay",
        base_ref: None,
    };
    run_schema(ctx, &doc, &info, st);
}

struct Base {
    name: &'static str,
    pairs: bool,
    doc: Document,
    model: Model,
    ops: Vec<Op>,
    reference: J,
}

fn pair_key(op: &Op) -> (Path, u8) {
    let c = match op {
        Op::Default(..) => 0,
        Op::Deprecation(..) => 1,
        Op::FieldType(..) => 2,
        _ => 3,
    };
    (op.path().unwrap(), c)
}

fn main() {
    let mut chk = Check::new("C24");
    vcore::quiet_panics();
    let ctx = Ctx { kf_open: chk.known.is_open(KF_VERBATIM), dry: std::env::var("C24_COUNT").is_ok() };
    if let Some(case) = chk.replay_case() {
        let mut st = Stats::default();
        replay(&ctx, &case, &mut st);
        chk.absorb(st);
        chk.finish_replay();
    }
    let tier = chk.tier();
    let mut bases = Vec::new();
    // development aid: C24_ONLY=<base name> restricts the run (never set by registered commands;
    // such a run is reported as not exhaustive)
    let only = std::env::var("C24_ONLY").ok();
    for (name, pairs, text) in BASES {
        if only.as_deref().is_some_and(|o| o != *name) {
            continue;
        }
        let doc = sdl::must(text);
        if sdl::parse(&doc.print()).ok().as_ref() != Some(&doc) {
            vcore::machinery_error(&format!("base schema {name} does not round-trip through the mini-AST printer"));
        }
        let model = introspect::build(&doc)
            .unwrap_or_else(|e| vcore::machinery_error(&format!("base schema {name}: {e}")));
        let ops = operators(&doc, &model);
        let mut reference = introspect::execute(&model, &introspect::full_query(Some(true), &[]), Switches::default())
            .unwrap_or_else(|e| vcore::machinery_error(&format!("base schema {name}: {e}")))["__schema"]
            .clone();
        introspect::normalise(&mut reference);
        bases.push(Base { name, pairs: *pairs, doc, model, ops, reference });
    }
    // work items: (base, None) = the base itself; (base, Some(i)) = operator i (and, in the
    // thorough tier, every later composable operator on top of it)
    let mut items: Vec<(usize, Option<usize>)> = Vec::new();
    for (b, base) in bases.iter().enumerate() {
        items.push((b, None));
        for i in 0..base.ops.len() {
            items.push((b, Some(i)));
        }
    }
    let stats = vcore::par_items(&items, |&(b, oi), st: &mut Stats| {
        let base = &bases[b];
        let Some(i) = oi else {
            for style in [Style::Quoted, Style::Block] {
                let info = CaseInfo { base: base.name, style, ops: &[], class: "base", base_ref: None };
                run_schema(&ctx, &base.doc, &info, st);
                st.nontrivial += 1;
            }
            st.sample(json!({"base": base.name, "sdl": base.doc.print()}));
            return;
        };
        let op = &base.ops[i];
        let mut doc = base.doc.clone();
        apply(&mut doc, &base.model, op);
        let label = vec![op_label(&base.doc, &base.model, op)];
        let info = CaseInfo { base: base.name, style: Style::Quoted, ops: &label, class: op.class(), base_ref: Some(&base.reference) };
        run_schema(&ctx, &doc, &info, st);
        if i % 97 == 13 {
            st.sample(json!({"base": base.name, "op": label[0], "sdl": doc.print()}));
        }
        st.count(&format!("single[{}]", base.name), 1);
        // strings written as block strings
        let stringy = match op {
            Op::Description(_, alt) => DESCRIPTION_MENU[*alt].is_some(),
            Op::Default(p, alt) => {
                *alt != usize::MAX
                    && contains_string(&default_menu(&base.model, &input_value(&base.doc, *p).ty, 0)[*alt])
            }
            Op::SpecifiedBy(_, alt) => *alt > 0,
            Op::Deprecation(_, alt) => matches!(DEPRECATION_MENU[*alt], Some(Some(_))),
            _ => false,
        };
        if stringy {
            let info = CaseInfo { style: Style::Block, ..info };
            run_schema(&ctx, &doc, &info, st);
            st.count(&format!("single-block[{}]", base.name), 1);
        }
        if tier == Tier::Thorough && base.pairs && op.composable() && !matches!(op, Op::Description(..)) {
            let Ok(model1) = introspect::build(&doc) else { return };
            let k1 = pair_key(op);
            for op2 in operators(&doc, &model1) {
                if !op2.composable() || matches!(op2, Op::Description(..)) || pair_key(&op2) <= k1 {
                    continue;
                }
                let mut doc2 = doc.clone();
                apply(&mut doc2, &model1, &op2);
                let labels = vec![label[0].clone(), op_label(&doc, &model1, &op2)];
                let class = format!("{}+{}", op.class(), op2.class());
                let info = CaseInfo { base: base.name, style: Style::Quoted, ops: &labels, class: &class, base_ref: Some(&base.reference) };
                run_schema(&ctx, &doc2, &info, st);
                st.count(&format!("pairs[{}]", base.name), 1);
            }
        }
    });
    chk.absorb(stats);
    let mut per_base = serde_json::Map::new();
    for b in &bases {
        let mut classes = std::collections::BTreeMap::new();
        for o in &b.ops {
            *classes.entry(o.class()).or_insert(0u64) += 1;
        }
        per_base.insert(b.name.to_string(), json!({"single_site_operators": b.ops.len(), "by_class": classes, "pairs_in_thorough": b.pairs}));
    }
    chk.bounds = json!({
        "base_schemas": BASES.len(),
        "bases": per_base,
        "query_variants": VARIANTS.iter().map(|v| v.name).collect::<Vec<_>>(),
        "operators": "single site: default value over the type's literal menu (and removal), description over 7 alternatives, @deprecated over {none, bare, reason, empty reason}, type wrapper over 6 shapes, @specifiedBy, repeatable, adjacent swaps of definitions/fields/arguments/input fields/enum values/union members/interfaces/locations/roots, add/remove implements, schema definition implicit/explicit/fewer roots; string-bearing variants also with block strings",
        "pairs": "thorough: every ordered pair of {default, deprecation, type-wrapper} operators at distinct (site, class) on the bases marked pairs_in_thorough",
    });
    chk.rule = "every base schema and every listed variation of it, each under all four query variants; \
                non-trivial = the reference response to the standard query differs from the base schema's (after normalisation)"
        .into();
    chk.assumptions = vec![
        "reference = refmodel::introspect, a transcription of graphql-js v16.0–16.8 (introspection.ts, buildASTSchema, valueFromAST — which fills the defaults of missing input-object fields —, astFromValue, printer, printString); graphql-js itself is not installed".into(),
        "not compared: description strings of built-in types, their fields/arguments/enum values, and of the four specified directives; order of `types`, `directives` and of the members of `__*` types; key order inside JSON objects".into(),
        "outside the alphabet: @deprecated(reason: null); @deprecated on required arguments/input fields; default values that are not type-correct (incl. unknown input-object fields); enum/list/object literals as defaults of custom scalars; numbers that JavaScript prints in exponent notation (|x| ≥ 1e21 or < 1e-6) and -0; U+007F–U+009F in strings; redefinition of built-in scalars/directives; type extensions placed before the definition, `extend scalar`, `extend schema` with operation types; directive definitions that reference themselves; @oneOf / isOneOf (graphql-js ≥ 16.9)".into(),
        "the variants with includeDeprecated omitted / false are the standard query text with only that argument changed; they are included because the filters and the argument default are otherwise unreachable".into(),
    ];
    if only.is_some() || ctx.dry {
        chk.exhaustive = false;
        chk.note("C24_ONLY set: partial run");
    }
    chk.finish(&|case| {
        let mut st = Stats::default();
        replay(&ctx, case, &mut st);
        !st.failures.is_empty()
    })
}
