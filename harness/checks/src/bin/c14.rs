//! C14 — schema validation agrees with the specification (DESIGN.md §6 C14, A.3).
//! E-INPUT: base schemas × mutation operators (k = 1 | k ≤ 2) and the tiny-scope schemas; the
//! verdict of `Schema::parse_and_validate` against the reference validator `refmodel::typesys`.

use apollo_compiler::Schema;
use checks::schemas::{self, Case};
use refmodel::ast::Document;
use refmodel::typesys::{self, Deviations, Params};
use serde_json::{json, Value};
use vcore::{Check, Stats};

/// known finding id → the deviation switch that reproduces it
const FINDINGS: &[(&str, fn(&mut Deviations))] = &[
    ("C14-duplicate-input-object-field", |d| d.duplicate_input_fields_first_wins = true),
];

struct Cfg {
    /// ids of FINDINGS listed as open
    open: Vec<usize>,
}

fn apollo_verdict(text: &str) -> Result<Result<(), String>, String> {
    vcore::catch(|| match Schema::parse_and_validate(text, "s.graphql") {
        Ok(_) => Ok(()),
        Err(e) => Err(e.errors.iter().next().map(|d| d.error.to_string()).unwrap_or_else(|| "(no diagnostic)".into())),
    })
}

/// A diagnostic message with the quoted / backticked names removed: a stable failure class.
fn normalise(msg: &str) -> String {
    let mut out = String::new();
    let mut quote: Option<char> = None;
    for c in msg.chars() {
        match quote {
            Some(q) => {
                if c == q {
                    quote = None;
                    out.push('_');
                }
            }
            None => {
                if c == '`' || c == '"' {
                    quote = Some(c);
                } else if !c.is_ascii_digit() {
                    out.push(c);
                }
            }
        }
    }
    out.chars().take(80).collect()
}

fn check_schema(origin: &str, space: &str, doc: &Document, text: &str, cfg: &Cfg, st: &mut Stats) {
    st.states += 1;
    st.transitions += 1;
    let strict = Params::apollo_documented();
    let violations = typesys::validate(doc, &strict);
    let fired = typesys::rules_fired(&violations);
    let ref_ok = fired.is_empty();
    for r in &fired {
        st.count(&format!("rule-violated:{r}"), 1);
    }
    let case = || json!({"text": text, "origin": origin, "space": space});
    let impl_res = match apollo_verdict(text) {
        Ok(r) => r,
        Err(p) => {
            st.fail_simple("panic", case(), format!("Schema::parse_and_validate panicked: {p}"), text.len() as u64);
            return;
        }
    };
    let impl_ok = impl_res.is_ok();
    if !ref_ok || !impl_ok {
        st.nontrivial += 1;
    }
    if vcore_sample(text) {
        st.sample(json!({"origin": origin, "schema": vcore::short(text), "reference": fired, "apollo_valid": impl_ok}));
    }
    if ref_ok == impl_ok {
        match fired.len() {
            0 => st.outcome(if space == "tiny-scope" { "tiny:accepted" } else { "accepted" }),
            1 => st.outcome(&format!("{}rejected:{}", if space == "tiny-scope" { "tiny:" } else { "" }, fired[0])),
            n => {
                st.outcome(&format!("{}rejected:{n}-rules", if space == "tiny-scope" { "tiny:" } else { "" }));
                st.count(&format!("rejected-by:{}", fired.join("+")), 1);
            }
        }
        return;
    }
    // disagreement: is it exactly what an open known finding predicts?
    let with = |ids: &[usize]| {
        let mut p = strict;
        for i in ids {
            (FINDINGS[*i].1)(&mut p.dev);
        }
        typesys::validate(doc, &p).is_empty()
    };
    let explained: Vec<usize> = cfg.open.iter().copied().filter(|i| with(&[*i]) == impl_ok).collect();
    let explained = if explained.is_empty() && cfg.open.len() > 1 && with(&cfg.open) == impl_ok {
        cfg.open.clone()
    } else {
        explained
    };
    if !explained.is_empty() {
        for i in &explained {
            st.known(FINDINGS[*i].0, text);
        }
        st.outcome("known-finding");
        return;
    }
    if impl_ok {
        st.fail_simple(
            &format!("apollo-accepts-invalid:{}", fired[0]),
            case(),
            format!("reference rejects ({}), apollo accepts [{origin}]", summarise(&violations)),
            text.len() as u64,
        );
    } else {
        let msg = impl_res.unwrap_err();
        st.fail_simple(
            &format!("apollo-rejects-valid:{}", normalise(&msg)),
            case(),
            format!("reference accepts, apollo reports: {msg} [{origin}]"),
            text.len() as u64,
        );
    }
}

fn summarise(v: &[typesys::Violation]) -> String {
    v.iter().take(4).map(|x| format!("{}: {}", x.rule, x.subject)).collect::<Vec<_>>().join("; ")
}

fn vcore_sample(text: &str) -> bool {
    // deterministic thinning: a fixed hash class of the text
    let mut h: u32 = 2166136261;
    for b in text.bytes() {
        h = (h ^ b as u32).wrapping_mul(16777619);
    }
    h % 4001 == 7
}

fn replay(case: &Value, cfg: &Cfg, st: &mut Stats) {
    let text = case["text"].as_str().unwrap_or("");
    let doc = match refmodel::sdl::parse(text) {
        Ok(d) => d,
        Err(e) => vcore::machinery_error(&format!("replay text does not parse with the harness reader: {e}")),
    };
    if doc.print() != text {
        vcore::machinery_error(&format!(
            "replay text is not in the printer's layout:\n--- text\n{text}\n--- re-printed\n{}",
            doc.print()
        ));
    }
    check_schema(case["origin"].as_str().unwrap_or("replay"), case["space"].as_str().unwrap_or("mutation"), &doc, text, cfg, st);
}

fn main() {
    let mut chk = Check::new("C14");
    vcore::quiet_panics();
    let cfg = Cfg { open: (0..FINDINGS.len()).filter(|i| chk.known.is_open(FINDINGS[*i].0)).collect() };
    if let Some(case) = chk.replay_case() {
        let mut st = Stats::default();
        replay(&case, &cfg, &mut st);
        chk.absorb(st);
        chk.finish_replay();
    }
    let (stats, bounds) = schemas::sweep(chk.tier(), |c: &Case<'_>, st| check_schema(&c.origin, c.space, c.doc, c.text, &cfg, st));
    chk.absorb(stats);
    // every rule must have been violated by some explored schema (and satisfied by some)
    let never_violated: Vec<&str> = typesys::RULES
        .iter()
        .copied()
        .filter(|r| !matches!(*r, "DefaultValues" | "VariableInConstValue" | "ExecutableDefinitions"))
        .filter(|r| !chk.stats.counters.contains_key(&format!("rule-violated:{r}")))
        .collect();
    let judged = chk.stats.states;
    let mut never_satisfied: Vec<&str> = Vec::new();
    for r in typesys::RULES {
        let violated = chk.stats.counters.get(&format!("rule-violated:{r}")).copied().unwrap_or(0);
        chk.stats.count(&format!("rule-satisfied:{r}"), judged - violated);
        if judged == violated {
            never_satisfied.push(r);
        }
    }
    chk.stats.count("rules-never-violated", never_violated.len() as u64);
    if !never_violated.is_empty() || !never_satisfied.is_empty() {
        vcore::machinery_error(&format!(
            "alphabet hole: reference rules never violated {never_violated:?}, never satisfied {never_satisfied:?}"
        ));
    }
    chk.bounds = bounds;
    chk.rule = "every in-alphabet schema of the mutation space (all operators at all sites of every base schema, k as stated) \
                and of the tiny-scope space; non-trivial = rejected by the reference or by apollo"
        .into();
    chk.assumptions = vec![
        "oracle = refmodel::typesys (October 2021 §3 rules = graphql-js v16 validateSDL + validateSchema, hand-transcribed; graphql-js itself is not installed), with the three documented apollo differences as parameters: directive arguments in the schema are type-checked, default values are not validated, a built-in directive may be redefined once".into(),
        "root operation types must be pairwise distinct (spec §3.3.1; graphql-js ≥ 17; property C15 states it)".into(),
        "built-in directive definitions (@skip, @include, @deprecated, @specifiedBy) are those of graphql-js v16 = apollo's built_in_types.graphql".into(),
        "three reference rules cannot fire inside the alphabet and are exempt from the 'every rule violated' self-check: DefaultValues (parameter off), VariableInConstValue (a syntax error), ExecutableDefinitions (excluded shape)".into(),
        "kept out of the alphabet (counted as excluded:*): directive definitions that reference themselves through their arguments or argument types; @deprecated on arguments / input fields (not a listed location in the October 2021 text, allowed by graphql-js v16 unless required); operations / fragments inside a schema document (graphql-js's buildSchema ignores them, the spec leaves it to the tool, apollo reports them); definitions, extensions of and references to built-in scalars' own definitions and introspection types (incl. @specifiedBy on built-ins); without a schema definition: a non-object type named Mutation / Subscription, `extend schema` when no default-named root object type exists, `extend schema` giving an operation type whose default-named type exists; an invalid (or null) default value on a Non-Null argument / input field (whether it still counts as 'has a default' is not pinned); a default value with a repeated input-object field; list literals relying on item coercion inside nested lists and non-finite Float literals; documents that are not syntactically valid (empty extensions, `schema` without root operation types)".into(),
        "only the accept / reject verdict is compared, not the diagnostics".into(),
    ];
    chk.exhaustive = true;
    chk.finish(&|case| {
        let mut st = Stats::default();
        replay(case, &cfg, &mut st);
        !st.failures.is_empty()
    })
}
