//! C04 — token and recursion limits are enforced exactly (DESIGN.md §6 C04).
//! E-INPUT.
//!  * token part: every string over Σlex / token sequence over T up to the bound, and every valid
//!    document of the production and nesting families, × **every** token limit n ∈ 0..=K+1
//!    (K = number of items the unlimited lexer yields), document entry point;
//!  * recursion part: every document of the nesting family (`refmodel::nest`: selection sets,
//!    list/object values, list types and their mixes) × every recursion limit r ∈ 0..=6 and the
//!    default, against the reference depth `refmodel::depth` (DESIGN A.7); standalone types and
//!    field sets likewise;
//!  * joint part: nesting documents × r × n;
//!  * compiler part: `apollo_compiler::parser::Parser::{recursion_reached, tokens_reached}` equal
//!    the high-water marks of a direct apollo-parser run and the reference values.

use apollo_compiler::parser::Parser as CParser;
use apollo_parser::cst::CstNode;
use apollo_parser::{Lexer, Parser};
use checks::parsing::{self, SIGMA_LEX, T};
use refmodel::{ast, depth, lex, nest};
use serde_json::{json, Value};
use vcore::{enumerate as en, Check, Stats, Tier};

const R_MAX: usize = 6;
const TOKEN_MSG: &str = "token limit reached";
const REC_MSG: &str = "recursion limit reached";

fn fail(st: &mut Stats, sig: &str, case: &Value, detail: String) {
    let size = case["input"].as_str().map(|s| s.len()).unwrap_or(0) as u64;
    st.fail_simple(sig, case.clone(), detail, size);
}

/// Observation of one limited parse of a document.
struct Obs {
    token_limit_errors: usize,
    recursion_limit_errors: usize,
    errors: usize,
    /// index of the first limit error (of either kind) in `errors()`
    first_limit: Option<usize>,
    text: String,
    leaves: usize,
    token_high: usize,
    recursion_high: usize,
}

fn observe<T: CstNode>(tree: &apollo_parser::SyntaxTree<T>, root: &apollo_parser::SyntaxNode) -> Obs {
    let mut o = Obs {
        token_limit_errors: 0,
        recursion_limit_errors: 0,
        errors: 0,
        first_limit: None,
        text: root.to_string(),
        leaves: parsing::leaf_count(root),
        token_high: tree.token_limit().high,
        recursion_high: tree.recursion_limit().high,
    };
    for (i, e) in tree.errors().enumerate() {
        o.errors += 1;
        if e.is_limit() {
            if o.first_limit.is_none() {
                o.first_limit = Some(i);
            }
            if e.message().contains(TOKEN_MSG) {
                o.token_limit_errors += 1;
            } else if e.message().contains(REC_MSG) {
                o.recursion_limit_errors += 1;
            }
        }
    }
    o
}

fn parse_doc(s: &str, n: Option<usize>, r: Option<usize>) -> Result<Obs, String> {
    vcore::catch(|| {
        let mut p = Parser::new(s);
        if let Some(n) = n {
            p = p.token_limit(n);
        }
        if let Some(r) = r {
            p = p.recursion_limit(r);
        }
        let tree = p.parse();
        let doc = tree.document();
        observe(&tree, doc.syntax())
    })
}

/// Number of items (tokens incl. ignored ones and EOF, and error fragments) of the unlimited lexer.
fn unlimited_items(s: &str) -> usize {
    Lexer::new(s).count()
}

/// Token part for one input: every limit 0..=K+1. `compiler`: also compare the compiler's figure.
fn token_part(space: &str, s: &str, compiler: bool, st: &mut Stats) {
    st.states += 1;
    let k = match vcore::catch(|| unlimited_items(s)) {
        Ok(k) => k,
        Err(p) => {
            fail(st, "panic", &json!({"part": "token", "space": space, "input": s}), format!("lexer panicked: {p}"));
            return;
        }
    };
    st.transitions += 1;
    // K agrees with the reference lexer on lexically valid input (tokens + EOF)
    if let Some(toks) = lex::tokenize(s, lex::Params::default()) {
        if toks.len() + 1 != k {
            fail(
                st,
                "token/unlimited-count",
                &json!({"part": "token", "space": space, "input": s}),
                format!("the unlimited lexer yields {k} items, the reference lexer {} tokens + EOF", toks.len()),
            );
            return;
        }
    }
    let mut any_limited = false;
    for n in 0..=k + 1 {
        let case = json!({"part": "token", "space": space, "input": s, "token_limit": n, "compiler": compiler});
        st.transitions += 1;
        let o = match parse_doc(s, Some(n), None) {
            Ok(o) => o,
            Err(p) => {
                fail(st, "panic", &case, format!("Parser::parse panicked with token_limit {n}: {p}"));
                continue;
            }
        };
        let expect_limit = k > n;
        if (o.token_limit_errors > 0) != expect_limit {
            fail(
                st,
                "token/limit-error-iff",
                &case,
                format!("unlimited stream has {k} items, limit {n}: {} token-limit errors reported", o.token_limit_errors),
            );
        }
        if o.token_limit_errors > 1 {
            fail(st, "token/limit-error-twice", &case, format!("{} token-limit errors", o.token_limit_errors));
        }
        if !s.starts_with(&o.text) {
            fail(st, "token/text-not-prefix", &case, format!("tree text {:?} is not a prefix of the input", vcore::short(&o.text)));
        }
        if o.leaves > n {
            fail(st, "token/consumed-more-than-n", &case, format!("{} leaf tokens in the tree with limit {n}", o.leaves));
        }
        if let Some(i) = o.first_limit {
            if o.errors != i + 1 {
                fail(
                    st,
                    "token/error-after-limit-error",
                    &case,
                    format!("{} errors follow the first limit error (index {i} of {})", o.errors - i - 1, o.errors),
                );
            }
        }
        let want_high = k.min(n + 1);
        if o.token_high != want_high {
            fail(st, "token/high-water", &case, format!("token_limit().high = {}, expected min(K={k}, n+1={}) ", o.token_high, n + 1));
        }
        if !expect_limit && o.text != s {
            fail(st, "token/unlimited-text", &case, "limit not reached but the tree text is not the whole input".into());
        }
        if compiler {
            st.transitions += 1;
            let mut cp = CParser::new().token_limit(n);
            match vcore::catch(|| {
                let _ = cp.parse_ast(s, "c04.graphql");
                (cp.tokens_reached(), cp.recursion_reached())
            }) {
                Ok((t, r)) => {
                    if t != o.token_high || r != o.recursion_high {
                        fail(
                            st,
                            "compiler/reached-differs",
                            &case,
                            format!("compiler tokens_reached={t} recursion_reached={r}, apollo-parser high-water marks {} / {}", o.token_high, o.recursion_high),
                        );
                    }
                }
                Err(p) => fail(st, "panic", &case, format!("compiler parse_ast panicked: {p}")),
            }
        }
        any_limited |= expect_limit;
    }
    if any_limited {
        st.nontrivial += 1;
    }
    st.outcome(&format!("token part: {space}, K {}", if k <= 3 { k.to_string() } else if k <= 8 { "4..8".into() } else { ">8".into() }));
}

/// Recursion part for one valid document with reference depth `d`.
fn recursion_part(label: &str, s: &str, d: usize, r: Option<usize>, compiler: bool, st: &mut Stats) {
    let case = json!({"part": "recursion", "context": label, "input": s, "depth": d, "recursion_limit": r, "compiler": compiler});
    st.transitions += 1;
    let o = match parse_doc(s, None, r) {
        Ok(o) => o,
        Err(p) => {
            fail(st, "panic", &case, format!("Parser::parse panicked: {p}"));
            return;
        }
    };
    let limit = r.unwrap_or(500);
    let expect = d > limit;
    if (o.recursion_limit_errors > 0) != expect {
        fail(
            st,
            "recursion/limit-error-iff",
            &case,
            format!("reference depth {d}, limit {limit}: {} recursion-limit errors reported", o.recursion_limit_errors),
        );
    }
    let want_high = d.min(limit + 1);
    if o.recursion_high != want_high {
        fail(st, "recursion/high-water", &case, format!("recursion_limit().high = {}, expected min(depth={d}, r+1={})", o.recursion_high, limit + 1));
    }
    if !expect && o.errors != 0 {
        fail(st, "recursion/valid-document-has-errors", &case, format!("{} errors although depth {d} ≤ limit {limit}", o.errors));
    }
    if o.text != s {
        fail(st, "recursion/text", &case, "tree text differs from the input (no token limit)".into());
    }
    if expect && o.errors > o.first_limit.map(|i| i + 1).unwrap_or(0) {
        // informational only: the statement says nothing about errors after a recursion-limit error
        st.count("info: errors after a recursion-limit error", 1);
    }
    if compiler {
        for which in ["parse_ast", "parse_schema"] {
            st.transitions += 1;
            let mut cp = CParser::new();
            if let Some(r) = r {
                cp = cp.recursion_limit(r);
            }
            match vcore::catch(|| {
                if which == "parse_ast" {
                    let _ = cp.parse_ast(s, "c04.graphql");
                } else {
                    let _ = cp.parse_schema(s, "c04.graphql");
                }
                (cp.tokens_reached(), cp.recursion_reached())
            }) {
                Ok((t, rr)) => {
                    if rr != o.recursion_high || t != o.token_high || rr != want_high {
                        fail(
                            st,
                            "compiler/reached-differs",
                            &case,
                            format!("{which}: tokens_reached={t} recursion_reached={rr}; apollo-parser {} / {}; reference depth figure {want_high}", o.token_high, o.recursion_high),
                        );
                    }
                }
                Err(p) => fail(st, "panic", &case, format!("compiler {which} panicked: {p}")),
            }
        }
    }
    st.outcome(&format!(
        "recursion part: document, limit {}: {}",
        r.map(|r| r.to_string()).unwrap_or("default".into()),
        if expect { "depth > r, limit error" } else { "depth ≤ r, no error" }
    ));
}

/// Standalone entry points: a type (`depth` = number of `[`), a field set (braced or not).
fn standalone_part(kind: &str, s: &str, d: usize, r: usize, st: &mut Stats) {
    let case = json!({"part": "standalone", "kind": kind, "input": s, "depth": d, "recursion_limit": r});
    st.transitions += 2;
    let res = vcore::catch(|| {
        if kind == "type" {
            let t = Parser::new(s).recursion_limit(r).parse_type();
            let root = t.ty().syntax().clone();
            observe(&t, &root)
        } else {
            let t = Parser::new(s).recursion_limit(r).parse_selection_set();
            let root = t.field_set().syntax().clone();
            observe(&t, &root)
        }
    });
    let o = match res {
        Ok(o) => o,
        Err(p) => {
            fail(st, "panic", &case, format!("standalone {kind} entry point panicked: {p}"));
            return;
        }
    };
    let expect = d > r;
    if (o.recursion_limit_errors > 0) != expect {
        fail(st, "recursion/limit-error-iff", &case, format!("standalone {kind}: reference depth {d}, limit {r}: {} recursion-limit errors", o.recursion_limit_errors));
    }
    if o.recursion_high != d.min(r + 1) {
        fail(st, "recursion/high-water", &case, format!("standalone {kind}: high = {}, expected min({d}, {})", o.recursion_high, r + 1));
    }
    if !expect && o.errors != 0 {
        fail(st, "recursion/valid-document-has-errors", &case, format!("standalone {kind}: {} errors although depth {d} ≤ limit {r}", o.errors));
    }
    // compiler: parse_type / parse_field_set report the same figures
    let mut cp = CParser::new().recursion_limit(r);
    let got = vcore::catch(|| {
        if kind == "type" {
            let _ = cp.parse_type(s, "c04.graphql");
        } else {
            let _ = cp.parse_field_set(fixture_schema(), apollo_compiler::name!("Query"), s, "c04.graphql");
        }
        (cp.tokens_reached(), cp.recursion_reached())
    });
    match got {
        Ok((t, rr)) => {
            if t != o.token_high || rr != o.recursion_high {
                fail(st, "compiler/reached-differs", &case, format!("standalone {kind}: compiler {t}/{rr}, apollo-parser {}/{}", o.token_high, o.recursion_high));
            }
        }
        Err(p) => fail(st, "panic", &case, format!("compiler standalone {kind} panicked: {p}")),
    }
    st.outcome(&format!("recursion part: standalone {kind}: {}", if expect { "depth > r, limit error" } else { "depth ≤ r, no error" }));
}

fn fixture_schema() -> &'static apollo_compiler::validation::Valid<apollo_compiler::Schema> {
    static S: std::sync::OnceLock<apollo_compiler::validation::Valid<apollo_compiler::Schema>> = std::sync::OnceLock::new();
    S.get_or_init(|| {
        apollo_compiler::Schema::parse_and_validate("type Query { a: Query b(x: Int): Query }\ntype T { a: Query }", "s.graphql")
            .unwrap_or_else(|e| vcore::machinery_error(&format!("fixture schema invalid: {}", e.errors)))
    })
}

/// Joint part: both limits set. Sound statements only: the token figures are independent of r;
/// a recursion-limit error implies depth > r (a truncated document is at most as deep).
fn joint_part(label: &str, s: &str, d: usize, r: usize, st: &mut Stats) {
    let k = unlimited_items(s);
    for n in 0..=k + 1 {
        let case = json!({"part": "joint", "context": label, "input": s, "depth": d, "recursion_limit": r, "token_limit": n});
        st.transitions += 1;
        let o = match parse_doc(s, Some(n), Some(r)) {
            Ok(o) => o,
            Err(p) => {
                fail(st, "panic", &case, format!("Parser::parse panicked: {p}"));
                continue;
            }
        };
        if (o.token_limit_errors > 0) != (k > n) {
            fail(st, "token/limit-error-iff", &case, format!("K={k}, n={n}, r={r}: {} token-limit errors", o.token_limit_errors));
        }
        if o.token_high != k.min(n + 1) {
            fail(st, "token/high-water", &case, format!("token high {} expected {}", o.token_high, k.min(n + 1)));
        }
        if !s.starts_with(&o.text) {
            fail(st, "token/text-not-prefix", &case, "tree text is not a prefix of the input".into());
        }
        if o.leaves > n {
            fail(st, "token/consumed-more-than-n", &case, format!("{} leaves with limit {n}", o.leaves));
        }
        if o.recursion_limit_errors > 0 && d <= r {
            fail(st, "recursion/limit-error-iff", &case, format!("recursion-limit error although the whole document has depth {d} ≤ {r}"));
        }
        if o.recursion_high > d.min(r + 1) {
            fail(st, "recursion/high-water", &case, format!("recursion high {} exceeds min(depth {d}, r+1)", o.recursion_high));
        }
        if n >= k {
            // nothing cut off: the recursion verdict must be the exact one
            if (o.recursion_limit_errors > 0) != (d > r) || o.recursion_high != d.min(r + 1) {
                fail(st, "recursion/limit-error-iff", &case, format!("n ≥ K: depth {d}, r {r}, {} recursion-limit errors, high {}", o.recursion_limit_errors, o.recursion_high));
            }
        }
    }
    st.outcome("joint part: document × r × every n");
}


// ---------------------------------------------------------------------------------------------
// history part (E-HIST): ONE `apollo_compiler::parser::Parser` value, sequences of parses
// ---------------------------------------------------------------------------------------------

const H_DOCS: [&str; 6] = [
    "{ a }",
    "{ a { a { a { a } } } }",
    "query Q($v: [[Int]] = [[1]]) { b(x: {y: [1, [2, {z: 3}]]}) }",
    "scalar S",
    "",
    "{ a { a",
];
const H_ENTRIES: [&str; 4] = ["parse_ast", "parse_schema", "parse_executable", "parse_mixed_validate"];
const H_FIELD_SETS: [&str; 2] = ["a", "a { a { a } }"];
const H_TYPES: [&str; 2] = ["Int", "[[[Int]]]"];

/// (entry point, text)
fn history_menu() -> Vec<(&'static str, &'static str)> {
    let mut m = Vec::new();
    for d in H_DOCS {
        for e in H_ENTRIES {
            m.push((e, d));
        }
    }
    for f in H_FIELD_SETS {
        m.push(("parse_field_set", f));
    }
    for t in H_TYPES {
        m.push(("parse_type", t));
    }
    m
}

/// The parser's own high-water marks for one menu item under recursion limit `r`.
fn direct_marks(entry: &str, text: &str, r: Option<usize>) -> (usize, usize) {
    let mut p = Parser::new(text);
    if let Some(r) = r {
        p = p.recursion_limit(r);
    }
    match entry {
        "parse_field_set" => {
            let t = p.parse_selection_set();
            (t.token_limit().high, t.recursion_limit().high)
        }
        "parse_type" => {
            let t = p.parse_type();
            (t.token_limit().high, t.recursion_limit().high)
        }
        _ => {
            let t = p.parse();
            (t.token_limit().high, t.recursion_limit().high)
        }
    }
}

/// One history: the same compiler `Parser` parses menu items `seq` in order; after every call
/// `tokens_reached()` / `recursion_reached()` must be the marks of that (the last) call.
fn history_part(seq: &[usize], r: Option<usize>, st: &mut Stats) {
    let menu = history_menu();
    let case = json!({"part": "history", "sequence": seq, "recursion_limit": r,
                      "input": seq.iter().map(|&i| format!("{}({:?})", menu[i].0, menu[i].1)).collect::<Vec<_>>().join("; ")});
    st.states += 1;
    let got = vcore::catch(|| {
        let mut cp = CParser::new();
        if let Some(r) = r {
            cp = cp.recursion_limit(r);
        }
        let mut seen = Vec::new();
        for &i in seq {
            let (entry, text) = menu[i];
            match entry {
                "parse_ast" => drop(cp.parse_ast(text, "h.graphql")),
                "parse_schema" => drop(cp.parse_schema(text, "h.graphql")),
                "parse_executable" => drop(cp.parse_executable(fixture_schema(), text, "h.graphql")),
                "parse_mixed_validate" => drop(cp.parse_mixed_validate(text, "h.graphql")),
                "parse_field_set" => drop(cp.parse_field_set(fixture_schema(), apollo_compiler::name!("Query"), text, "h.graphql")),
                _ => drop(cp.parse_type(text, "h.graphql")),
            }
            seen.push((cp.tokens_reached(), cp.recursion_reached()));
        }
        seen
    });
    st.transitions += seq.len() as u64;
    match got {
        Err(p) => fail(st, "panic", &case, format!("history panicked: {p}")),
        Ok(seen) => {
            let mut differs = false;
            for (k, &i) in seq.iter().enumerate() {
                let want = direct_marks(menu[i].0, menu[i].1, r);
                if seen[k] != want {
                    fail(
                        st,
                        "compiler/reached-after-history",
                        &case,
                        format!(
                            "after call {k} ({} on {:?}) tokens_reached/recursion_reached = {}/{}, the parser's marks for that call are {}/{}",
                            menu[i].0, menu[i].1, seen[k].0, seen[k].1, want.0, want.1
                        ),
                    );
                    differs = true;
                    break;
                }
            }
            let marks: Vec<_> = seq.iter().map(|&i| direct_marks(menu[i].0, menu[i].1, r)).collect();
            let shape = if marks.windows(2).any(|w| w[1].0 < w[0].0 || w[1].1 < w[0].1) { "later call has a lower mark" } else { "marks non-decreasing" };
            if seq.len() > 1 && shape.starts_with("later") {
                st.nontrivial += 1;
            }
            st.outcome(&format!("history part: {} calls, {shape}: {}", seq.len(), if differs { "DIFFERS" } else { "figures are those of the last call" }));
        }
    }
}

fn run_case(case: &Value, st: &mut Stats) {
    let s = case["input"].as_str().unwrap_or("");
    let d = case["depth"].as_u64().unwrap_or(0) as usize;
    match case["part"].as_str() {
        Some("token") => token_part("replay", s, case["compiler"].as_bool().unwrap_or(true), st),
        Some("recursion") => recursion_part(
            "replay",
            s,
            d,
            case["recursion_limit"].as_u64().map(|r| r as usize),
            case["compiler"].as_bool().unwrap_or(true),
            st,
        ),
        Some("standalone") => standalone_part(
            case["kind"].as_str().unwrap_or("type"),
            s,
            d,
            case["recursion_limit"].as_u64().unwrap_or(0) as usize,
            st,
        ),
        Some("history") => {
            let seq: Vec<usize> = case["sequence"].as_array().map(|a| a.iter().filter_map(|x| x.as_u64().map(|x| x as usize)).collect()).unwrap_or_default();
            history_part(&seq, case["recursion_limit"].as_u64().map(|r| r as usize), st)
        }
        Some("joint") => joint_part("replay", s, d, case["recursion_limit"].as_u64().unwrap_or(0) as usize, st),
        _ => vcore::machinery_error("replay case without a part"),
    }
}

fn selections_text(sel: &[ast::Selection], braces: bool) -> String {
    let mut o = String::new();
    ast::print_selection_set(sel, &mut o);
    if braces {
        o
    } else {
        // strip the outer "{ " … " }"
        o[1..o.len() - 1].trim().to_string()
    }
}

fn main() {
    let mut chk = Check::new("C04");
    vcore::quiet_panics();
    if let Some(case) = chk.replay_case() {
        let mut st = Stats::default();
        run_case(&case, &mut st);
        chk.absorb(st);
        chk.finish_replay();
    }
    let tier = chk.tier();
    let mut bounds = serde_json::Map::new();

    // ---- nesting family (valid documents with reference depth)
    let (vd, sd, td, mix) = tier.pick((3, 4, 4, 2), (4, 5, 5, 2));
    let family: Vec<(String, String, usize)> = nest::family(vd, sd, td, mix)
        .into_iter()
        .map(|(l, d)| (l, d.print(), depth::of(&d)))
        .collect();
    let max_depth = family.iter().map(|f| f.2).max().unwrap_or(0);

    // ---- token part
    let max_len = tier.pick(4, 5);
    let k = SIGMA_LEX.len() as u64;
    let total = en::count_upto(k, max_len);
    let comp_below = en::count_upto(k, max_len - 1); // compiler figure on the inputs one symbol shorter
    let stats = vcore::par_sweep(total, 8192, |i, st| {
        let mut seq = Vec::new();
        let mut s = String::new();
        en::nth_upto(k, i, &mut seq);
        en::render(SIGMA_LEX, &seq, &mut s);
        if i % (total / 3 + 1) == total / 7 {
            st.sample(json!({"part": "token", "space": "strings", "input": s}));
        }
        token_part("strings", &s, i < comp_below, st);
    });
    println!("token part: strings ≤ {max_len}: {total} inputs");
    chk.absorb(stats);
    bounds.insert("token_part_strings".into(), json!({"alphabet": SIGMA_LEX, "max_len": max_len, "inputs": total, "limits": "every n in 0..=K+1"}));

    let max_len = tier.pick(3, 4);
    let k = T.len() as u64;
    let total = en::count_upto(k, max_len);
    let comp_below = en::count_upto(k, max_len - 1);
    let stats = vcore::par_sweep(total, 4096, |i, st| {
        let mut seq = Vec::new();
        let mut s = String::new();
        en::nth_upto(k, i, &mut seq);
        en::render_sep(T, &seq, " ", &mut s);
        if i % (total / 3 + 1) == total / 7 {
            st.sample(json!({"part": "token", "space": "token-sequences", "input": s}));
        }
        token_part("token-sequences", &s, i < comp_below, st);
    });
    println!("token part: token sequences ≤ {max_len}: {total} inputs");
    chk.absorb(stats);
    bounds.insert("token_part_token_sequences".into(), json!({"alphabet": T, "max_len": max_len, "inputs": total, "limits": "every n in 0..=K+1"}));

    let mut valid_docs: Vec<String> = parsing::PRODUCTION_DOCS.iter().map(|d| d.to_string()).collect();
    valid_docs.extend(family.iter().map(|f| f.1.clone()));
    valid_docs.sort();
    valid_docs.dedup();
    let stats = vcore::par_items(&valid_docs, |d, st| token_part("valid-documents", d, true, st));
    println!("token part: valid documents: {}", valid_docs.len());
    chk.absorb(stats);
    bounds.insert("token_part_valid_documents".into(), json!({"documents": valid_docs.len(), "limits": "every n in 0..=K+1"}));

    // ---- recursion part
    let limits: Vec<Option<usize>> = (0..=R_MAX).map(Some).chain([None]).collect();
    let stats = vcore::par_items(&family, |(label, text, d), st| {
        st.states += 1;
        if *d > 0 {
            st.nontrivial += 1;
        }
        for r in &limits {
            recursion_part(label, text, *d, *r, true, st);
        }
    });
    println!("recursion part: {} documents, depth 0..={max_depth}, limits 0..={R_MAX} and default", family.len());
    chk.absorb(stats);

    // standalone types and field sets
    let mut standalone: Vec<(&str, String, usize)> = Vec::new();
    for t in nest::types(td) {
        standalone.push(("type", t.to_string(), depth::of_type(&t)));
    }
    for s in nest::selections(sd) {
        standalone.push(("field-set", selections_text(&s, true), depth::of_field_set(&s)));
        standalone.push(("field-set", selections_text(&s, false), depth::of_field_set(&s)));
    }
    for v in nest::values(vd.min(3)) {
        let f: Vec<ast::Selection> = vec![ast::Field::new("b").arg("x", v).into()];
        standalone.push(("field-set", selections_text(&f, false), depth::of_field_set(&f)));
    }
    let stats = vcore::par_items(&standalone, |(kind, text, d), st| {
        st.states += 1;
        for r in 0..=R_MAX {
            standalone_part(kind, text, *d, r, st);
        }
    });
    println!("recursion part: {} standalone types / field sets", standalone.len());
    chk.absorb(stats);

    // ---- joint part: a slice of the family (every 7th document, all contexts reached) × r × n
    let step = tier.pick(7, 2);
    let joint: Vec<&(String, String, usize)> = family.iter().step_by(step).collect();
    let stats = vcore::par_items(&joint, |(label, text, d), st| {
        st.states += 1;
        for r in 0..=R_MAX.min(4) {
            joint_part(label, text, *d, r, st);
        }
    });
    println!("joint part: {} documents × r 0..=4 × every n", joint.len());
    chk.absorb(stats);

    // ---- history part: one compiler Parser value, every sequence of <= 2|3 menu calls
    let hk = history_menu().len() as u64;
    let hlen = tier.pick(3, 4);
    let htotal = en::count_upto(hk, hlen);
    let stats = vcore::par_sweep(htotal, 256, |i, st| {
        let mut seq = Vec::new();
        en::nth_upto(hk, i, &mut seq);
        if seq.is_empty() {
            return;
        }
        for r in [None, Some(2)] {
            history_part(&seq, r, st);
        }
    });
    println!("history part: {htotal} call sequences of length <= {hlen} over {hk} (entry point, text) items x 2 recursion limits");
    chk.absorb(stats);
    bounds.insert("history_part".into(), json!({"menu_items": hk, "max_calls": hlen, "sequences": htotal, "recursion_limits": ["default", 2],
        "entry_points": ["parse_ast", "parse_schema", "parse_executable", "parse_mixed_validate", "parse_field_set", "parse_type"]}));

    let mut depth_hist = std::collections::BTreeMap::new();
    for f in &family {
        *depth_hist.entry(f.2.to_string()).or_insert(0u64) += 1;
    }
    bounds.insert(
        "recursion_part".into(),
        json!({"family": {"value_depth": vd, "selection_depth": sd, "type_depth": td, "mix": mix},
               "documents": family.len(), "documents_by_reference_depth": depth_hist,
               "limits": "every r in 0..=6, and the default (500)",
               "standalone_inputs": standalone.len(), "joint_documents": joint.len(), "joint_limits": "r in 0..=4 × every n in 0..=K+1"}),
    );
    chk.bounds = Value::Object(bounds);
    chk.rule = "token part: every input × every token limit 0..=K+1 (one state per input); recursion part: every family document × \
                every recursion limit (one state per document); non-trivial = inputs for which at least one explored limit is below \
                the unlimited item count, resp. documents of reference depth ≥ 1; history part: one state per call sequence on one Parser value, \
                non-trivial = a later call has a lower mark than an earlier one"
        .into();
    chk.assumptions = vec![
        "what counts as a level follows DESIGN A.7 (one per `{` of a selection set, per list *item*, per object field *value*, per `[` of a type; the brace-less field set costs 1): `[]` and `{}` have depth 0".into(),
        "K ('the unlimited token stream') is the number of items (tokens incl. ignored ones and EOF, and error fragments) the implementation's own unlimited lexer yields; cross-checked against the reference lexer on lexically valid inputs".into(),
        "'no error after the first limit error' is demanded for the token limit only (with the recursion limit at its default); errors after a recursion-limit error are counted, not judged".into(),
        "in the joint part only statements that are sound for truncated documents are demanded".into(),
    ];
    let _ = Tier::Quick;
    chk.finish(&|case| {
        let mut st = Stats::default();
        run_case(case, &mut st);
        !st.failures.is_empty()
    })
}
