//! C09 — string values and descriptions survive serialization (DESIGN.md §6 C09).
//! E-INPUT: every string over Σtxt up to a length bound, plus the 69/70/71-byte boundary
//! family, is placed programmatically (nodes constructed directly, nothing is parsed on the
//! way in) at ten sites of a schema / executable document and serialized under five
//! configurations. Oracle: the serialized text parses and the string read back at the same
//! site equals the original `String`.

use apollo_compiler::ast::{self, Serialize};
use apollo_compiler::schema::{
    Component, EnumType, ExtendedType, InputObjectType, ObjectType,
};
use apollo_compiler::{Name, Node, Schema};
use serde_json::{json, Value};
use vcore::{enumerate as en, Check, Stats};

const SIGMA_TXT: &[&str] = &[
    "a", "\"", "\\", " ", "\t", "\n", "\r", "\u{0}", "\u{8}", "\u{7f}", "é", "\u{2028}", "'", "/",
    // white space for Unicode / ASCII classifications, ordinary characters for GraphQL
    "\u{c}", "\u{85}",
    // a control character whose \uXXXX escape differs between hexadecimal and decimal digits
    "\u{1f}",
];

#[derive(Clone, Copy, PartialEq, Eq, Debug)]
enum Site {
    SchemaDescription,
    TypeDescription,
    FieldDescription,
    ArgumentDescription,
    EnumValueDescription,
    DirectiveArgumentOnType,
    InputFieldDefault,
    NestedInListAndObject,
    ExecutableArgument,
    VariableDefault,
}
use Site::*;

const SITES: [Site; 10] = [
    SchemaDescription,
    TypeDescription,
    FieldDescription,
    ArgumentDescription,
    EnumValueDescription,
    DirectiveArgumentOnType,
    InputFieldDefault,
    NestedInListAndObject,
    ExecutableArgument,
    VariableDefault,
];

impl Site {
    fn label(self) -> &'static str {
        match self {
            SchemaDescription => "schema-description",
            TypeDescription => "type-description",
            FieldDescription => "field-description",
            ArgumentDescription => "argument-description",
            EnumValueDescription => "enum-value-description",
            DirectiveArgumentOnType => "directive-argument-on-type",
            InputFieldDefault => "input-field-default",
            NestedInListAndObject => "nested-in-list-and-object",
            ExecutableArgument => "executable-argument",
            VariableDefault => "variable-default",
        }
    }
    fn is_description(self) -> bool {
        matches!(
            self,
            SchemaDescription | TypeDescription | FieldDescription | ArgumentDescription | EnumValueDescription
        )
    }
    fn from_label(l: &str) -> Option<Site> {
        SITES.into_iter().find(|s| s.label() == l)
    }
}

#[derive(Clone, Copy, PartialEq, Eq, Debug)]
enum Cfg {
    Default,
    NoIndent,
    TabPrefix,
    EmptyPrefix,
    Level2,
}

const CFGS: [Cfg; 5] = [Cfg::Default, Cfg::NoIndent, Cfg::TabPrefix, Cfg::EmptyPrefix, Cfg::Level2];

impl Cfg {
    fn label(self) -> &'static str {
        match self {
            Cfg::Default => "default",
            Cfg::NoIndent => "no_indent",
            Cfg::TabPrefix => "indent_prefix(\"\\t\")",
            Cfg::EmptyPrefix => "indent_prefix(\"\")",
            Cfg::Level2 => "initial_indent_level(2)",
        }
    }
    fn from_label(l: &str) -> Option<Cfg> {
        CFGS.into_iter().find(|c| c.label() == l)
    }
    fn render<'a, T>(self, s: Serialize<'a, T>) -> String
    where
        Serialize<'a, T>: std::fmt::Display,
    {
        match self {
            Cfg::Default => s.to_string(),
            Cfg::NoIndent => s.no_indent().to_string(),
            Cfg::TabPrefix => s.indent_prefix("\t").to_string(),
            Cfg::EmptyPrefix => s.indent_prefix("").to_string(),
            Cfg::Level2 => s.initial_indent_level(2).to_string(),
        }
    }
}

// ---------------------------------------------------------------------------------------------
// programmatic construction
// ---------------------------------------------------------------------------------------------

fn nm(s: &'static str) -> Name {
    Name::new_static(s).expect("harness name")
}
fn desc(s: &str) -> Option<Node<str>> {
    Some(Node::new_str(s))
}
fn sval(s: &str) -> Node<ast::Value> {
    Node::new(ast::Value::String(s.to_string()))
}
fn named(n: &'static str) -> ast::Type {
    ast::Type::Named(nm(n))
}

fn field_def(description: Option<Node<str>>, arguments: Vec<Node<ast::InputValueDefinition>>) -> ast::FieldDefinition {
    ast::FieldDefinition {
        description,
        name: nm("f"),
        arguments,
        ty: named("Int"),
        directives: Default::default(),
    }
}

fn input_value(
    name: &'static str,
    ty: ast::Type,
    description: Option<Node<str>>,
    default_value: Option<Node<ast::Value>>,
) -> ast::InputValueDefinition {
    ast::InputValueDefinition {
        description,
        name: nm(name),
        ty: Node::new(ty),
        default_value,
        directives: Default::default(),
    }
}

fn query_type(
    description: Option<Node<str>>,
    directives: apollo_compiler::schema::DirectiveList,
    field: ast::FieldDefinition,
) -> ExtendedType {
    let mut fields = apollo_compiler::collections::IndexMap::default();
    fields.insert(nm("f"), Component::new(field));
    ExtendedType::Object(Node::new(ObjectType {
        description,
        name: nm("Query"),
        implements_interfaces: Default::default(),
        directives,
        fields,
    }))
}

/// A schema with `s` at `site` (sites 1..8), built without parsing anything.
fn build_schema(site: Site, s: &str) -> Schema {
    let mut schema = Schema::new();
    let mut query = query_type(None, Default::default(), field_def(None, vec![]));
    match site {
        SchemaDescription => {
            let def = schema.schema_definition.make_mut();
            def.description = desc(s);
            def.query = Some(nm("Query").into());
        }
        TypeDescription => query = query_type(desc(s), Default::default(), field_def(None, vec![])),
        FieldDescription => query = query_type(None, Default::default(), field_def(desc(s), vec![])),
        ArgumentDescription => {
            let arg = input_value("a", named("Int"), desc(s), None);
            query = query_type(None, Default::default(), field_def(None, vec![Node::new(arg)]));
        }
        EnumValueDescription => {
            let mut values = apollo_compiler::collections::IndexMap::default();
            values.insert(
                nm("V"),
                Component::new(ast::EnumValueDefinition {
                    description: desc(s),
                    value: nm("V"),
                    directives: Default::default(),
                }),
            );
            schema.types.insert(
                nm("E"),
                ExtendedType::Enum(Node::new(EnumType {
                    description: None,
                    name: nm("E"),
                    directives: Default::default(),
                    values,
                })),
            );
        }
        DirectiveArgumentOnType => {
            let directive = ast::Directive {
                name: nm("d"),
                arguments: vec![Node::new(ast::Argument { name: nm("s"), value: sval(s) })],
            };
            let list = apollo_compiler::schema::DirectiveList(vec![Component::new(directive)]);
            query = query_type(None, list, field_def(None, vec![]));
        }
        InputFieldDefault => {
            let mut fields = apollo_compiler::collections::IndexMap::default();
            fields.insert(nm("f"), Component::new(input_value("f", named("String"), None, Some(sval(s)))));
            schema.types.insert(
                nm("I"),
                ExtendedType::InputObject(Node::new(InputObjectType {
                    description: None,
                    name: nm("I"),
                    directives: Default::default(),
                    fields,
                })),
            );
        }
        NestedInListAndObject => {
            let object = ast::Value::Object(vec![(nm("a"), sval(s))]);
            let list = ast::Value::List(vec![Node::new(object)]);
            let arg = input_value("x", ast::Type::List(Box::new(named("I"))), None, Some(Node::new(list)));
            query = query_type(None, Default::default(), field_def(None, vec![Node::new(arg)]));
        }
        ExecutableArgument | VariableDefault => unreachable!(),
    }
    schema.types.insert(nm("Query"), query);
    schema
}

fn build_executable(site: Site, s: &str) -> ast::Document {
    let mut field = ast::Field {
        alias: None,
        name: nm("f"),
        arguments: vec![],
        directives: Default::default(),
        selection_set: vec![],
    };
    let mut variables = vec![];
    match site {
        ExecutableArgument => field.arguments.push(Node::new(ast::Argument { name: nm("a"), value: sval(s) })),
        VariableDefault => variables.push(Node::new(ast::VariableDefinition {
            name: nm("v"),
            ty: Node::new(named("String")),
            default_value: Some(sval(s)),
            directives: Default::default(),
        })),
        _ => unreachable!(),
    }
    let op = ast::OperationDefinition {
        operation_type: ast::OperationType::Query,
        name: Some(nm("q")),
        variables,
        directives: Default::default(),
        selection_set: vec![ast::Selection::Field(Node::new(field))],
    };
    let mut doc = ast::Document::new();
    doc.definitions.push(ast::Definition::OperationDefinition(Node::new(op)));
    doc
}

// ---------------------------------------------------------------------------------------------
// reading back
// ---------------------------------------------------------------------------------------------

/// The messages of a diagnostic list on one line (without the source excerpts).
fn flat(errors: &apollo_compiler::validation::DiagnosticList) -> String {
    let text = errors.to_string();
    let lines: Vec<&str> = text.lines().filter(|l| l.starts_with("Error")).collect();
    lines.join("; ")
}

fn str_of(v: &ast::Value) -> Option<String> {
    match v {
        ast::Value::String(s) => Some(s.clone()),
        _ => None,
    }
}
fn d(o: &Option<Node<str>>) -> Option<String> {
    o.as_ref().map(|n| n.as_str().to_string())
}

fn read_schema(site: Site, schema: &Schema) -> Option<String> {
    let query = || schema.get_object("Query");
    match site {
        SchemaDescription => d(&schema.schema_definition.description),
        TypeDescription => d(&query()?.description),
        FieldDescription => d(&query()?.fields.get("f")?.description),
        ArgumentDescription => d(&query()?.fields.get("f")?.arguments.first()?.description),
        EnumValueDescription => d(&schema.get_enum("E")?.values.get("V")?.description),
        DirectiveArgumentOnType => str_of(&query()?.directives.0.first()?.arguments.first()?.value),
        InputFieldDefault => str_of(schema.get_input_object("I")?.fields.get("f")?.default_value.as_ref()?),
        NestedInListAndObject => {
            let dv = query()?.fields.get("f")?.arguments.first()?.default_value.as_ref()?;
            let ast::Value::List(items) = &**dv else { return None };
            let ast::Value::Object(fields) = &**items.first()? else { return None };
            str_of(&fields.first()?.1)
        }
        ExecutableArgument | VariableDefault => None,
    }
}

fn read_executable(site: Site, doc: &ast::Document) -> Option<String> {
    let ast::Definition::OperationDefinition(op) = doc.definitions.first()? else {
        return None;
    };
    match site {
        ExecutableArgument => {
            let ast::Selection::Field(f) = op.selection_set.first()? else { return None };
            str_of(&f.arguments.first()?.value)
        }
        VariableDefault => str_of(op.variables.first()?.default_value.as_ref()?),
        _ => None,
    }
}

/// Serialize the string at the site under the configuration, parse, read back.
/// `Ok((serialized text, what was read back))` or `Err((serialized text, why it did not parse))`.
fn round_trip(site: Site, cfg: Cfg, s: &str) -> Result<(String, Option<String>), (String, String)> {
    match site {
        ExecutableArgument | VariableDefault => {
            let doc = build_executable(site, s);
            let text = cfg.render(doc.serialize());
            match ast::Document::parse(text.clone(), "c09.graphql") {
                Ok(back) => Ok((text, read_executable(site, &back))),
                Err(e) => Err((text, flat(&e.errors))),
            }
        }
        _ => {
            let schema = build_schema(site, s);
            let text = cfg.render(schema.serialize());
            match Schema::parse(text.clone(), "c09.graphql") {
                Ok(back) => Ok((text, read_schema(site, &back))),
                Err(e) => Err((text, flat(&e.errors))),
            }
        }
    }
}

fn form_of(text: &str) -> &'static str {
    if let Some(i) = text.find("\"\"\"") {
        if text[i + 3..].starts_with('\n') {
            "block-multi-line"
        } else {
            "block-single-line"
        }
    } else if text.contains('\\') {
        "quoted-with-escapes"
    } else {
        "quoted-plain"
    }
}

fn needs_care(s: &str) -> bool {
    s.chars().any(|c| c == '"' || c == '\\' || (c as u32) < 0x20 || c == '\u{7f}' || c == '\u{2028}')
        || s.starts_with(' ')
        || s.ends_with(' ')
        || s.len() > 69
}

fn check_one(site: Site, cfg: Cfg, s: &str, st: &mut Stats) {
    st.states += 1;
    st.transitions += 2; // serialize + parse
    let case = json!({"site": site.label(), "config": cfg.label(), "string": s});
    let size = s.len() as u64;
    match vcore::catch(|| round_trip(site, cfg, s)) {
        Err(p) => st.fail_simple(
            &format!("panic:{}", site.label()),
            case,
            format!("{s:?} at {} under {}: {p}", site.label(), cfg.label()),
            size,
        ),
        Ok(Err((text, why))) => st.fail_simple(
            &format!("serialized-text-does-not-parse:{}", site.label()),
            case,
            format!("{s:?} at {} under {} serializes to {:?} which does not parse: {}", site.label(), cfg.label(), vcore::short(&text), vcore::short(&why)),
            size,
        ),
        Ok(Ok((text, got))) => {
            if got.as_deref() != Some(s) {
                st.fail_simple(
                    &format!("string-changed:{}", site.label()),
                    case,
                    format!("{s:?} at {} under {} serializes to {:?} and reads back as {got:?}", site.label(), cfg.label(), vcore::short(&text)),
                    size,
                );
                return;
            }
            if needs_care(s) {
                st.nontrivial += 1;
            }
            st.outcome(&format!(
                "{}:{}",
                if site.is_description() { "description" } else { "value" },
                form_of(&text)
            ));
        }
    }
}

/// Strings of exactly 69 / 70 / 71 (and 68, 72) bytes: the `str.len() > 70` switch of the block
/// string printer, with every Σtxt symbol (or nothing) at either end, ASCII and 2-byte fillers.
fn boundary_family() -> Vec<String> {
    let mut ends: Vec<&str> = vec![""];
    ends.extend_from_slice(SIGMA_TXT);
    let mut v = Vec::new();
    for target in [68usize, 69, 70, 71, 72] {
        for filler in ["a", "é", "a \"\"\" "] {
            for p in &ends {
                for q in &ends {
                    let mut s = String::from(*p);
                    while s.len() + filler.len() + q.len() <= target {
                        s.push_str(filler);
                    }
                    while s.len() + q.len() < target {
                        s.push('a');
                    }
                    s.push_str(q);
                    if s.len() == target {
                        v.push(s);
                    }
                }
            }
        }
        // a newline in the middle (multi-line anyway) and an interior blank / indented line
        for mid in ["\n", "\n\n", "\n ", "\n\t\n"] {
            let half = (target - mid.len()) / 2;
            let s = format!("{}{}{}", "a".repeat(half), mid, "b".repeat(target - mid.len() - half));
            v.push(s);
        }
    }
    v.sort();
    v.dedup();
    v
}

fn main() {
    let mut chk = Check::new("C09");
    vcore::quiet_panics();
    if let Some(case) = chk.replay_case() {
        let mut st = Stats::default();
        let (Some(site), Some(cfg)) = (
            case["site"].as_str().and_then(Site::from_label),
            case["config"].as_str().and_then(Cfg::from_label),
        ) else {
            vcore::machinery_error("replay case names an unknown site or config");
        };
        check_one(site, cfg, case["string"].as_str().unwrap_or(""), &mut st);
        chk.absorb(st);
        chk.finish_replay();
    }
    let thorough = chk.tier() == vcore::Tier::Thorough;
    let k = SIGMA_TXT.len() as u64;
    // all sites x all configs
    let max_all = chk.tier().pick(4u32, 5u32);
    let total_all = en::count_upto(k, max_all);
    let stats = vcore::par_sweep(total_all, 256, |i, st| {
        let mut seq = Vec::new();
        let mut s = String::new();
        en::nth_upto(k, i, &mut seq);
        en::render(SIGMA_TXT, &seq, &mut s);
        if i % (total_all / 3 + 1) == total_all / 7 {
            st.sample(json!({"string": s, "sites": "all", "configs": "all"}));
        }
        for site in SITES {
            for cfg in CFGS {
                check_one(site, cfg, &s, st);
            }
        }
    });
    println!("all sites x all configs: strings up to {max_all} symbols, {total_all} strings x 10 x 5");
    chk.absorb(stats);
    let mut bounds = json!({
        "alphabet": SIGMA_TXT,
        "sites": SITES.iter().map(|s| s.label()).collect::<Vec<_>>(),
        "configs": CFGS.iter().map(|c| c.label()).collect::<Vec<_>>(),
        "all_sites_all_configs": {"max_len": max_all, "strings": total_all},
    });
    if thorough {
        // one symbol longer for the description sites under the default configuration
        let exact = max_all + 1;
        let n = en::count_exact(k, exact);
        let stats = vcore::par_sweep(n, 1024, |i, st| {
            let mut seq = Vec::new();
            let mut s = String::new();
            en::nth_exact(k, exact, i, &mut seq);
            en::render(SIGMA_TXT, &seq, &mut s);
            for site in SITES.into_iter().filter(|s| s.is_description()) {
                check_one(site, Cfg::Default, &s, st);
            }
        });
        println!("description sites x default config: strings of exactly {exact} symbols, {n} strings x 5");
        chk.absorb(stats);
        bounds["description_sites_default_config"] = json!({"len": exact, "strings": n});
    }
    // paragraph family: 2..=4 lines, each one of a small menu (indented with spaces / a tab, blank,
    // white space only), joined by LF: the block-string eligibility and indentation rules work on
    // whole lines, which strings of <= 4 symbols barely form
    const LINES: [&str; 7] = ["a", " a", "  a", "\ta", "", " ", "a "];
    let mut paragraphs: Vec<String> = Vec::new();
    for n in 2..=4u32 {
        let total = en::count_exact(LINES.len() as u64, n);
        for i in 0..total {
            let mut seq = Vec::new();
            en::nth_exact(LINES.len() as u64, n, i, &mut seq);
            paragraphs.push(seq.iter().map(|&x| LINES[x]).collect::<Vec<_>>().join("\n"));
        }
    }
    let stats = vcore::par_sweep(paragraphs.len() as u64, 16, |i, st| {
        let s = &paragraphs[i as usize];
        for site in SITES {
            for cfg in CFGS {
                check_one(site, cfg, s, st);
            }
        }
    });
    println!("paragraph family: {} strings of 2..=4 lines x 10 x 5", paragraphs.len());
    chk.absorb(stats);
    bounds["paragraph_family"] = json!({"lines": LINES, "line_counts": [2, 3, 4], "strings": paragraphs.len()});
    let family = boundary_family();
    let stats = vcore::par_sweep(family.len() as u64, 16, |i, st| {
        let s = &family[i as usize];
        if i % 997 == 3 {
            st.sample(json!({"string": s, "bytes": s.len(), "family": "boundary"}));
        }
        for site in SITES {
            for cfg in CFGS {
                check_one(site, cfg, s, st);
            }
        }
    });
    println!("boundary family: {} strings of 68..72 bytes x 10 x 5", family.len());
    chk.absorb(stats);
    bounds["boundary_family"] = json!({"strings": family.len(), "byte_lengths": [68, 69, 70, 71, 72]});

    chk.bounds = bounds;
    chk.rule = "every string over the alphabet up to max_len at each of the 10 sites under each of the 5 configurations \
                (thorough: one symbol more for the 5 description sites under the default configuration), plus the boundary family; \
                one state = one (string, site, configuration); non-trivial = the string contains a quote, backslash, control \
                character, DEL, U+2028, leading/trailing space, or is longer than 69 bytes"
        .into();
    chk.assumptions = vec![
        "the string is compared after Schema::parse / ast::Document::parse of the serialized text, i.e. through apollo's own string decoding (whose agreement with the spec is C06's subject)".into(),
        "schema sites are serialized from a programmatically filled `Schema` (Schema::serialize), executable sites from a programmatically built `ast::Document`".into(),
        "indent prefixes are whitespace-only (\"  \", \"\\t\", \"\"): a non-whitespace prefix is outside what the serializer documents".into(),
    ];
    chk.finish(&|case| {
        let mut st = Stats::default();
        if let (Some(site), Some(cfg)) = (
            case["site"].as_str().and_then(Site::from_label),
            case["config"].as_str().and_then(Cfg::from_label),
        ) {
            check_one(site, cfg, case["string"].as_str().unwrap_or(""), &mut st);
        }
        !st.failures.is_empty()
    })
}
