//! C23 — schema coordinates parse, print and resolve correctly (DESIGN.md §6 C23).
//! E-INPUT, three parts:
//!   strings   every string over Σcoord (and every token sequence over a coarser alphabet with
//!             multi-character names, whitespace and non-ASCII) through `SchemaCoordinate::from_str`
//!             and the five per-kind `from_str`, against the hand matcher `refmodel::coord`;
//!   values    every coordinate value over a small name pool: print∘parse identities;
//!   lookups   every coordinate over a universe of present and absent names against valid
//!             schemas: `Ok` ⇔ the harness finds the element by those names (own linear scan of
//!             the public schema maps, cross-checked against the schema's own mini-AST), and
//!             the returned element is exactly that element.

use apollo_compiler::coordinate::{
    DirectiveArgumentCoordinate, DirectiveCoordinate, FieldArgumentCoordinate, SchemaCoordinate,
    SchemaCoordinateLookup, TypeAttributeCoordinate, TypeAttributeLookup, TypeCoordinate,
};
use apollo_compiler::schema::{
    Component, DirectiveDefinition, EnumValueDefinition, ExtendedType, FieldDefinition,
    InputValueDefinition,
};
use apollo_compiler::validation::Valid;
use apollo_compiler::{Name, Node, Schema};
use refmodel::ast as m;
use refmodel::coord::{self, Coord, Form, FORMS};
use serde_json::{json, Value};
use std::str::FromStr;
use vcore::{enumerate as en, Check, Stats};

const SIGMA_COORD: &[&str] = &["a", "B", "_", "1", ".", "(", ")", ":", "@"];
/// uniquely decodable: no token is a concatenation of others
const SIGMA_TOK: &[&str] = &["a", "B_", "_9", "1", ".", "(", ")", ":", "@", " ", "é", "-"];
const VALUE_NAMES: &[&str] = &["a", "B_", "a1", "_", "__x"];

type Fail = (&'static str, String);

fn view(c: &SchemaCoordinate) -> Coord<'_> {
    match c {
        SchemaCoordinate::Type(c) => Coord::Type(c.ty.as_str()),
        SchemaCoordinate::TypeAttribute(c) => Coord::TypeAttribute(c.ty.as_str(), c.attribute.as_str()),
        SchemaCoordinate::FieldArgument(c) => {
            Coord::FieldArgument(c.ty.as_str(), c.field.as_str(), c.argument.as_str())
        }
        SchemaCoordinate::Directive(c) => Coord::Directive(c.directive.as_str()),
        SchemaCoordinate::DirectiveArgument(c) => {
            Coord::DirectiveArgument(c.directive.as_str(), c.argument.as_str())
        }
    }
}

/// One per-kind `from_str`, converted to the general coordinate so that it can be compared.
fn per_kind(form: Form, s: &str) -> Option<SchemaCoordinate> {
    match form {
        Form::Type => TypeCoordinate::from_str(s).ok().map(Into::into),
        Form::TypeAttribute => TypeAttributeCoordinate::from_str(s).ok().map(Into::into),
        Form::FieldArgument => FieldArgumentCoordinate::from_str(s).ok().map(Into::into),
        Form::Directive => DirectiveCoordinate::from_str(s).ok().map(Into::into),
        Form::DirectiveArgument => DirectiveArgumentCoordinate::from_str(s).ok().map(Into::into),
    }
}

/// Display of the per-kind type (not of the `SchemaCoordinate` wrapper).
fn per_kind_display(c: &SchemaCoordinate) -> String {
    match c {
        SchemaCoordinate::Type(c) => c.to_string(),
        SchemaCoordinate::TypeAttribute(c) => c.to_string(),
        SchemaCoordinate::FieldArgument(c) => c.to_string(),
        SchemaCoordinate::Directive(c) => c.to_string(),
        SchemaCoordinate::DirectiveArgument(c) => c.to_string(),
    }
}

// ---------------------------------------------------------------------------------------------
// Part 1: strings
// ---------------------------------------------------------------------------------------------

fn eval_string(s: &str) -> Result<&'static str, Fail> {
    let expected = coord::parse(s);
    let got = SchemaCoordinate::from_str(s);
    match (&expected, &got) {
        (None, Ok(c)) => {
            return Err(("accepts-invalid", format!("{s:?} is not a schema coordinate but parsed as {c:?}")))
        }
        (Some(e), Err(err)) => {
            return Err(("rejects-valid", format!("{s:?} is the coordinate {e:?} but was rejected: {err}")))
        }
        (Some(e), Ok(c)) => {
            if view(c) != *e {
                return Err(("wrong-variant-or-names", format!("{s:?}: expected {e:?}, got {c:?}")));
            }
            let printed = c.to_string();
            if printed != s {
                return Err(("display-differs", format!("{s:?} parsed to {c:?} which prints as {printed:?}")));
            }
            match SchemaCoordinate::from_str(&printed) {
                Ok(again) if again == *c => {}
                other => {
                    return Err(("reparse-differs", format!("{c:?} printed as {printed:?} re-parses to {other:?}")))
                }
            }
        }
        (None, Err(_)) => {}
    }
    for form in FORMS {
        let want = expected.filter(|e| e.form() == form);
        let have = per_kind(form, s);
        match (&want, &have) {
            (None, Some(c)) => {
                return Err((
                    "per-kind-accepts-invalid",
                    format!("{s:?} is not a {} coordinate but its from_str returned {c:?}", form.label()),
                ))
            }
            (Some(e), None) => {
                return Err((
                    "per-kind-rejects-valid",
                    format!("{s:?} is the {} coordinate {e:?} but its from_str rejected it", form.label()),
                ))
            }
            (Some(e), Some(c)) => {
                if view(c) != *e {
                    return Err((
                        "per-kind-wrong-names",
                        format!("{s:?} via the {} from_str: expected {e:?}, got {c:?}", form.label()),
                    ));
                }
                let printed = per_kind_display(c);
                if printed != s {
                    return Err((
                        "per-kind-display-differs",
                        format!("{s:?} via the {} from_str prints as {printed:?}", form.label()),
                    ));
                }
            }
            (None, None) => {}
        }
    }
    Ok(match expected {
        None => "string:rejected",
        Some(Coord::Type(_)) => "string:type",
        Some(Coord::TypeAttribute(..)) => "string:type-attribute",
        Some(Coord::FieldArgument(..)) => "string:field-argument",
        Some(Coord::Directive(_)) => "string:directive",
        Some(Coord::DirectiveArgument(..)) => "string:directive-argument",
    })
}

fn check_string(s: &str, st: &mut Stats) {
    st.states += 1;
    st.transitions += 6;
    let case = || json!({"part": "string", "input": s});
    match vcore::catch(|| eval_string(s)) {
        Err(p) => st.fail_simple("panic-from-str", case(), format!("from_str({s:?}) panicked: {p}"), s.len() as u64),
        Ok(Err((sig, detail))) => st.fail_simple(sig, case(), detail, s.len() as u64),
        Ok(Ok(label)) => {
            if label != "string:rejected" {
                st.nontrivial += 1;
                st.transitions += 1; // the re-parse of the printed form
            }
            st.outcome(label);
        }
    }
}

// ---------------------------------------------------------------------------------------------
// Part 2: coordinate values
// ---------------------------------------------------------------------------------------------

fn nm(s: &str) -> Name {
    Name::new(s).unwrap_or_else(|_| vcore::machinery_error(&format!("harness name {s:?} is not a Name")))
}

/// Build the apollo coordinate by struct literal (no parsing involved).
fn build(c: &Coord<'_>) -> SchemaCoordinate {
    match *c {
        Coord::Type(a) => TypeCoordinate { ty: nm(a) }.into(),
        Coord::TypeAttribute(a, b) => TypeAttributeCoordinate { ty: nm(a), attribute: nm(b) }.into(),
        Coord::FieldArgument(a, b, c) => {
            FieldArgumentCoordinate { ty: nm(a), field: nm(b), argument: nm(c) }.into()
        }
        Coord::Directive(a) => DirectiveCoordinate { directive: nm(a) }.into(),
        Coord::DirectiveArgument(a, b) => {
            DirectiveArgumentCoordinate { directive: nm(a), argument: nm(b) }.into()
        }
    }
}

/// All coordinates over a name pool, in a fixed order.
fn coords_over<'a>(names: &[&'a str]) -> Vec<Coord<'a>> {
    let mut v = Vec::new();
    for a in names {
        v.push(Coord::Type(a));
    }
    for a in names {
        v.push(Coord::Directive(a));
    }
    for a in names {
        for b in names {
            v.push(Coord::TypeAttribute(a, b));
            v.push(Coord::DirectiveArgument(a, b));
        }
    }
    for a in names {
        for b in names {
            for c in names {
                v.push(Coord::FieldArgument(a, b, c));
            }
        }
    }
    v
}

fn eval_value(c: &Coord<'_>) -> Result<(), Fail> {
    let real = build(c);
    let text = c.print();
    let printed = real.to_string();
    if printed != text {
        return Err(("value-display", format!("{real:?} prints as {printed:?}, expected {text:?}")));
    }
    if per_kind_display(&real) != text {
        return Err(("value-display", format!("{real:?}: the per-kind Display differs from {text:?}")));
    }
    match SchemaCoordinate::from_str(&printed) {
        Ok(back) if back == real => {}
        other => return Err(("value-reparse", format!("{real:?} printed as {printed:?} parses back to {other:?}"))),
    }
    match per_kind(c.form(), &printed) {
        Some(back) if back == real => {}
        other => {
            return Err((
                "value-reparse",
                format!("{real:?} printed as {printed:?}: the per-kind from_str gives {other:?}"),
            ))
        }
    }
    Ok(())
}

fn check_value(c: &Coord<'_>, st: &mut Stats) {
    st.states += 1;
    st.transitions += 4;
    let text = c.print();
    let case = json!({"part": "value", "coordinate": text});
    match vcore::catch(|| eval_value(c)) {
        Err(p) => st.fail_simple("panic-value", case, format!("{text}: {p}"), text.len() as u64),
        Ok(Err((sig, d))) => st.fail_simple(sig, case, d, text.len() as u64),
        Ok(Ok(())) => {
            st.nontrivial += 1;
            st.outcome(&format!("value:{}:round-trip", c.form().label()));
        }
    }
}

// ---------------------------------------------------------------------------------------------
// Part 3: lookups
// ---------------------------------------------------------------------------------------------

fn fld(name: &str, ty: &str, args: &[(&str, &str)]) -> m::FieldDef {
    let mut f = m::FieldDef::new(name, m::Ty::parse(ty));
    for (a, t) in args {
        f.args.push(m::InputValueDef::new(a, m::Ty::parse(t)));
    }
    f
}
fn typ(kind: m::TypeKind, name: &str, f: impl FnOnce(&mut m::TypeDef)) -> m::Definition {
    let mut t = m::TypeDef::new(kind, name);
    f(&mut t);
    m::Definition::Type(t)
}
fn ext(kind: m::TypeKind, name: &str, f: impl FnOnce(&mut m::TypeDef)) -> m::Definition {
    let mut t = m::TypeDef::new(kind, name);
    t.extend = true;
    f(&mut t);
    m::Definition::Type(t)
}
fn evals(names: &[&str]) -> Vec<m::EnumValueDef> {
    names
        .iter()
        .map(|n| m::EnumValueDef { description: None, name: n.to_string(), directives: vec![] })
        .collect()
}
fn ivs(fields: &[(&str, &str)]) -> Vec<m::InputValueDef> {
    fields.iter().map(|(n, t)| m::InputValueDef::new(n, m::Ty::parse(t))).collect()
}
fn dir(name: &str, args: &[(&str, &str)], locations: &[&str]) -> m::Definition {
    m::Definition::Directive(m::DirectiveDef {
        description: None,
        name: name.to_string(),
        args: ivs(args),
        repeatable: false,
        locations: locations.iter().map(|s| s.to_string()).collect(),
    })
}

/// The valid schemas the lookups run against, as harness data (mini-AST).
fn lookup_schemas() -> Vec<(&'static str, m::Document)> {
    use m::TypeKind::*;
    // every kind of type, the same member names at several places (so that returning the
    // element of the wrong owner is visible), arguments that exist on one field only
    let full = m::Document {
        defs: vec![
            m::Definition::Schema(m::SchemaDef {
                extend: false,
                description: None,
                directives: vec![],
                roots: vec![(m::OpKind::Query, "Q".into())],
            }),
            dir("d", &[("a", "Int"), ("b", "String")], &["FIELD_DEFINITION", "OBJECT"]),
            dir("e", &[], &["ENUM_VALUE"]),
            dir("a", &[("d", "Int")], &["FIELD"]),
            typ(Scalar, "S", |_| {}),
            typ(Interface, "I", |t| {
                t.fields = vec![fld("a", "Int", &[("x", "Int"), ("y", "S")]), fld("b", "String", &[])];
            }),
            typ(Interface, "J", |t| {
                t.implements = vec!["I".into()];
                t.fields = vec![
                    fld("a", "Int", &[("x", "Int"), ("y", "S")]),
                    fld("b", "String", &[]),
                    fld("c", "Int", &[]),
                ];
            }),
            typ(Object, "Q", |t| {
                t.implements = vec!["I".into()];
                t.fields = vec![
                    fld("a", "Int", &[("x", "Int"), ("y", "S")]),
                    fld("b", "String", &[]),
                    fld("q", "U", &[("a", "In"), ("b", "E")]),
                ];
            }),
            typ(Object, "T", |t| {
                t.implements = vec!["I".into(), "J".into()];
                t.fields = vec![
                    fld("a", "Int", &[("x", "Int"), ("y", "S"), ("z", "Int")]),
                    fld("b", "String", &[("a", "Int")]),
                    fld("c", "Int", &[]),
                ];
            }),
            typ(Union, "U", |t| t.members = vec!["Q".into(), "T".into()]),
            typ(Enum, "E", |t| t.values = evals(&["A", "B", "a"])),
            typ(Input, "In", |t| t.input_fields = ivs(&[("a", "Int"), ("b", "[In]"), ("x", "E")])),
        ],
    };
    // explicit schema definition with non-default root names, members contributed by extensions
    let extended = m::Document {
        defs: vec![
            m::Definition::Schema(m::SchemaDef {
                extend: false,
                description: None,
                directives: vec![],
                roots: vec![(m::OpKind::Query, "T".into()), (m::OpKind::Mutation, "Q".into())],
            }),
            typ(Object, "T", |t| t.fields = vec![fld("a", "Int", &[("x", "Int")])]),
            ext(Object, "T", |t| t.fields = vec![fld("b", "E", &[("y", "In")])]),
            typ(Object, "Q", |t| t.fields = vec![fld("x", "Int", &[("a", "Int")])]),
            typ(Enum, "E", |t| t.values = evals(&["A"])),
            ext(Enum, "E", |t| t.values = evals(&["b"])),
            typ(Input, "In", |t| t.input_fields = ivs(&[("a", "Int")])),
            ext(Input, "In", |t| t.input_fields = ivs(&[("y", "String")])),
            typ(Interface, "I", |t| t.fields = vec![fld("c", "Int", &[])]),
            ext(Interface, "I", |t| t.fields = vec![fld("a", "Int", &[("z", "Int")])]),
            dir("d", &[("x", "Int")], &["FIELD"]),
        ],
    };
    let minimal = m::Document {
        defs: vec![typ(Object, "Query", |t| t.fields = vec![fld("a", "Int", &[])])],
    };
    vec![("full", full), ("extended", extended), ("minimal", minimal)]
}

/// Present and absent names: everything the schemas define, the built-in types / directives /
/// members the compiler adds, meta-fields, and names that exist nowhere.
const UNIVERSE: &[&str] = &[
    "Q", "T", "I", "J", "U", "E", "In", "S", "Query", "a", "b", "c", "q", "x", "y", "z", "A", "B", "d",
    "e", "Int", "String", "Boolean", "__Type", "__Schema", "__TypeKind", "__InputValue", "fields",
    "includeDeprecated", "name", "SCALAR", "skip", "include", "if", "deprecated", "reason",
    "specifiedBy", "url", "__typename", "__schema", "Zz", "nope",
];

const BUILT_IN_TYPES: &[&str] = &[
    "Int", "Float", "String", "Boolean", "ID", "__Schema", "__Type", "__TypeKind", "__Field",
    "__InputValue", "__EnumValue", "__Directive", "__DirectiveLocation",
];
const BUILT_IN_DIRECTIVES: &[&str] = &["skip", "include", "deprecated", "specifiedBy"];

#[derive(Debug, Clone, Copy, PartialEq, Eq)]
enum Kind {
    Type,
    Directive,
    Field,
    InputField,
    EnumValue,
    Argument,
}

/// What the harness's own scan of the public schema maps finds.
#[derive(Debug, Clone, Copy)]
enum Found<'s> {
    Type(&'s ExtendedType),
    Directive(&'s Node<DirectiveDefinition>),
    Field(&'s Component<FieldDefinition>),
    InputField(&'s Component<InputValueDefinition>),
    EnumValue(&'s Component<EnumValueDefinition>),
    Argument(&'s Node<InputValueDefinition>),
}

impl Found<'_> {
    fn kind(&self) -> Kind {
        match self {
            Found::Type(_) => Kind::Type,
            Found::Directive(_) => Kind::Directive,
            Found::Field(_) => Kind::Field,
            Found::InputField(_) => Kind::InputField,
            Found::EnumValue(_) => Kind::EnumValue,
            Found::Argument(_) => Kind::Argument,
        }
    }
    /// the element's own name
    fn own_name(&self) -> &str {
        match self {
            Found::Type(t) => t.name().as_str(),
            Found::Directive(d) => d.name.as_str(),
            Found::Field(f) => f.name.as_str(),
            Found::InputField(f) => f.name.as_str(),
            Found::EnumValue(v) => v.value.as_str(),
            Found::Argument(a) => a.name.as_str(),
        }
    }
}

fn scan_type<'s>(schema: &'s Schema, n: &str) -> Option<&'s ExtendedType> {
    schema.types.iter().find(|(k, _)| k.as_str() == n).map(|(_, v)| v)
}
fn scan_attr<'s>(ty: &'s ExtendedType, n: &str) -> Option<Found<'s>> {
    match ty {
        ExtendedType::Object(o) => o.fields.iter().find(|(k, _)| k.as_str() == n).map(|(_, f)| Found::Field(f)),
        ExtendedType::Interface(o) => {
            o.fields.iter().find(|(k, _)| k.as_str() == n).map(|(_, f)| Found::Field(f))
        }
        ExtendedType::InputObject(o) => {
            o.fields.iter().find(|(k, _)| k.as_str() == n).map(|(_, f)| Found::InputField(f))
        }
        ExtendedType::Enum(o) => o.values.iter().find(|(k, _)| k.as_str() == n).map(|(_, f)| Found::EnumValue(f)),
        ExtendedType::Scalar(_) | ExtendedType::Union(_) => None,
    }
}
fn scan_directive<'s>(schema: &'s Schema, n: &str) -> Option<&'s Node<DirectiveDefinition>> {
    schema.directive_definitions.iter().find(|(k, _)| k.as_str() == n).map(|(_, v)| v)
}
fn scan_arg<'s>(args: &'s [Node<InputValueDefinition>], n: &str) -> Option<Found<'s>> {
    args.iter().find(|a| a.name.as_str() == n).map(Found::Argument)
}

/// Oracle B: the element with exactly these names, by linear scan of the public maps.
fn scan<'s>(schema: &'s Schema, c: &Coord<'_>) -> Option<Found<'s>> {
    match *c {
        Coord::Type(a) => scan_type(schema, a).map(Found::Type),
        Coord::TypeAttribute(a, b) => scan_attr(scan_type(schema, a)?, b),
        Coord::FieldArgument(a, b, c) => match scan_attr(scan_type(schema, a)?, b)? {
            Found::Field(f) => scan_arg(&f.arguments, c),
            _ => None,
        },
        Coord::Directive(a) => scan_directive(schema, a).map(Found::Directive),
        Coord::DirectiveArgument(a, b) => scan_arg(&scan_directive(schema, a)?.arguments, b),
    }
}

/// Oracle A: what the schema's own source (mini-AST: definitions plus extensions) defines.
/// `None` = the outermost name is not defined by the source (built-in or absent).
fn source_lookup(doc: &m::Document, c: &Coord<'_>) -> Option<Option<Kind>> {
    let names = c.names();
    if matches!(c.form(), Form::Directive | Form::DirectiveArgument) {
        let d = doc.defs.iter().find_map(|d| match d {
            m::Definition::Directive(d) if d.name == names[0] => Some(d),
            _ => None,
        })?;
        return Some(match names.get(1) {
            None => Some(Kind::Directive),
            Some(a) => d.args.iter().any(|x| x.name == *a).then_some(Kind::Argument),
        });
    }
    let parts: Vec<&m::TypeDef> = doc.types().filter(|t| t.name == names[0]).collect();
    if parts.is_empty() {
        return None;
    }
    let Some(attr) = names.get(1) else {
        return Some(Some(Kind::Type));
    };
    for t in &parts {
        if let Some(f) = t.fields.iter().find(|f| f.name == *attr) {
            return Some(match names.get(2) {
                None => Some(Kind::Field),
                Some(a) => f.args.iter().any(|x| x.name == *a).then_some(Kind::Argument),
            });
        }
        if t.input_fields.iter().any(|f| f.name == *attr) {
            return Some(if names.len() == 2 { Some(Kind::InputField) } else { None });
        }
        if t.values.iter().any(|f| f.name == *attr) {
            return Some(if names.len() == 2 { Some(Kind::EnumValue) } else { None });
        }
    }
    Some(None)
}

fn same<T: ?Sized>(a: &T, b: &T) -> bool {
    std::ptr::eq(a, b)
}

fn lookup_matches(got: &SchemaCoordinateLookup<'_>, want: &Found<'_>) -> bool {
    match (got, want) {
        (SchemaCoordinateLookup::Type(a), Found::Type(b)) => same(*a, *b),
        (SchemaCoordinateLookup::Directive(a), Found::Directive(b)) => same(*a, *b),
        (SchemaCoordinateLookup::Field(a), Found::Field(b)) => same(*a, *b),
        (SchemaCoordinateLookup::InputField(a), Found::InputField(b)) => same(*a, *b),
        (SchemaCoordinateLookup::EnumValue(a), Found::EnumValue(b)) => same(*a, *b),
        (SchemaCoordinateLookup::Argument(a), Found::Argument(b)) => same(*a, *b),
        _ => false,
    }
}

fn describe(f: &Option<Found<'_>>) -> String {
    match f {
        None => "nothing".into(),
        Some(f) => format!("{:?} {:?}", f.kind(), f.own_name()),
    }
}

/// `Ok(found?)`, with the number of lookup calls made added to `calls`.
fn eval_lookup(
    schema: &Valid<Schema>,
    doc: &m::Document,
    c: &Coord<'_>,
    calls: &mut u64,
) -> Result<Option<Kind>, Fail> {
    let schema: &Schema = schema;
    let want = scan(schema, c);
    // the two harness oracles must agree wherever the source has an opinion
    let outer = c.names()[0];
    match source_lookup(doc, c) {
        Some(src) => {
            if src != want.map(|f| f.kind()) {
                return Err((
                    "maps-vs-source",
                    format!("{}: the schema source defines {src:?}, the schema maps hold {}", c.print(), describe(&want)),
                ));
            }
        }
        None => {
            let built_in = if matches!(c.form(), Form::Directive | Form::DirectiveArgument) {
                BUILT_IN_DIRECTIVES.contains(&outer)
            } else {
                BUILT_IN_TYPES.contains(&outer)
            };
            if !built_in && want.is_some() {
                return Err((
                    "maps-vs-source",
                    format!("{}: neither defined by the source nor built in, yet the maps hold {}", c.print(), describe(&want)),
                ));
            }
        }
    }
    if let Some(f) = &want {
        if f.own_name() != *c.names().last().unwrap() {
            return Err(("maps-key-vs-name", format!("{}: map key and element name differ ({})", c.print(), f.own_name())));
        }
    }
    let real = build(c);
    *calls += 1;
    let got = real.lookup(schema);
    match (&got, &want) {
        (Ok(g), None) => {
            return Err(("lookup-finds-absent", format!("{} is not in the schema but lookup returned {g:?}", c.print())))
        }
        (Err(e), Some(f)) => {
            return Err((
                "lookup-misses-present",
                format!("{} names the {:?} {:?} but lookup failed: {e}", c.print(), f.kind(), f.own_name()),
            ))
        }
        (Ok(g), Some(f)) => {
            if !lookup_matches(g, f) {
                return Err((
                    "lookup-wrong-element",
                    format!("{}: lookup returned {g:?}, not the {:?} found under those names", c.print(), f.kind()),
                ));
            }
        }
        (Err(_), None) => {}
    }
    // the per-kind entry points
    let per_kind_ok = |ok: bool, matches: bool, what: &str| -> Result<(), Fail> {
        if ok != want.is_some() {
            return Err((
                if ok { "lookup-finds-absent" } else { "lookup-misses-present" },
                format!("{} via {what}: Ok={ok}, the harness finds {}", c.print(), describe(&want)),
            ));
        }
        if ok && !matches {
            return Err(("lookup-wrong-element", format!("{} via {what}: not the element under those names", c.print())));
        }
        Ok(())
    };
    match &real {
        SchemaCoordinate::Type(t) => {
            *calls += 1;
            let r = t.lookup(schema);
            per_kind_ok(r.is_ok(), matches!((&r, &want), (Ok(a), Some(Found::Type(b))) if same(*a, *b)), "TypeCoordinate::lookup")?;
        }
        SchemaCoordinate::Directive(d) => {
            *calls += 1;
            let r = d.lookup(schema);
            per_kind_ok(
                r.is_ok(),
                matches!((&r, &want), (Ok(a), Some(Found::Directive(b))) if same(*a, *b)),
                "DirectiveCoordinate::lookup",
            )?;
        }
        SchemaCoordinate::FieldArgument(a) => {
            *calls += 1;
            let r = a.lookup(schema);
            per_kind_ok(
                r.is_ok(),
                matches!((&r, &want), (Ok(a), Some(Found::Argument(b))) if same(*a, *b)),
                "FieldArgumentCoordinate::lookup",
            )?;
        }
        SchemaCoordinate::DirectiveArgument(a) => {
            *calls += 1;
            let r = a.lookup(schema);
            per_kind_ok(
                r.is_ok(),
                matches!((&r, &want), (Ok(a), Some(Found::Argument(b))) if same(*a, *b)),
                "DirectiveArgumentCoordinate::lookup",
            )?;
        }
        SchemaCoordinate::TypeAttribute(a) => {
            *calls += 4;
            let r = a.lookup(schema);
            let m = match (&r, &want) {
                (Ok(TypeAttributeLookup::Field(a)), Some(Found::Field(b))) => same(*a, *b),
                (Ok(TypeAttributeLookup::InputField(a)), Some(Found::InputField(b))) => same(*a, *b),
                (Ok(TypeAttributeLookup::EnumValue(a)), Some(Found::EnumValue(b))) => same(*a, *b),
                _ => false,
            };
            per_kind_ok(r.is_ok(), m, "TypeAttributeCoordinate::lookup")?;
            // the three typed variants succeed exactly for their own kind of attribute
            let kind = want.map(|f| f.kind());
            let rf = a.lookup_field(schema);
            let ri = a.lookup_input_field(schema);
            let re = a.lookup_enum_value(schema);
            let typed = [
                ("lookup_field", rf.is_ok(), Kind::Field, matches!((&rf, &want), (Ok(a), Some(Found::Field(b))) if same(*a, *b))),
                ("lookup_input_field", ri.is_ok(), Kind::InputField, matches!((&ri, &want), (Ok(a), Some(Found::InputField(b))) if same(*a, *b))),
                ("lookup_enum_value", re.is_ok(), Kind::EnumValue, matches!((&re, &want), (Ok(a), Some(Found::EnumValue(b))) if same(*a, *b))),
            ];
            for (what, ok, k, matches) in typed {
                let should = kind == Some(k);
                if ok != should {
                    return Err((
                        if ok { "lookup-finds-absent" } else { "lookup-misses-present" },
                        format!("{} via {what}: Ok={ok}, the harness finds {}", c.print(), describe(&want)),
                    ));
                }
                if ok && !matches {
                    return Err(("lookup-wrong-element", format!("{} via {what}: not the element under those names", c.print())));
                }
            }
        }
    }
    Ok(want.map(|f| f.kind()))
}

struct LookupSchema {
    label: &'static str,
    doc: m::Document,
    schema: Valid<Schema>,
}

fn check_lookup(ls: &LookupSchema, c: &Coord<'_>, st: &mut Stats) {
    st.states += 1;
    let text = c.print();
    let case = json!({"part": "lookup", "schema": ls.label, "coordinate": text});
    let mut calls = 0;
    let r = vcore::catch(|| eval_lookup(&ls.schema, &ls.doc, c, &mut calls));
    st.transitions += calls;
    match r {
        Err(p) => st.fail_simple("panic-lookup", case, format!("{text} in schema {}: {p}", ls.label), text.len() as u64),
        Ok(Err((sig, d))) => {
            st.fail_simple(sig, case, format!("schema {}: {d}", ls.label), text.len() as u64)
        }
        Ok(Ok(found)) => {
            if found.is_some() {
                st.nontrivial += 1;
            }
            let what = match found {
                None => "absent".to_string(),
                Some(k) => format!("found-{k:?}"),
            };
            st.outcome(&format!("lookup:{}:{what}", c.form().label()));
        }
    }
}

// ---------------------------------------------------------------------------------------------

fn replay(case: &Value, schemas: &[LookupSchema], st: &mut Stats) {
    match case["part"].as_str() {
        Some("string") => check_string(case["input"].as_str().unwrap_or(""), st),
        Some("value") | Some("lookup") => {
            let text = case["coordinate"].as_str().unwrap_or("").to_string();
            let Some(c) = coord::parse(&text) else {
                vcore::machinery_error(&format!("replay coordinate {text:?} is not a coordinate"));
            };
            if case["part"] == "value" {
                check_value(&c, st);
            } else {
                let Some(ls) = schemas.iter().find(|l| Some(l.label) == case["schema"].as_str()) else {
                    vcore::machinery_error("replay names an unknown schema");
                };
                check_lookup(ls, &c, st);
            }
        }
        _ => vcore::machinery_error("replay case has no known `part`"),
    }
}

fn main() {
    let mut chk = Check::new("C23");
    vcore::quiet_panics();

    let schemas: Vec<LookupSchema> = lookup_schemas()
        .into_iter()
        .map(|(label, doc)| {
            let text = doc.print();
            let schema = match Schema::parse_and_validate(&text, "schema.graphql") {
                Ok(s) => s,
                Err(e) => vcore::machinery_error(&format!("lookup schema {label} is not valid: {}", e.errors)),
            };
            LookupSchema { label, doc, schema }
        })
        .collect();

    if let Some(case) = chk.replay_case() {
        let mut st = Stats::default();
        replay(&case, &schemas, &mut st);
        chk.absorb(st);
        chk.finish_replay();
    }

    let mut bounds = serde_json::Map::new();
    // Part 1
    let spaces: [(&str, &'static [&'static str], u32, u32); 2] =
        [("chars", SIGMA_COORD, 7, 9), ("tokens", SIGMA_TOK, 6, 8)];
    for (name, alphabet, quick, thorough) in spaces {
        let max_len = chk.tier().pick(quick, thorough);
        let k = alphabet.len() as u64;
        let total = en::count_upto(k, max_len);
        let stats = vcore::par_sweep(total, 32768, |i, st| {
            let mut seq = Vec::new();
            let mut s = String::new();
            en::nth_upto(k, i, &mut seq);
            en::render(alphabet, &seq, &mut s);
            if i % (total / 3 + 1) == total / 5 {
                st.sample(json!({"part": "string", "space": name, "input": s}));
            }
            check_string(&s, st);
        });
        println!("strings/{name}: max_len {max_len}, {total} inputs");
        bounds.insert(
            format!("strings_{name}"),
            json!({"alphabet": alphabet, "max_len": max_len, "inputs": total}),
        );
        chk.absorb(stats);
    }
    // Part 2
    let values = coords_over(VALUE_NAMES);
    let stats = vcore::par_items(&values, |c, st| check_value(c, st));
    println!("values: {} coordinates over {VALUE_NAMES:?}", values.len());
    bounds.insert("values".into(), json!({"names": VALUE_NAMES, "coordinates": values.len()}));
    chk.absorb(stats);
    // Part 3
    let coords = coords_over(UNIVERSE);
    for ls in &schemas {
        let stats = vcore::par_sweep(coords.len() as u64, 2048, |i, st| {
            let c = &coords[i as usize];
            if i % 20011 == 7 {
                st.sample(json!({"part": "lookup", "schema": ls.label, "coordinate": c.print()}));
            }
            check_lookup(ls, c, st);
        });
        println!("lookups/{}: {} coordinates", ls.label, coords.len());
        chk.absorb(stats);
    }
    bounds.insert(
        "lookups".into(),
        json!({
            "universe": UNIVERSE,
            "coordinates_per_schema": coords.len(),
            "schemas": schemas.iter().map(|l| json!({"label": l.label, "sdl": l.doc.print()})).collect::<Vec<_>>(),
        }),
    );

    chk.bounds = Value::Object(bounds);
    chk.rule = "strings: every string over each alphabet up to max_len (length-then-lexicographic); values: all five \
                forms over the name pool; lookups: all five forms over the name universe per schema. \
                non-trivial = strings that are coordinates, all constructed values, lookups that find an element"
        .into();
    chk.assumptions = vec![
        "the five coordinate forms are those of the Schema Coordinates RFC as quoted in the property statement; refmodel::coord is unit-tested on the RFC examples".into(),
        "lookup oracle: a linear scan of the public maps Schema::types / directive_definitions / fields / values / arguments by string equality, cross-checked against the mini-AST the schema text was printed from; meta-fields (__typename, __schema, __type) are not members of those maps and count as absent".into(),
        "schemas for the lookups are three fixed valid schemas (all six type kinds, directives, extensions, built-ins), not an enumeration".into(),
    ];
    chk.exhaustive = true;
    let schemas_ref = &schemas;
    chk.finish(&|case| {
        let mut st = Stats::default();
        replay(case, schemas_ref, &mut st);
        !st.failures.is_empty()
    })
}
