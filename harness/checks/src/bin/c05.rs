//! C05 — syntax acceptance matches the GraphQL grammar (DESIGN.md §6 C05, Appendix A.2).
//! E-INPUT: (1) every token sequence over the alphabet T up to a length bound; (2) the
//! "every production once" documents and every token sequence within k single-token edits of
//! them. Oracle: the independent recogniser `refmodel::recognise` (October 2021 appendix-B
//! grammar over the reference lexer's tokens) against `apollo_parser::Parser` (error list empty,
//! list of top-level (kind, name)) and, on space (2), `apollo_compiler::ast::Document::parse`.

use apollo_parser::cst;
use checks::grammar::{self, BASE_DOCS, BOUNDARY_DOCS, T};
use checks::parsing::PRODUCTION_DOCS;
use refmodel::recognise::{self as rec, DefKind, Dev, Deviations, Verdict};
use serde_json::{json, Value};
use vcore::{enumerate as en, Check, Stats};

type Defs = Vec<(DefKind, Option<String>)>;

fn name_text(n: Option<cst::Name>) -> Option<String> {
    n.map(|n| n.text().to_string())
}

/// (kind, name) of the top-level definitions of apollo-parser's tree, in order.
fn apollo_definitions(doc: &cst::Document) -> Defs {
    use cst::Definition as D;
    doc.definitions()
        .map(|d| match d {
            D::OperationDefinition(x) => (DefKind::OperationDefinition, name_text(x.name())),
            D::FragmentDefinition(x) => (
                DefKind::FragmentDefinition,
                name_text(x.fragment_name().and_then(|f| f.name())),
            ),
            D::DirectiveDefinition(x) => (DefKind::DirectiveDefinition, name_text(x.name())),
            D::SchemaDefinition(_) => (DefKind::SchemaDefinition, None),
            D::ScalarTypeDefinition(x) => (DefKind::ScalarTypeDefinition, name_text(x.name())),
            D::ObjectTypeDefinition(x) => (DefKind::ObjectTypeDefinition, name_text(x.name())),
            D::InterfaceTypeDefinition(x) => {
                (DefKind::InterfaceTypeDefinition, name_text(x.name()))
            }
            D::UnionTypeDefinition(x) => (DefKind::UnionTypeDefinition, name_text(x.name())),
            D::EnumTypeDefinition(x) => (DefKind::EnumTypeDefinition, name_text(x.name())),
            D::InputObjectTypeDefinition(x) => {
                (DefKind::InputObjectTypeDefinition, name_text(x.name()))
            }
            D::SchemaExtension(_) => (DefKind::SchemaExtension, None),
            D::ScalarTypeExtension(x) => (DefKind::ScalarTypeExtension, name_text(x.name())),
            D::ObjectTypeExtension(x) => (DefKind::ObjectTypeExtension, name_text(x.name())),
            D::InterfaceTypeExtension(x) => {
                (DefKind::InterfaceTypeExtension, name_text(x.name()))
            }
            D::UnionTypeExtension(x) => (DefKind::UnionTypeExtension, name_text(x.name())),
            D::EnumTypeExtension(x) => (DefKind::EnumTypeExtension, name_text(x.name())),
            D::InputObjectTypeExtension(x) => {
                (DefKind::InputObjectTypeExtension, name_text(x.name()))
            }
        })
        .collect()
}

const LEADS: [&str; 14] = [
    "{", "query", "mutation", "subscription", "fragment", "extend", "schema", "scalar", "type",
    "interface", "union", "enum", "input", "directive",
];

/// Failure-class key: the token that selects the first definition (after an optional
/// description), so that disagreements at different grammar sites get separate witnesses.
fn lead(text: &str) -> &'static str {
    let mut it = text.split(' ').filter(|t| !t.is_empty());
    let mut first = it.next().unwrap_or("");
    if first.starts_with('"') {
        first = it.next().unwrap_or("");
    }
    LEADS.iter().find(|l| **l == first).copied().unwrap_or("other")
}

fn show_defs(d: &[(DefKind, Option<String>)]) -> String {
    let v: Vec<String> = d
        .iter()
        .map(|(k, n)| match n {
            Some(n) => format!("{}({n})", k.as_str()),
            None => k.as_str().to_string(),
        })
        .collect();
    format!("[{}]", v.join(", "))
}

fn owned_defs(a: &rec::Accepted<'_>) -> Defs {
    a.definitions
        .iter()
        .map(|(k, n)| (*k, n.map(str::to_string)))
        .collect()
}

fn show_verdict(v: &Verdict<'_>) -> String {
    match v {
        Verdict::Accept(a) => format!("accept {}", show_defs(&owned_defs(a))),
        Verdict::RejectLexical => "reject (lexical error)".to_string(),
        Verdict::RejectSyntax { at, .. } => {
            format!("reject (syntax error at significant token {at})")
        }
    }
}

/// Does apollo-parser's result (acceptance, definitions) equal the model's verdict?
fn agrees(v: &Verdict<'_>, impl_ok: bool, impl_defs: &Defs) -> bool {
    match v {
        Verdict::Accept(a) => impl_ok && owned_defs(a) == *impl_defs,
        _ => !impl_ok,
    }
}

/// Evaluate one input text. `open` = deviation switches of the findings listed as open.
fn check_text(space: &str, text: &str, with_compiler: bool, open: Deviations, st: &mut Stats) {
    st.states += 1;
    let case = || json!({"space": space, "input": text, "compiler": with_compiler});
    let size = text.len() as u64;

    // reference verdict (strict grammar)
    let strict = rec::judge(text);

    // apollo-parser
    st.transitions += 1;
    let tree = match vcore::catch(|| apollo_parser::Parser::new(text).parse()) {
        Ok(t) => t,
        Err(p) => {
            st.fail_simple("panic", case(), format!("apollo-parser panicked: {p}"), size);
            return;
        }
    };
    let impl_ok = tree.errors().len() == 0;
    let impl_defs = if impl_ok {
        apollo_definitions(&tree.document())
    } else {
        Vec::new()
    };

    // the verdict apollo is held to: the strict one, or — only if apollo's result differs from
    // it and equals the model's result with the open deviation switches on — the deviating one
    let mut expected = &strict;
    let deviating;
    let mut known = Deviations::NONE;
    if !agrees(&strict, impl_ok, &impl_defs) {
        if !open.is_empty() {
            deviating = rec::judge_with(text, open);
            let fired = deviating.fired();
            if !fired.is_empty() && agrees(&deviating, impl_ok, &impl_defs) {
                known = fired;
                expected = &deviating;
            }
        }
        if known.is_empty() {
            let first_err = tree
                .errors()
                .next()
                .map(|e| format!("first error {:?} at {}", e.message(), e.index()))
                .unwrap_or_else(|| format!("no errors, definitions {}", show_defs(&impl_defs)));
            let sig = match (strict.accepted(), impl_ok) {
                (false, true) => format!("accepts-ungrammatical:{}", lead(text)),
                (true, false) => format!("rejects-grammatical:{}", lead(text)),
                _ => "definitions-differ".to_string(),
            };
            st.fail_simple(
                &sig,
                case(),
                format!(
                    "reference recogniser: {}; apollo-parser: {first_err}",
                    show_verdict(&strict)
                ),
                size,
            );
            return;
        }
    }
    let expected_ok = expected.accepted();

    // apollo-compiler's AST entry point: Ok <=> grammatical
    if with_compiler {
        st.transitions += 1;
        let r = vcore::catch(|| apollo_compiler::ast::Document::parse(text, "c05.graphql").is_ok());
        match r {
            Err(p) => {
                st.fail_simple(
                    "ast-panic",
                    case(),
                    format!("ast::Document::parse panicked: {p}"),
                    size,
                );
                return;
            }
            Ok(ok) if ok != expected_ok => {
                let sig = if ok {
                    "ast-accepts-ungrammatical"
                } else {
                    "ast-rejects-grammatical"
                };
                st.fail_simple(
                    &format!("{sig}:{}", lead(text)),
                    case(),
                    format!(
                        "reference recogniser: {}; apollo-parser accept={impl_ok}; ast::Document::parse Ok={ok}",
                        show_verdict(expected)
                    ),
                    size,
                );
                return;
            }
            Ok(_) => {}
        }
    }

    if !known.is_empty() {
        for d in known.iter() {
            st.known(d.id(), text);
            st.outcome(&format!("known-finding:{}", d.id()));
        }
        st.nontrivial += 1;
        return;
    }
    match &strict {
        Verdict::Accept(a) => {
            st.nontrivial += 1;
            let k = a.definitions[0].0.as_str();
            if a.definitions.len() > 1 {
                st.outcome(&format!("accept:{k}+"));
            } else {
                st.outcome(&format!("accept:{k}"));
            }
        }
        Verdict::RejectLexical => st.outcome("reject:lexical"),
        Verdict::RejectSyntax {
            at,
            significant_tokens,
            ..
        } => {
            if *at > 0 {
                st.nontrivial += 1;
            }
            st.outcome(if *significant_tokens == 0 {
                "reject:empty-document"
            } else if *at == 0 {
                "reject:first-token"
            } else if at == significant_tokens {
                "reject:unexpected-end"
            } else {
                "reject:unexpected-token"
            });
        }
    }
}

fn run_case(case: &Value, open: Deviations, st: &mut Stats) {
    check_text(
        case["space"].as_str().unwrap_or("replay"),
        case["input"].as_str().unwrap_or(""),
        case["compiler"].as_bool().unwrap_or(true),
        open,
        st,
    );
}

/// documents up to this many tokens get the 2-edit neighbourhood (sized by measured counts)
const K2_MAX_TOKENS_QUICK: usize = 6;
const K2_MAX_TOKENS_THOROUGH: usize = 20;

/// ignored tokens inserted (one at a time) into the base documents
const IGNORED: [&str; 3] = [",", "#c\n", "\u{feff}"];

fn main() {
    let mut chk = Check::new("C05");
    vcore::quiet_panics();
    // deviation switches: exactly the findings listed as open in known_findings.json
    let open = Dev::ALL
        .into_iter()
        .filter(|d| chk.known.is_open(d.id()))
        .fold(Deviations::NONE, Deviations::with);
    if let Some(case) = chk.replay_case() {
        let mut st = Stats::default();
        run_case(&case, open, &mut st);
        chk.absorb(st);
        chk.finish_replay();
    }
    let tier = chk.tier();
    let mut bounds = serde_json::Map::new();

    // ---- (0) the base documents are grammatical and together use every production
    // documents: parser-a's small production documents, then C05's own; duplicates dropped
    let mut docs: Vec<(String, &'static str)> = Vec::new();
    for (i, text) in PRODUCTION_DOCS.iter().enumerate() {
        docs.push((format!("p{i:02}"), text));
    }
    for d in BASE_DOCS {
        if !docs.iter().any(|(_, t)| *t == d.text) {
            docs.push((d.name.to_string(), d.text));
        }
    }
    let n_base = docs.len();
    let mut uses = [0u64; rec::N_PRODUCTIONS];
    for (name, text) in &docs {
        match rec::judge(text) {
            Verdict::Accept(a) => {
                for (i, n) in a.uses.iter().enumerate() {
                    uses[i] += *n as u64;
                }
            }
            v => vcore::machinery_error(&format!(
                "base document {name} is not accepted by the reference recogniser: {v:?}"
            )),
        }
    }
    let zero: Vec<&str> = (0..rec::N_PRODUCTIONS)
        .filter(|i| uses[*i] == 0)
        .map(|i| rec::PRODUCTION_NAMES[i])
        .collect();
    let use_map: serde_json::Map<String, Value> = (0..rec::N_PRODUCTIONS)
        .map(|i| (rec::PRODUCTION_NAMES[i].to_string(), json!(uses[i])))
        .collect();
    println!(
        "base documents {}; productions {} ; with zero uses: {:?}",
        n_base,
        rec::N_PRODUCTIONS,
        zero
    );
    if !zero.is_empty() {
        vcore::machinery_error(&format!(
            "the base documents do not use these productions: {zero:?}"
        ));
    }
    bounds.insert(
        "productions".into(),
        json!({"count": rec::N_PRODUCTIONS, "with_zero_uses_in_base_documents": zero, "uses_in_base_documents": use_map}),
    );

    // boundary documents (mostly just outside the grammar): explored like the base documents
    let mut boundary_accepted = 0;
    for (i, text) in BOUNDARY_DOCS.iter().enumerate() {
        if !docs.iter().any(|(_, t)| t == text) {
            docs.push((format!("boundary-{i:02}"), text));
            if rec::judge(text).accepted() {
                boundary_accepted += 1;
            }
        }
    }
    println!(
        "boundary documents {} ({} of them grammatical)",
        docs.len() - n_base,
        boundary_accepted
    );
    bounds.insert(
        "boundary_documents".into(),
        json!({"count": docs.len() - n_base, "grammatical": boundary_accepted}),
    );

    // ---- (1) every token sequence over T
    let max_len = tier.pick(4u32, 5u32);
    let k = T.len() as u64;
    let total = en::count_upto(k, max_len);
    let stats = vcore::par_sweep(total, 1 << 15, |i, st| {
        let mut seq = Vec::new();
        let mut s = String::new();
        en::nth_upto(k, i, &mut seq);
        en::render_sep(T, &seq, " ", &mut s);
        if i % (total / 5 + 1) == total / 11 {
            st.sample(json!({"space": "sequences", "input": s}));
        }
        check_text("sequences", &s, false, open, st);
    });
    println!(
        "space sequences: |T|={k} max_len={max_len} inputs={total} ({:.1}s)",
        chk.start.elapsed().as_secs_f64()
    );
    bounds.insert(
        "sequences".into(),
        json!({"alphabet": T, "separator": " ", "max_len": max_len, "inputs": total}),
    );
    chk.absorb(stats);

    // ---- (2) base documents and their k-edit neighbourhoods
    let mut docs_json = Vec::new();
    // k = 2 on the smaller documents (token bound by tier), k = 1 on the others
    let k2_max_tokens = tier.pick(K2_MAX_TOKENS_QUICK, K2_MAX_TOKENS_THOROUGH);
    for (name, text) in &docs {
        let (vocab, base) = grammar::encode(text);
        // (boundary documents are already one step outside: k = 2 for them only in thorough)
        let boundary = name.starts_with("boundary-");
        let kk = if base.len() <= k2_max_tokens && !(boundary && tier == vcore::Tier::Quick) {
            2
        } else {
            1
        };
        let nb = grammar::neighbourhood(&base, kk);
        let n = nb.len() as u64;
        let space = format!("edits:{name}");
        let stats = vcore::par_sweep(n, 4096, |i, st| {
            let mut s = String::new();
            grammar::render(&vocab, &nb[i as usize], &mut s);
            if i == n / 2 {
                st.sample(json!({"space": space, "input": s}));
            }
            check_text(&space, &s, true, open, st);
        });
        docs_json.push(json!({"name": name, "tokens": base.len(), "k": kk, "distinct_sequences": n, "text": text}));
        let mut c = Stats::default();
        c.count(&format!("mutants-k{kk}"), n);
        chk.absorb(c);
        chk.absorb(stats);
    }
    let mutants: u64 = docs_json
        .iter()
        .map(|d| d["distinct_sequences"].as_u64().unwrap())
        .sum();
    println!(
        "space edits: documents={} distinct sequences={mutants} ({:.1}s)",
        docs.len(),
        chk.start.elapsed().as_secs_f64()
    );
    bounds.insert(
        "edits".into(),
        json!({"k2_max_tokens": k2_max_tokens, "operators": "delete | insert t∈T | replace by t∈T | swap neighbours, at every position",
               "documents": docs_json, "inputs": mutants}),
    );

    // ---- (3) ignored tokens: every base document with one Comma / Comment / BOM inserted at
    // every gap (the grammar ignores them, so the verdict and the definitions must not change)
    let mut ign_cases: Vec<String> = Vec::new();
    for (_, text) in &docs {
        let toks: Vec<&str> = text.split(' ').collect();
        for gap in 0..=toks.len() {
            for ign in IGNORED {
                let mut v = toks.clone();
                v.insert(gap, ign);
                ign_cases.push(v.join(" "));
            }
        }
    }
    ign_cases.sort();
    ign_cases.dedup();
    let n = ign_cases.len() as u64;
    let stats = vcore::par_sweep(n, 256, |i, st| {
        let s = &ign_cases[i as usize];
        if i == n / 2 {
            st.sample(json!({"space": "ignored-insertions", "input": s}));
        }
        check_text("ignored-insertions", s, true, open, st);
    });
    println!("space ignored-insertions: inputs={n}");
    bounds.insert(
        "ignored_insertions".into(),
        json!({"inserted": IGNORED, "at": "every gap of every base document", "inputs": n}),
    );
    chk.absorb(stats);

    // ---- (4) glued neighbours: every base / boundary document with the separator removed at one
    // gap (every gap in turn). Whether two tokens may touch is a lexical question (`0b`, `1.5e`, `a1`
    // vs `a(`); the reference lexer + recogniser decide, and apollo must agree.
    let mut glue_cases: Vec<String> = Vec::new();
    for (_, text) in &docs {
        let toks: Vec<&str> = text.split(' ').collect();
        for gap in 1..toks.len() {
            let mut s = toks[..gap].join(" ");
            s.push_str(&toks[gap..].join(" "));
            glue_cases.push(s);
        }
    }
    glue_cases.sort();
    glue_cases.dedup();
    let n = glue_cases.len() as u64;
    let stats = vcore::par_sweep(n, 256, |i, st| {
        let s = &glue_cases[i as usize];
        if i == n / 2 {
            st.sample(json!({"space": "glued-neighbours", "input": s}));
        }
        check_text("glued-neighbours", s, true, open, st);
    });
    println!("space glued-neighbours: inputs={n}");
    bounds.insert(
        "glued_neighbours".into(),
        json!({"edit": "the single space between two neighbouring tokens removed", "at": "every gap of every base and boundary document", "inputs": n}),
    );
    chk.absorb(stats);

    chk.bounds = Value::Object(bounds);
    chk.rule = "every token sequence over T (joined by single spaces) up to max_len, in length-then-lexicographic \
                order; every distinct token sequence within k single-token edits of each base document (grammatical, \
                together using every production) and each boundary document (DESIGN A.2 fine points, mostly one \
                step outside the grammar); each of these documents with one ignored token (Comma, Comment, BOM) inserted at each gap, and with the separator removed at each gap; \
                non-trivial = the reference recogniser consumed at least one token before its verdict \
                (accepted, or rejected at significant-token index >= 1)"
        .into();
    chk.assumptions = vec![
        "refmodel::recognise transcribes the October 2021 appendix-B document grammar correctly (written from memory of the \
         spec, no network; unit-tested on the spec's §2/§3 examples and on both sides of every boundary of DESIGN A.2)"
            .into(),
        "refmodel::lex is the lexical oracle (C03); a lexical error counts as a rejection".into(),
        "only acceptance and the (kind, name) list of top-level definitions are compared; error messages, error counts \
         and the shape of the tree below the definitions are not"
            .into(),
        "inputs stay far below apollo-parser's default recursion and token limits (C04's subject)".into(),
    ];
    chk.exhaustive = true;
    chk.finish(&|case| {
        let mut st = Stats::default();
        run_case(case, open, &mut st);
        !st.failures.is_empty()
    })
}
