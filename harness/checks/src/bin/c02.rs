//! C02 — the document syntax tree is lossless (DESIGN.md §6 C02).
//! E-INPUT: (a) every string over Σlex up to the bound, (b) every token sequence over T ∪ {é}
//! up to the bound, (e) every single-token edit (two edits in the thorough tier, on the small
//! documents) of the "every production once" documents; each parsed by the real
//! `apollo_parser::Parser::parse` with no token limit.
//! Oracle: tree text == input; the leaf tokens tile 0..len in order; every node and token range
//! starts and ends on a char boundary.

use apollo_parser::cst::CstNode;
use apollo_parser::{Parser, SyntaxKind};
use checks::parsing::{self, SIGMA_LEX, TX};
use refmodel::lex;
use serde_json::{json, Value};
use vcore::{enumerate as en, Check, Stats};

const KF_DROPPED: &str = "C02-type-bracket-dropped-token";

/// Tiling and boundary conditions of a tree against the text it is supposed to carry.
fn structure_errors(root: &apollo_parser::SyntaxNode, text: &str) -> Option<(&'static str, String)> {
    let mut pos = 0usize;
    let mut rebuilt = String::with_capacity(text.len());
    let rr = root.text_range();
    if usize::from(rr.start()) != 0 || usize::from(rr.end()) != text.len() {
        return Some(("root-range", format!("root covers {rr:?}, text has {} bytes", text.len())));
    }
    for el in root.descendants_with_tokens() {
        let r = el.text_range();
        let (s, e) = (usize::from(r.start()), usize::from(r.end()));
        if s > text.len() || e > text.len() || !text.is_char_boundary(s) || !text.is_char_boundary(e) {
            return Some((
                "char-boundary",
                format!("{:?} has range {s}..{e} which is not on char boundaries of the text", el.kind()),
            ));
        }
        if let Some(tok) = el.as_token() {
            if s != pos {
                return Some((
                    "tiling-gap",
                    format!("token {:?} {:?} starts at {s}, previous token ended at {pos}", tok.kind(), tok.text()),
                ));
            }
            if tok.text().len() != e - s {
                return Some(("tiling-len", format!("token {:?} text length differs from its range", tok.kind())));
            }
            rebuilt.push_str(tok.text());
            pos = e;
        }
    }
    if pos != text.len() || rebuilt != text {
        return Some((
            "tiling-text",
            format!("leaf tokens concatenate to {:?}", vcore::short(&rebuilt)),
        ));
    }
    None
}

/// Known finding C02-type-bracket-dropped-token, as a *predictive* classifier: the defect pops
/// the significant token that directly follows a `[` of a list type when it is neither a Name
/// nor `[`, and never adds it to the tree. Candidates are computed from the input alone (every
/// significant, non-Name, non-`[` token whose previous significant token is `[`, lexer error
/// fragments and ignored tokens in between allowed); the case is attributed to the finding only
/// if the tree text equals the input with a non-empty subset of exactly those tokens removed,
/// and — so that a *different* token-dropping defect at a `[` of, say, a list value is not
/// swallowed — every removed token sits directly after an `L_BRACK` whose parent is a
/// `LIST_TYPE` node in the returned tree.
fn classify_dropped(input: &str, tree_text: &str, root: &apollo_parser::SyntaxNode) -> Option<String> {
    // candidate token spans
    let mut cands: Vec<(usize, usize)> = Vec::new();
    let mut i = 0;
    let mut prev_sig_is_lbrack = false;
    while i < input.len() {
        match lex::munch(input, i, lex::Params::default()) {
            Some((k, n)) => {
                let text = &input[i..i + n];
                let ignored = matches!(k, lex::Kind::Ws | lex::Kind::Comment | lex::Kind::Comma);
                if !ignored {
                    let is_lbrack = k == lex::Kind::Punct && text == "[";
                    if prev_sig_is_lbrack && k != lex::Kind::Name && !is_lbrack {
                        cands.push((i, i + n));
                    }
                    prev_sig_is_lbrack = is_lbrack;
                }
                i += n;
            }
            None => {
                // not a token: a lexer error fragment; skip one char, it does not change
                // which significant token follows the bracket
                i += input[i..].chars().next().unwrap().len_utf8();
            }
        }
    }
    if cands.is_empty() || cands.len() > 10 {
        return None;
    }
    let removed_len = input.len().checked_sub(tree_text.len())?;
    if removed_len == 0 {
        return None;
    }
    for mask in 1u32..(1 << cands.len()) {
        let total: usize = cands
            .iter()
            .enumerate()
            .filter(|(j, _)| mask & (1 << j) != 0)
            .map(|(_, (s, e))| e - s)
            .sum();
        if total != removed_len {
            continue;
        }
        let mut predicted = String::with_capacity(tree_text.len());
        let mut p = 0;
        let mut gaps = Vec::new(); // offsets in the tree text where a token is missing
        for (j, (s, e)) in cands.iter().enumerate() {
            if mask & (1 << j) != 0 {
                predicted.push_str(&input[p..*s]);
                gaps.push(predicted.len());
                p = *e;
            }
        }
        predicted.push_str(&input[p..]);
        if predicted != tree_text {
            continue;
        }
        // tree-side confirmation: the last significant leaf before each gap is `[` in a LIST_TYPE
        let ok = gaps.iter().all(|&g| {
            let mut last: Option<(SyntaxKind, SyntaxKind)> = None;
            for el in root.descendants_with_tokens() {
                let Some(tok) = el.as_token() else { continue };
                if usize::from(tok.text_range().end()) > g {
                    break;
                }
                if matches!(
                    tok.kind(),
                    SyntaxKind::WHITESPACE | SyntaxKind::COMMENT | SyntaxKind::COMMA | SyntaxKind::ERROR
                ) {
                    continue;
                }
                last = Some((tok.kind(), tok.parent().map(|p| p.kind()).unwrap_or(SyntaxKind::ERROR)));
            }
            last == Some((SyntaxKind::L_BRACK, SyntaxKind::LIST_TYPE))
        });
        if ok {
            let (s, e) = cands[(0..cands.len()).find(|j| mask & (1 << j) != 0).unwrap()];
            return Some(format!("{} (dropped {:?} at byte {s})", input, &input[s..e]));
        }
    }
    None
}

fn check_input(space: &str, s: &str, kf_open: bool, st: &mut Stats) {
    check_input_rl(space, s, None, kf_open, st)
}

/// `rl`: recursion limit (None = the default). The token limit is never set.
fn check_input_rl(space: &str, s: &str, rl: Option<usize>, kf_open: bool, st: &mut Stats) {
    st.states += 1;
    st.transitions += 1;
    let fail = |st: &mut Stats, sig: &str, detail: String| {
        st.fail_simple(sig, json!({ "space": space, "input": s, "recursion_limit": rl }), detail, s.len() as u64);
    };
    let tree = match vcore::catch(|| match rl {
        None => Parser::new(s).parse(),
        Some(r) => Parser::new(s).recursion_limit(r).parse(),
    }) {
        Ok(t) => t,
        Err(p) => {
            fail(st, "panic", format!("Parser::parse panicked: {p}"));
            return;
        }
    };
    let doc = tree.document();
    let root = doc.syntax();
    let text = root.to_string();
    let nerr = tree.errors().len();
    if text != s {
        if kf_open {
            if let Some(w) = classify_dropped(s, &text, root) {
                // the rest of the oracle still has to hold for the text the tree does carry
                if let Some((sig, d)) = structure_errors(root, &text) {
                    fail(st, sig, format!("(besides the known dropped token) {d}"));
                    return;
                }
                st.known(KF_DROPPED, &w);
                st.outcome("known-finding dropped token after `[` in a type");
                return;
            }
        }
        fail(
            st,
            "text-differs",
            format!("tree text is {:?} ({} bytes), input has {} bytes", vcore::short(&text), text.len(), s.len()),
        );
        return;
    }
    if let Some((sig, d)) = structure_errors(root, s) {
        fail(st, sig, d);
        return;
    }
    let has_error_token = root
        .descendants_with_tokens()
        .any(|e| e.as_token().is_some() && e.kind() == SyntaxKind::ERROR);
    if nerr > 0 && !s.is_empty() {
        st.nontrivial += 1;
    }
    let limit_hit = tree.errors().any(|e| e.is_limit());
    st.outcome(match (nerr > 0, has_error_token, limit_hit) {
        (false, _, _) => "lossless, no errors",
        (true, false, false) => "lossless, errors reported, no ERROR token in the tree",
        (true, true, false) => "lossless, errors reported, ERROR tokens in the tree",
        (true, false, true) => "lossless, recursion limit hit, no ERROR token in the tree",
        (true, true, true) => "lossless, recursion limit hit, ERROR tokens in the tree",
    });
}

fn run_case(case: &Value, kf_open: bool, st: &mut Stats) {
    check_input_rl(
        case["space"].as_str().unwrap_or("replay"),
        case["input"].as_str().unwrap_or(""),
        case["recursion_limit"].as_u64().map(|r| r as usize),
        kf_open,
        st,
    );
}

fn main() {
    let mut chk = Check::new("C02");
    vcore::quiet_panics();
    let kf_open = chk.known.is_open(KF_DROPPED);
    if let Some(case) = chk.replay_case() {
        let mut st = Stats::default();
        run_case(&case, kf_open, &mut st);
        chk.absorb(st);
        chk.finish_replay();
    }
    let tier = chk.tier();
    let mut bounds = serde_json::Map::new();

    // (a) strings over Σlex
    let max_len = tier.pick(4, 6);
    let k = SIGMA_LEX.len() as u64;
    let total = en::count_upto(k, max_len);
    let stats = vcore::par_sweep(total, 16384, |i, st| {
        let mut seq = Vec::new();
        let mut s = String::new();
        en::nth_upto(k, i, &mut seq);
        en::render(SIGMA_LEX, &seq, &mut s);
        if i % (total / 3 + 1) == total / 7 {
            st.sample(json!({"space": "strings", "input": s}));
        }
        check_input("strings", &s, kf_open, st);
    });
    println!("space strings max_len {max_len} inputs {total}");
    chk.absorb(stats);
    bounds.insert("strings".into(), json!({"alphabet": SIGMA_LEX, "max_len": max_len, "inputs": total}));

    // (a2) strings over Σlex plus characters that are white space for Unicode but not for GraphQL
    // (they are lexer-error fragments and must stay in the tree like any other)
    let ws_alpha: Vec<&str> = SIGMA_LEX.iter().copied().chain(["\u{a0}", "\u{c}", "\u{2028}"]).collect();
    let max_len = tier.pick(4, 5);
    let k = ws_alpha.len() as u64;
    let total = en::count_upto(k, max_len);
    let stats = vcore::par_sweep(total, 16384, |i, st| {
        let mut seq = Vec::new();
        en::nth_upto(k, i, &mut seq);
        // only strings that use at least one of the added characters (the rest is space (a))
        if !seq.iter().any(|&x| x >= SIGMA_LEX.len()) {
            return;
        }
        let mut s = String::new();
        en::render(&ws_alpha, &seq, &mut s);
        check_input("strings-unicode-space", &s, kf_open, st);
    });
    println!("space strings-unicode-space max_len {max_len} inputs {total} (those with an added character)");
    chk.absorb(stats);
    bounds.insert("strings_unicode_space".into(), json!({"alphabet": ws_alpha, "max_len": max_len, "note": "strings containing at least one of U+00A0, U+000C, U+2028"}));

    // (b) token sequences over T ∪ {é}, joined with one space
    let max_len = tier.pick(3, 5);
    let k = TX.len() as u64;
    let total = en::count_upto(k, max_len);
    let stats = vcore::par_sweep(total, 16384, |i, st| {
        let mut seq = Vec::new();
        let mut s = String::new();
        en::nth_upto(k, i, &mut seq);
        en::render_sep(TX, &seq, " ", &mut s);
        if i % (total / 3 + 1) == total / 7 {
            st.sample(json!({"space": "token-sequences", "input": s}));
        }
        check_input("token-sequences", &s, kf_open, st);
    });
    println!("space token-sequences max_len {max_len} inputs {total}");
    chk.absorb(stats);
    bounds.insert("token_sequences".into(), json!({"alphabet": TX, "max_len": max_len, "inputs": total}));

    // (e) single-token edits of the production documents (every error shape in every position)
    let (bad, missing) = parsing::production_coverage();
    if !bad.is_empty() {
        chk.note(format!("production documents that do not parse cleanly on this tree: {bad:?}"));
    }
    if !missing.is_empty() {
        chk.note(format!("production node kinds never produced by the production documents: {missing:?}"));
    }
    let docs: Vec<Vec<&str>> = parsing::PRODUCTION_DOCS.iter().map(|d| parsing::tokens_of(d)).collect();
    let stats = vcore::par_items(&docs, |base, st| {
        check_input("production-doc", &parsing::join(base), kf_open, st);
        let edits = parsing::single_edits(base, TX);
        for (n, e) in edits.iter().enumerate() {
            if n == edits.len() / 2 && base.len() == 3 {
                st.sample(json!({"space": "edit-1", "base": parsing::join(base), "input": e}));
            }
            check_input("edit-1", e, kf_open, st);
        }
        st.count("edit-1 mutants", edits.len() as u64);
    });
    chk.absorb(stats);
    let mut edit2_docs = 0;
    if tier == vcore::Tier::Thorough {
        // two edits on the smallest documents: all (first edit, second edit) pairs
        let mut small: Vec<&Vec<&str>> = docs.iter().collect();
        small.sort_by_key(|d| (d.len(), parsing::join(d)));
        small.truncate(8);
        edit2_docs = small.len();
        let mut items: Vec<String> = Vec::new();
        for base in &small {
            items.extend(parsing::single_edits(base, TX));
        }
        let stats = vcore::par_items(&items, |first, st| {
            let toks = parsing::tokens_of(first);
            let edits = parsing::single_edits(&toks, TX);
            for e in &edits {
                check_input("edit-2", e, kf_open, st);
            }
            st.count("edit-2 mutants (distinct per first edit)", edits.len() as u64);
        });
        chk.absorb(stats);
    }
    // (r) small recursion limits (the statement only fixes the token limit): token sequences,
    // the nesting family, and single-token edits of nested documents, each x r in 0..=2
    let rl_len = tier.pick(3, 4);
    let k = TX.len() as u64;
    let total = en::count_upto(k, rl_len);
    let stats = vcore::par_sweep(total, 8192, |i, st| {
        let mut seq = Vec::new();
        let mut s = String::new();
        en::nth_upto(k, i, &mut seq);
        en::render_sep(TX, &seq, " ", &mut s);
        for r in 0..=2 {
            check_input_rl("token-sequences-rl", &s, Some(r), kf_open, st);
        }
    });
    chk.absorb(stats);
    let (vd, sd, td, mix) = tier.pick((3, 4, 4, 2), (4, 5, 5, 2));
    let family: Vec<String> = refmodel::nest::family(vd, sd, td, mix).into_iter().map(|(_, d)| d.print()).collect();
    let stats = vcore::par_items(&family, |d, st| {
        for r in 0..=3 {
            check_input_rl("nesting-family-rl", d, Some(r), kf_open, st);
            // and with garbage behind it (unexpected tokens after the limit was hit)
            check_input_rl("nesting-family-rl", &format!("{d} }} ] é fragment F on T {{ x }}"), Some(r), kf_open, st);
        }
    });
    chk.absorb(stats);
    let nested: Vec<Vec<&str>> = [
        "{ a { b { c { d } } } } fragment F on T { x }",
        "query Q ( $v : [ [ Int ] ] = [ [ 1 ] ] ) { a ( x : { y : [ 1 , [ 2 ] ] } ) { b } }",
        "type T { f ( x : [ [ Int ! ] ] = [ [ 1 ] ] ) : [ [ T ] ! ] @d ( a : { b : [ { c : 1 } ] } ) }",
    ]
    .iter()
    .map(|d| parsing::tokens_of(d))
    .collect();
    let stats = vcore::par_items(&nested, |base, st| {
        let mut edits = parsing::single_edits(base, TX);
        edits.push(parsing::join(base));
        for e in &edits {
            for r in 0..=3 {
                check_input_rl("edit-1-rl", e, Some(r), kf_open, st);
            }
        }
        st.count("edit-1 mutants under small recursion limits", edits.len() as u64);
    });
    chk.absorb(stats);
    println!("space recursion-limits: token sequences <= {rl_len} x r 0..=2, {} family documents x r 0..=3 (plain and with trailing garbage), edits of {} nested documents x r 0..=3", family.len(), nested.len());
    bounds.insert("recursion_limits".into(), json!({"token_sequences_max_len": rl_len, "token_sequence_limits": [0, 1, 2],
        "family_documents": family.len(), "family_limits": [0, 1, 2, 3], "nested_edit_documents": nested.len()}));

    bounds.insert(
        "edits".into(),
        json!({"documents": docs.len(), "edit_alphabet": TX, "k": tier.pick(1, 2), "two_edit_documents": edit2_docs,
               "operators": ["delete", "insert", "replace", "swap-neighbours"]}),
    );

    chk.bounds = Value::Object(bounds);
    chk.rule = "every string over Σlex up to max_len; every token sequence over T∪{é} up to max_len (joined with one space); \
                every distinct single-token edit of each production document (thorough: every second edit of every first edit \
                of the 8 smallest documents; distinct per first edit); every string that uses U+00A0 / U+000C / U+2028; token sequences, nesting-family documents and edits of nested documents under recursion limits 0..=3. non-trivial = non-empty inputs on which the parser reported ≥1 error"
        .into();
    chk.assumptions = vec![
        "rowan's SyntaxNode::to_string / text_range report what the tree holds (trusted base)".into(),
        "the token limit is never set (the statement's precondition); the recursion limit is the default except in the recursion-limits spaces, where it is 0..=3".into(),
    ];
    chk.finish(&|case| {
        let mut st = Stats::default();
        run_case(case, kf_open, &mut st);
        !st.failures.is_empty()
    })
}
