//! C26 — execution follows the GraphQL execution algorithm (DESIGN.md §6 C26, A.5).
//! E-INPUT: 3 schemas x generated operations x coerced variable maps x resolver worlds with a
//! bounded number of non-default positions (every position, every behaviour of the menu);
//! the REAL `Execution::execute_sync` against the reference executor `refmodel::exec`.
//! Compared: `data` exactly (key order included) and the sequence of error paths; plus the direct
//! invariants of the statement, evaluated on the real response alone.

use checks::execharness::*;
use refmodel::ast::{Field, Selection, Ty};
use refmodel::exec::{self, Dev, NamedKind, Outcome, Params, Path, PosWorld, Request, Seg};
use serde_json::{json, Map, Value as Json};
use std::collections::BTreeSet;
use vcore::{Check, Stats, Tier};

const KF_ABSENT_VAR: &str = "C26-input-object-absent-variable";

struct Ctx<'a> {
    sc: &'a SchemaCx,
    prep: &'a Prepared,
    /// the known finding is listed as open: its deviation switch may explain a disagreement
    kf_absent_var: bool,
}

fn starts_with(p: &[Seg], prefix: &[Seg]) -> bool {
    p.len() >= prefix.len() && p[..prefix.len()] == *prefix
}

// ---------------------------------------------------------------------------------
// Direct invariants on the real response (no reference executor involved; the world and the
// schema say which type lives at which position)
// ---------------------------------------------------------------------------------

struct Inv<'a> {
    req: &'a Request<'a>,
    world: &'a PosWorld<'a>,
    error_paths: &'a [Path],
}

impl<'a> Inv<'a> {
    fn runtime_type(&self, declared: &str, pos: &[Seg]) -> String {
        match self.world.deviation_at(pos) {
            Some(Dev::Object(t)) => t.clone(),
            _ => self.req.schema.possible_types(declared).first().map(|s| s.to_string()).unwrap_or_default(),
        }
    }
    fn field_type(&self, object_type: &str, fields: &[&Field]) -> Option<Ty> {
        match fields[0].name.as_str() {
            "__typename" => Some(Ty::parse("String!")),
            "__schema" | "__type" => None,
            n => self.req.schema.field_def(object_type, n).map(|f| f.ty.clone()),
        }
    }
    /// (1) no null at a non-null position; (3b) every null in `data` is a null the world served
    /// there or is covered by an error at or below that position
    fn walk_object(&self, obj: &Map<String, Json>, object_type: &str, sels: &[&'a Selection], path: &mut Path) -> Result<(), (String, String)> {
        let mut grouped = Vec::new();
        exec::collect_fields(self.req, object_type, sels, &mut BTreeSet::new(), &mut grouped);
        for (key, fields) in &grouped {
            let Some(v) = obj.get(key) else { continue };
            let Some(ty) = self.field_type(object_type, fields) else { continue };
            path.push(Seg::Key(key.clone()));
            let r = self.walk_value(v, &ty, fields, path);
            path.pop();
            r?;
        }
        Ok(())
    }
    fn walk_value(&self, v: &Json, ty: &Ty, fields: &[&'a Field], path: &mut Path) -> Result<(), (String, String)> {
        if v.is_null() {
            if ty.is_non_null() {
                return Err(("invariant-null-at-non-null".into(), format!("null at {} whose type is {ty}", exec::path_string(path))));
            }
            let served = matches!(self.world.deviation_at(path), Some(Dev::Leaf(Json::Null)));
            if !served && !self.error_paths.iter().any(|e| starts_with(e, path)) {
                return Err(("invariant-null-without-error".into(), format!("null at {} but no error at or below it and the resolver did not return null", exec::path_string(path))));
            }
            return Ok(());
        }
        match ty.nullable() {
            Ty::List(item) => {
                if let Some(a) = v.as_array() {
                    for (i, x) in a.iter().enumerate() {
                        path.push(Seg::Index(i));
                        let r = self.walk_value(x, item, fields, path);
                        path.pop();
                        r?;
                    }
                }
                Ok(())
            }
            Ty::Named(n) => match (self.req.schema.kind(n), v.as_object()) {
                (NamedKind::Object | NamedKind::Interface | NamedKind::Union, Some(obj)) => {
                    let rt = self.runtime_type(n, path);
                    self.walk_object(obj, &rt, &merged_subselections(fields), path)
                }
                _ => Ok(()),
            },
            Ty::NonNull(_) => unreachable!(),
        }
    }
    /// the expected type at every prefix of a response path, or None if the path is not a position
    fn types_along(&self, p: &[Seg]) -> Option<Vec<Ty>> {
        let mut out = Vec::new();
        let root = match self.req.operation.kind {
            refmodel::ast::OpKind::Mutation => self.req.schema.mutation.clone()?,
            _ => self.req.schema.query.clone(),
        };
        let mut object_type = root;
        let mut sels: Vec<&'a Selection> = self.req.operation.selection.iter().collect();
        let mut cur: Option<(Ty, Vec<&'a Field>)> = None;
        for (i, seg) in p.iter().enumerate() {
            match seg {
                Seg::Key(k) => {
                    if let Some((ty, fields)) = &cur {
                        let n = ty.inner_name();
                        if ty.is_list() || !matches!(self.req.schema.kind(n), NamedKind::Object | NamedKind::Interface | NamedKind::Union) {
                            return None;
                        }
                        object_type = self.runtime_type(n, &p[..i]);
                        sels = merged_subselections(fields);
                    }
                    let mut grouped = Vec::new();
                    exec::collect_fields(self.req, &object_type, &sels, &mut BTreeSet::new(), &mut grouped);
                    let (_, fields) = grouped.into_iter().find(|(key, _)| key == k)?;
                    let ty = match fields[0].name.as_str() {
                        "__schema" => Ty::parse("__Schema!"),
                        "__type" => Ty::parse("__Type"),
                        _ => self.field_type(&object_type, &fields)?,
                    };
                    out.push(ty.clone());
                    cur = Some((ty, fields));
                }
                Seg::Index(_) => {
                    let (ty, fields) = cur.take()?;
                    let item = ty.item()?.clone();
                    out.push(item.clone());
                    cur = Some((item, fields));
                }
            }
        }
        Some(out)
    }
    fn check(&self, data: &Json) -> Result<(), (String, String)> {
        // (3a) every error has the path of a position, and that position (or an ancestor) is null
        let mut reaches_root = false;
        for e in self.error_paths {
            if e.is_empty() {
                return Err(("invariant-error-without-path".into(), "a field error has an empty path".into()));
            }
            let Some(types) = self.types_along(e) else {
                return Err(("invariant-error-path-not-a-position".into(), format!("error path {} is not a position of the response tree", exec::path_string(e))));
            };
            let mut cur = data;
            let mut nulled = false;
            for seg in e {
                if cur.is_null() {
                    nulled = true;
                    break;
                }
                let next = match seg {
                    Seg::Key(k) => cur.get(k.as_str()),
                    Seg::Index(i) => cur.get(*i),
                };
                match next {
                    Some(n) => cur = n,
                    None => return Err(("invariant-error-path-missing-in-data".into(), format!("error path {} leads outside data", exec::path_string(e)))),
                }
            }
            if !nulled && !cur.is_null() {
                return Err(("invariant-error-position-not-null".into(), format!("error at {} but data holds {cur} there", exec::path_string(e))));
            }
            // (2) does this error propagate to the root? An error produced by the list iterator
            // fails the list itself (documented choice), so the item's own nullability is skipped.
            let iterator_error = matches!(e.last(), Some(Seg::Index(_))) && self.world.deviation_at(e) == Some(&Dev::Error);
            let chain = if iterator_error { &types[..types.len() - 1] } else { &types[..] };
            if chain.iter().all(|t| t.is_non_null()) {
                reaches_root = true;
            }
        }
        if data.is_null() != reaches_root {
            return Err((
                "invariant-data-null-iff-propagated".into(),
                format!("data is {}null but {} error sits on an all-non-null chain to the root", if data.is_null() { "" } else { "not " }, if reaches_root { "an" } else { "no" }),
            ));
        }
        if let Some(obj) = data.as_object() {
            let sels: Vec<&Selection> = self.req.operation.selection.iter().collect();
            let root = root_type_name(self.req);
            self.walk_object(obj, &root, &sels, &mut vec![])?;
        }
        Ok(())
    }
}

fn root_type_name(req: &Request<'_>) -> String {
    match req.operation.kind {
        refmodel::ast::OpKind::Mutation => req.schema.mutation.clone().unwrap_or_default(),
        _ => req.schema.query.clone(),
    }
}

// ---------------------------------------------------------------------------------
// One case
// ---------------------------------------------------------------------------------

fn dev_class(schema: &exec::ExecSchema, d: &Dev, ty: &Ty) -> String {
    let pos = if ty.is_list() {
        "list"
    } else {
        match schema.kind(ty.inner_name()) {
            NamedKind::Object | NamedKind::Interface | NamedKind::Union => "composite",
            _ => "leaf",
        }
    };
    let what = match d {
        Dev::Leaf(Json::Null) => "null",
        Dev::Leaf(_) => "other-leaf",
        Dev::Error => "resolver-error",
        Dev::Object(_) => "object",
        Dev::List(_) => "list",
    };
    format!("{what}@{pos}{}", if ty.is_non_null() { "!" } else { "" })
}

/// Run one (operation, variables, world); returns the reference outcome (for position enumeration).
fn run_case(cx: &Ctx<'_>, vars: &Map<String, Json>, devs: &[(Path, Dev)], label: &str, st: &mut Stats) -> Outcome {
    let sc = cx.sc;
    let g = &cx.prep.gen;
    let req = Request { schema: &sc.exec, operation: &g.operation, fragments: &g.fragments, variables: vars };
    let w = world(sc, devs);
    let reference = exec::execute(&req, &w, Params::apollo());
    st.states += 1;
    st.transitions += 1;
    let size = g.text.len() as u64 + 1000 * devs.len() as u64 + 10 * vars.len() as u64;
    let case = || case_json(sc, &g.text, vars, devs);
    let real = match run_sync(sc, &cx.prep.apollo, vars, &w, &root_type_of(sc, &g.operation)) {
        Ok(r) => r,
        Err(e) => {
            let sig = if e.starts_with("panic") { "panic" } else { "request-error" };
            st.fail_simple(sig, case(), format!("execute_sync: {e}; reference data {} paths {:?}", reference.data, reference.error_paths), size);
            st.outcome(sig);
            return reference;
        }
    };
    let ref_paths = Json::Array(reference.error_paths.iter().map(|p| exec::path_json(p)).collect());
    let real_paths = Json::Array(real.error_paths.iter().map(|p| exec::path_json(p)).collect());
    let agrees = |o: &Outcome| real.data.to_string() == o.data.to_string() && real.error_paths == o.error_paths;
    if !agrees(&reference) && cx.kf_absent_var {
        // known finding: attributed only if apollo equals the model with exactly that switch on,
        // and the switch changed a sub-decision of this very case
        let mut p = Params::apollo();
        p.deviation_absent_variable_in_input_object_is_null = true;
        let dev = exec::execute(&req, &w, p);
        if agrees(&dev) && !dev.deviations_fired.is_empty() {
            st.known(KF_ABSENT_VAR, &format!("{} with variables {}", g.text, Json::Object(vars.clone())));
            st.outcome("known-finding (absent variable in an input-object literal)");
            return reference;
        }
    }
    if real.data.to_string() != reference.data.to_string() {
        let sig = if real.data == reference.data { "data-key-order-differs" } else { "data-differs" };
        st.fail_simple(sig, case(), format!("data: apollo {} reference {}; error paths: apollo {real_paths} reference {ref_paths}", real.data, reference.data), size);
    } else if real.error_paths != reference.error_paths {
        st.fail_simple("error-paths-differ", case(), format!("error paths: apollo {real_paths} reference {ref_paths}; data {}", real.data), size);
    }
    let inv = Inv { req: &req, world: &w, error_paths: &real.error_paths };
    if let Err((sig, detail)) = inv.check(&real.data) {
        st.fail_simple(&sig, case(), format!("{detail}; response {}", real.response), size);
    }
    if !real.error_paths.is_empty() {
        st.nontrivial += 1;
    }
    let result = if real.data.is_null() {
        "data-null"
    } else if real.error_paths.is_empty() {
        "no-error"
    } else if real.error_paths.len() == 1 {
        "1-error-nulled"
    } else {
        "n-errors-nulled"
    };
    st.outcome(&format!("{label} -> {result}"));
    reference
}

fn explore(cx: &Ctx<'_>, k: usize, st: &mut Stats) {
    let schema = &cx.sc.exec;
    for (vi, vars) in cx.prep.gen.var_maps.iter().enumerate() {
        let base = run_case(cx, vars, &[], "default", st);
        if vi == 0 && cx.prep.gen.text.len() % 97 == 3 {
            st.sample(json!({"document": cx.prep.gen.text, "schema": cx.sc.name, "variables": vars, "data": base.data}));
        }
        if k == 0 {
            continue;
        }
        let p0: Vec<&Path> = base.visited.iter().map(|(p, _)| p).collect();
        for (i, (pos, ty)) in base.visited.iter().enumerate() {
            for d in exec::deviation_menu(schema, ty) {
                let devs1 = vec![(pos.clone(), d.clone())];
                let label1 = format!("1: {}", dev_class(schema, &d, ty));
                let out1 = run_case(cx, vars, &devs1, &label1, st);
                if k < 2 {
                    continue;
                }
                for (pos2, ty2) in &out1.visited {
                    if pos2 == pos {
                        continue;
                    }
                    // each unordered pair once: the second position is new, or later in the default run
                    match p0.iter().position(|p| *p == pos2) {
                        Some(j) if j <= i => continue,
                        _ => {}
                    }
                    for d2 in exec::deviation_menu(schema, ty2) {
                        let devs2 = vec![(pos.clone(), d.clone()), (pos2.clone(), d2.clone())];
                        run_case(cx, vars, &devs2, "2 deviations", st);
                    }
                }
            }
        }
    }
}

fn replay(case: &Json, kf_open: bool, st: &mut Stats) {
    let scs = schemas();
    let Some(sc) = scs.iter().find(|s| Some(s.name) == case["schema"].as_str()) else {
        vcore::machinery_error("replay: unknown schema");
    };
    let text = case["document"].as_str().unwrap_or("");
    let (operation, fragments) = parse_case_document(text).unwrap_or_else(|e| vcore::machinery_error(&format!("replay: {e}")));
    let vars = case["coerced_variables"].as_object().cloned().unwrap_or_default();
    let gen = GenOp { schema: 0, family: "replay", operation, fragments, text: text.to_string(), var_maps: vec![vars.clone()] };
    let prep = prepare(sc, gen).unwrap_or_else(|e| vcore::machinery_error(&format!("replay: document invalid: {e}")));
    let devs = devs_from_json(&case["deviations"]);
    run_case(&Ctx { sc, prep: &prep, kf_absent_var: kf_open }, &vars, &devs, "replay", st);
}

fn main() {
    let mut chk = Check::new("C26");
    vcore::quiet_panics();
    let kf_open = chk.known.is_open(KF_ABSENT_VAR);
    if let Some(case) = chk.replay_case() {
        let mut st = Stats::default();
        replay(&case, kf_open, &mut st);
        chk.absorb(st);
        chk.finish_replay();
    }
    let tier = chk.tier();
    let scs = schemas();
    if chk.args.rest.iter().any(|a| a == "--counts") {
        // sizing aid: number of grammar-derived selection sets per exact size (no execution)
        for sc in &scs {
            for (which, menu) in [("full", menus(sc.name)), ("core", core_menus(sc.name))] {
                let mut g = SetGen::new(&menu);
                for root in ["Query", "Mutation"] {
                    if menu.contains_key(root) {
                        let counts: Vec<u64> = (1..=8).map(|k| g.count_exact(root, k)).collect();
                        println!("{} {which} menu, {root}: selection sets of exactly 1..8 selections: {counts:?}", sc.name);
                    }
                }
            }
        }
        return;
    }
    let bounds = match tier {
        Tier::Quick => GenBounds { max_sel: [0, 5, 5], core_sel: 0, mutation_sel: 4, deco_base_sel: 3, deco_nodes: 1, s1_seq: 3 },
        Tier::Thorough => GenBounds { max_sel: [0, 5, 5], core_sel: 7, mutation_sel: 5, deco_base_sel: 3, deco_nodes: 2, s1_seq: 4 },
    };
    // deviations: quick <= 1 everywhere; thorough <= 2 on operations of at most `k2_max_len` bytes
    let generated = generate(&scs, &bounds);
    let n_generated = generated.len();
    // validate with apollo (in parallel, order preserved)
    let prepared: Vec<Result<Prepared, (usize, &'static str, String, String)>> = {
        use rayon::prelude::*;
        generated
            .into_par_iter()
            .map(|g| {
                let (si, fam, text) = (g.schema, g.family, g.text.clone());
                prepare(&scs[si], g).map_err(|e| (si, fam, text, e))
            })
            .collect()
    };
    let mut pre = Stats::default();
    let mut items: Vec<&Prepared> = Vec::new();
    let mut seen = BTreeSet::new();
    let mut families: std::collections::BTreeMap<String, u64> = Default::default();
    for p in &prepared {
        match p {
            Ok(p) => {
                // the same document can be generated twice (decorations); keep the first
                if seen.insert((p.gen.schema, p.gen.text.clone())) {
                    *families.entry(p.gen.family.to_string()).or_insert(0) += 1;
                    items.push(p);
                }
            }
            Err((_, fam, _, _)) => pre.count(&format!("candidates rejected by apollo validation ({fam})"), 1),
        }
    }
    for (f, n) in &families {
        pre.count(&format!("operations ({f})"), *n);
    }
    let invalid_sample: Vec<String> = prepared.iter().filter_map(|p| p.as_ref().err()).take(3).map(|(_, _, t, e)| format!("{t} :: {}", vcore::short(e))).collect();
    println!("generated {n_generated} candidates, {} distinct valid operations", items.len());
    chk.absorb(pre);

    let k_for = |p: &Prepared| -> usize {
        match tier {
            Tier::Quick => 1,
            Tier::Thorough => {
                if node_count_public(&p.gen.operation.selection) <= 4 {
                    2
                } else {
                    1
                }
            }
        }
    };
    let stats = vcore::par_items(&items, |p, st| {
        let cx = Ctx { sc: &scs[p.gen.schema], prep: p, kf_absent_var: kf_open };
        explore(&cx, k_for(p), st);
    });
    chk.absorb(stats);
    chk.bounds = json!({
        "schemas": scs.iter().map(|s| json!({"name": s.name, "sdl": s.text})).collect::<Vec<_>>(),
        "max_selections_grammar": {"S2": bounds.max_sel[1], "S3": bounds.max_sel[2], "reduced_menus_up_to": bounds.core_sel, "S3-mutation": bounds.mutation_sel, "S1-sequences": bounds.s1_seq},
        "directive_decorations": {"base_selections": bounds.deco_base_sel, "decorated_nodes": bounds.deco_nodes},
        "deviations_per_world": match tier { Tier::Quick => json!("<= 1 at every visited position"), Tier::Thorough => json!("<= 2 at every visited position for operations with <= 4 selection nodes, <= 1 for larger ones") },
        "operations": items.len(),
        "candidates": n_generated,
        "rejected_candidate_samples": invalid_sample,
    });
    chk.rule = "every generated valid operation x every coerced variable map x every world with the stated number of \
                non-default positions (each visited position x each behaviour of refmodel::exec::deviation_menu); \
                non-trivial = the real response contains at least one field error"
        .into();
    chk.assumptions = vec![
        "reference executor refmodel::exec transcribes spec (October 2021) section 6; its unit tests are the 51 calibration cases, apollo's test_error_path and the section 6 / 3.10 examples".into(),
        "apollo-compiler's documented choices are the named parameters of refmodel::exec::Params (all on)".into(),
        "error messages, locations and extensions are not compared".into(),
        "candidate operations are filtered by apollo's own validation (C17 judges that validation)".into(),
        "out of the alphabet: explicit null for a Boolean variable used in @skip/@include (spec text and graphql-js disagree); Int literals in Float / ID argument positions (1 vs 1.0 / \"1\" in JSON); argument and variable defaults that are not already in coerced form (C28); variable coercion itself (coerced maps are given, as the statement says); subscriptions; schema introspection enabled".into(),
    ];
    chk.exhaustive = true;
    chk.finish(&|case| {
        let mut st = Stats::default();
        replay(case, kf_open, &mut st);
        !st.failures.is_empty()
    })
}

fn node_count_public(sels: &[Selection]) -> usize {
    sels.iter()
        .map(|s| match s {
            Selection::Field(f) => 1 + node_count_public(&f.selection),
            Selection::Spread { .. } => 1,
            Selection::Inline { selection, .. } => 1 + node_count_public(selection),
        })
        .sum()
}
