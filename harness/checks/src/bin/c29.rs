//! C29 — type compatibility checks match the specification (DESIGN.md §6 C29).
//! E-INPUT, three exhaustive sweeps over all type references up to a list-nesting bound:
//!  (i)   `Type::is_assignable_to` (called directly) against `AreTypesCompatible`,
//!  (ii)  `is_variable_usage_allowed` (crate-private) observed through the validation verdict of
//!        `query($v: VT <default>) { f(x: $v) }` / `{ g @d(x: $v) }` against
//!        `type Query { f(x: LT <default>): Int  g: Int }  directive @d(x: LT <default>) on FIELD`,
//!  (iii) `is_valid_implementation_field_type` (crate-private) observed through the validation
//!        verdict of `interface I { f: IT }  type|interface O implements I { f: OT }`.
//! In (ii) and (iii) every other validation rule is satisfied by construction, and a rejection
//! counts as the predicate's verdict only if the rule's own diagnostic is among the errors.

use apollo_compiler::ast::Type;
use apollo_compiler::validation::DiagnosticList;
use apollo_compiler::{ExecutableDocument, Name, Schema};
use refmodel::ast::{
    Definition, Directive, DirectiveDef, Document, EnumValueDef, Field, FieldDef, InputValueDef, Operation,
    Selection, Ty, TypeDef, TypeKind, Value as Lit, VarDef,
};
use refmodel::compat::{self, Deviations, SimpleRelations};
use serde_json::{json, Value};
use vcore::{Check, Stats};

const KF_NULL_DEFAULT: &str = "C29-null-default-counts-as-default";

/// named types of sweep (i): no relation matters to AreTypesCompatible, identity only
const NAMES_ASSIGN: [&str; 5] = ["Int", "Obj", "Itf", "Uni", "Other"];
/// input-type names of sweep (ii)
const NAMES_INPUT: [&str; 4] = ["Int", "String", "In", "E"];
/// output-type names of sweep (iii): Obj implements Itf, Sub (interface) implements Itf,
/// Obj ∈ Uni, Other is unrelated
const NAMES_OUTPUT: [&str; 6] = ["Int", "Obj", "Itf", "Sub", "Uni", "Other"];

// ---------------------------------------------------------------------------------
// Type references up to a nesting bound
// ---------------------------------------------------------------------------------

/// Every type reference with at most `depth` list levels over `names`: `T`, `T!`, and `[t]`,
/// `[t]!` for every reference `t` one level shallower. (2·|names|·(2^(depth+1) − 1) types.)
fn type_refs(names: &[&str], depth: u32) -> Vec<Ty> {
    let mut level: Vec<Ty> = Vec::new();
    for n in names {
        level.push(Ty::named(n));
        level.push(Ty::named(n).non_null());
    }
    let mut all = level.clone();
    for _ in 0..depth {
        let mut next = Vec::new();
        for t in &level {
            next.push(t.clone().list());
            next.push(t.clone().list().non_null());
        }
        all.extend(next.iter().cloned());
        level = next;
    }
    all
}

fn to_real(t: &Ty) -> Type {
    match t {
        Ty::Named(n) => Type::Named(Name::new(n).expect("name")),
        Ty::List(i) => Type::List(Box::new(to_real(i))),
        Ty::NonNull(i) => match &**i {
            Ty::Named(n) => Type::NonNullNamed(Name::new(n).expect("name")),
            Ty::List(j) => Type::NonNullList(Box::new(to_real(j))),
            Ty::NonNull(_) => unreachable!("NonNull never wraps NonNull"),
        },
    }
}

/// a constant literal that is a valid, non-null value of exactly this type
fn literal_for(t: &Ty) -> Lit {
    match t {
        Ty::NonNull(i) => literal_for(i),
        Ty::List(i) => Lit::List(vec![literal_for(i)]),
        Ty::Named(n) => match n.as_str() {
            "Int" => Lit::int(1),
            "String" => Lit::str("s"),
            "In" => Lit::obj(&[("a", Lit::int(1))]),
            "E" => Lit::en("A"),
            other => panic!("no literal for {other}"),
        },
    }
}

fn diag_has(errors: &DiagnosticList, name: &str, text: &str) -> bool {
    errors
        .iter()
        .any(|d| d.error.unstable_error_name() == Some(name) || d.error.to_string().contains(text))
}

// ---------------------------------------------------------------------------------
// (i) is_assignable_to
// ---------------------------------------------------------------------------------

fn run_assign(a: &Ty, b: &Ty, st: &mut Stats) {
    st.states += 1;
    st.transitions += 1;
    let case = || json!({"part": "i", "a": a.to_string(), "b": b.to_string()});
    let size = (a.to_string().len() + b.to_string().len()) as u64;
    let (ra, rb) = (to_real(a), to_real(b));
    let real = match vcore::catch(|| ra.is_assignable_to(&rb)) {
        Ok(r) => r,
        Err(p) => {
            st.fail_simple("i:panic", case(), format!("is_assignable_to panicked: {p}"), size);
            return;
        }
    };
    let model = compat::are_types_compatible(a, b);
    if real != model {
        st.fail_simple(
            if real { "i:assignable-but-not-compatible" } else { "i:compatible-but-not-assignable" },
            case(),
            format!("`{a}`.is_assignable_to(`{b}`) = {real}, AreTypesCompatible({a}, {b}) = {model}"),
            size,
        );
        return;
    }
    if a != b && a.inner_name() == b.inner_name() {
        st.nontrivial += 1;
    }
    st.outcome(if model {
        if a == b {
            "i:compatible-identical"
        } else {
            "i:compatible-stricter-nullability"
        }
    } else if a.inner_name() != b.inner_name() {
        "i:incompatible-different-name"
    } else {
        "i:incompatible-structure"
    });
}

// ---------------------------------------------------------------------------------
// (ii) is_variable_usage_allowed through validation
// ---------------------------------------------------------------------------------

#[derive(Clone, Copy, PartialEq, Eq, Debug)]
enum VDef {
    None,
    Literal,
    Null,
}

impl VDef {
    fn name(self) -> &'static str {
        match self {
            VDef::None => "none",
            VDef::Literal => "literal",
            VDef::Null => "null",
        }
    }
    fn parse(s: &str) -> VDef {
        match s {
            "none" => VDef::None,
            "literal" => VDef::Literal,
            "null" => VDef::Null,
            other => panic!("bad vdef {other}"),
        }
    }
}

fn usage_schema(lt: &Ty, ldef: bool) -> Document {
    let mut arg = InputValueDef::new("x", lt.clone());
    if ldef {
        arg.default = Some(literal_for(lt));
    }
    let mut q = TypeDef::new(TypeKind::Object, "Query");
    let mut f = FieldDef::new("f", Ty::named("Int"));
    f.args.push(arg.clone());
    q.fields.push(f);
    q.fields.push(FieldDef::new("g", Ty::named("Int")));
    let mut i = TypeDef::new(TypeKind::Input, "In");
    i.input_fields.push(InputValueDef::new("a", Ty::named("Int")));
    let mut e = TypeDef::new(TypeKind::Enum, "E");
    e.values.push(EnumValueDef { description: None, name: "A".into(), directives: vec![] });
    let d = DirectiveDef {
        description: None,
        name: "d".into(),
        args: vec![arg],
        repeatable: false,
        locations: vec!["FIELD".into()],
    };
    Document { defs: vec![Definition::Type(q), Definition::Type(i), Definition::Type(e), Definition::Directive(d)] }
}

fn usage_operation(vt: &Ty, vdef: VDef, directive_position: bool) -> (Document, Option<Lit>) {
    let default = match vdef {
        VDef::None => None,
        VDef::Literal => Some(literal_for(vt)),
        VDef::Null => Some(Lit::Null),
    };
    let mut op = Operation::query(vec![]);
    op.vars.push(VarDef { name: "v".into(), ty: vt.clone(), default: default.clone(), directives: vec![] });
    let sel: Selection = if directive_position {
        Field::new("g").dir(Directive::with("d", &[("x", Lit::var("v"))])).into()
    } else {
        Field::new("f").arg("x", Lit::var("v")).into()
    };
    op.selection.push(sel);
    (Document { defs: vec![Definition::Operation(op)] }, default)
}

/// all cases of one (location type, location default): every variable type × variable default ×
/// usage position
fn run_usage_location(lt: &Ty, ldef: bool, vts: &[Ty], kf_open: bool, st: &mut Stats) {
    let sdl = usage_schema(lt, ldef).print();
    let schema = match vcore::catch(|| Schema::parse_and_validate(&sdl, "schema.graphql")) {
        Ok(Ok(s)) => s,
        Ok(Err(e)) => {
            st.fail_simple(
                "ii:setup-schema-rejected",
                json!({"part": "ii", "vt": "Int", "lt": lt.to_string(), "vdef": "none", "ldef": ldef, "pos": "field"}),
                format!("schema valid by construction is rejected: {sdl}  {}", vcore::short(&e.errors.to_string())),
                sdl.len() as u64,
            );
            return;
        }
        Err(p) => vcore::machinery_error(&format!("schema validation panicked on {sdl}: {p}")),
    };
    for vt in vts {
        for vdef in [VDef::None, VDef::Literal, VDef::Null] {
            if vdef == VDef::Null && vt.is_non_null() {
                continue; // `$v: T! = null` is not a valid document
            }
            for directive_position in [false, true] {
                run_usage(&schema, &sdl, lt, ldef, vt, vdef, directive_position, kf_open, st);
            }
        }
    }
}

#[allow(clippy::too_many_arguments)]
fn run_usage(
    schema: &apollo_compiler::validation::Valid<Schema>,
    sdl: &str,
    lt: &Ty,
    ldef: bool,
    vt: &Ty,
    vdef: VDef,
    directive_position: bool,
    kf_open: bool,
    st: &mut Stats,
) {
    st.states += 1;
    st.transitions += 1;
    let (doc, default) = usage_operation(vt, vdef, directive_position);
    let text = doc.print();
    let case = || {
        json!({"part": "ii", "vt": vt.to_string(), "lt": lt.to_string(), "vdef": vdef.name(), "ldef": ldef,
               "pos": if directive_position { "directive" } else { "field" }, "schema": sdl, "document": text})
    };
    let size = (text.len() + sdl.len()) as u64;
    let real = match vcore::catch(|| ExecutableDocument::parse_and_validate(schema, &text, "op.graphql")) {
        Ok(Ok(_)) => true,
        Ok(Err(e)) => {
            if !diag_has(&e.errors, "DisallowedVariableUsage", "cannot be used for argument") {
                st.fail_simple(
                    "ii:rejected-by-another-rule",
                    case(),
                    format!(
                        "the document is rejected without a variable-usage diagnostic (every other rule holds by construction): {}",
                        vcore::short(&e.errors.to_string())
                    ),
                    size,
                );
                return;
            }
            false
        }
        Err(p) => {
            st.fail_simple("ii:panic", case(), format!("validation panicked: {p}"), size);
            return;
        }
    };
    let strict = compat::is_variable_usage_allowed(vt, default.as_ref(), lt, ldef);
    if real != strict {
        if kf_open {
            let dev = Deviations { null_default_counts_as_default: true };
            let d = compat::is_variable_usage_allowed_with(vt, default.as_ref(), lt, ldef, dev);
            if d.allowed == real && d.null_default_fired {
                st.known(KF_NULL_DEFAULT, &format!("{text}  against  {sdl}"));
                st.nontrivial += 1;
                st.outcome("ii:known-finding");
                return;
            }
        }
        st.fail_simple(
            if real { "ii:allows-what-the-spec-forbids" } else { "ii:forbids-what-the-spec-allows" },
            case(),
            format!("{text}  against  {sdl}: apollo allowed={real}, IsVariableUsageAllowed={strict}"),
            size,
        );
        return;
    }
    let step3 = lt.is_non_null() && !vt.is_non_null();
    if step3 || (vt != lt && vt.inner_name() == lt.inner_name()) {
        st.nontrivial += 1;
    }
    st.outcome(match (strict, step3) {
        (true, true) => {
            if default.as_ref().is_some_and(|d| *d != Lit::Null) {
                "ii:allowed-by-variable-default"
            } else {
                "ii:allowed-by-location-default"
            }
        }
        (true, false) => "ii:allowed-compatible",
        (false, true) => {
            if default.as_ref().is_some_and(|d| *d != Lit::Null) || ldef {
                "ii:rejected-incompatible-despite-default"
            } else {
                "ii:rejected-nullable-into-non-null"
            }
        }
        (false, false) => "ii:rejected-incompatible",
    });
}

// ---------------------------------------------------------------------------------
// (iii) is_valid_implementation_field_type through schema validation
// ---------------------------------------------------------------------------------

fn implementation_schema(it: &Ty, ot: &Ty, implementer_is_interface: bool) -> Document {
    let id = || FieldDef::new("id", Ty::named("Int"));
    let mut q = TypeDef::new(TypeKind::Object, "Query");
    q.fields.push(FieldDef::new("q", Ty::named("Int")));
    let mut itf = TypeDef::new(TypeKind::Interface, "Itf");
    itf.fields.push(id());
    let mut sub = TypeDef::new(TypeKind::Interface, "Sub");
    sub.implements.push("Itf".into());
    sub.fields.push(id());
    let mut obj = TypeDef::new(TypeKind::Object, "Obj");
    obj.implements.push("Itf".into());
    obj.fields.push(id());
    let mut other = TypeDef::new(TypeKind::Object, "Other");
    other.fields.push(id());
    let mut uni = TypeDef::new(TypeKind::Union, "Uni");
    uni.members.push("Obj".into());
    let mut i = TypeDef::new(TypeKind::Interface, "I");
    i.fields.push(FieldDef::new("f", it.clone()));
    let mut o = TypeDef::new(if implementer_is_interface { TypeKind::Interface } else { TypeKind::Object }, "O");
    o.implements.push("I".into());
    o.fields.push(FieldDef::new("f", ot.clone()));
    Document { defs: [q, itf, sub, obj, other, uni, i, o].into_iter().map(Definition::Type).collect() }
}

fn run_implementation(it: &Ty, ot: &Ty, implementer_is_interface: bool, st: &mut Stats) {
    st.states += 1;
    st.transitions += 1;
    let doc = implementation_schema(it, ot, implementer_is_interface);
    let sdl = doc.print();
    let case = || {
        json!({"part": "iii", "it": it.to_string(), "ot": ot.to_string(),
               "impl": if implementer_is_interface { "interface" } else { "object" }, "schema": sdl})
    };
    let size = sdl.len() as u64;
    let real = match vcore::catch(|| Schema::parse_and_validate(&sdl, "schema.graphql")) {
        Ok(Ok(_)) => true,
        Ok(Err(e)) => {
            if !diag_has(&e.errors, "InvalidImplementationFieldType", "is not a proper subtype") {
                st.fail_simple(
                    "iii:rejected-by-another-rule",
                    case(),
                    format!(
                        "the schema is rejected without an implementation-field-type diagnostic (every other rule holds by construction): {}",
                        vcore::short(&e.errors.to_string())
                    ),
                    size,
                );
                return;
            }
            false
        }
        Err(p) => {
            st.fail_simple("iii:panic", case(), format!("schema validation panicked: {p}"), size);
            return;
        }
    };
    let rel = SimpleRelations::from_document(&doc);
    let model = compat::is_valid_implementation_field_type(ot, it, &rel);
    if real != model {
        st.fail_simple(
            if real { "iii:accepts-invalid-implementation-type" } else { "iii:rejects-valid-implementation-type" },
            case(),
            format!(
                "interface I {{ f: {it} }}  {} O implements I {{ f: {ot} }}: apollo valid={real}, IsValidImplementationFieldType({ot}, {it})={model}",
                if implementer_is_interface { "interface" } else { "type" }
            ),
            size,
        );
        return;
    }
    let related = it.inner_name() == ot.inner_name()
        || compat::is_valid_implementation_field_type(&Ty::named(ot.inner_name()), &Ty::named(it.inner_name()), &rel)
        || compat::is_valid_implementation_field_type(&Ty::named(it.inner_name()), &Ty::named(ot.inner_name()), &rel);
    if it != ot && related {
        st.nontrivial += 1;
    }
    st.outcome(if model {
        if it == ot {
            "iii:valid-identical"
        } else if it.inner_name() == ot.inner_name() {
            "iii:valid-covariant-nullability"
        } else {
            "iii:valid-subtype"
        }
    } else if !related {
        "iii:invalid-unrelated-names"
    } else if it.inner_name() != ot.inner_name()
        && !compat::is_valid_implementation_field_type(&Ty::named(ot.inner_name()), &Ty::named(it.inner_name()), &rel)
    {
        "iii:invalid-supertype"
    } else {
        "iii:invalid-structure"
    });
}

/// (iii-b) one implementer, TWO interfaces that both define `f`: the implementing type must be
/// valid for each of them (a check that stops after the first interface is wrong).
fn run_two_interfaces(it1: &Ty, it2: &Ty, ot: &Ty, implementer_is_interface: bool, st: &mut Stats) {
    st.states += 1;
    st.transitions += 1;
    let mut doc = implementation_schema(it1, ot, implementer_is_interface);
    let mut i2 = TypeDef::new(TypeKind::Interface, "I2");
    i2.fields.push(FieldDef::new("f", it2.clone()));
    for d in doc.defs.iter_mut() {
        if let Definition::Type(t) = d {
            if t.name == "O" {
                t.implements.push("I2".into());
            }
        }
    }
    doc.defs.push(Definition::Type(i2));
    let sdl = doc.print();
    let case = || {
        json!({"part": "iii-b", "it": it1.to_string(), "it2": it2.to_string(), "ot": ot.to_string(),
               "impl": if implementer_is_interface { "interface" } else { "object" }, "schema": sdl})
    };
    let size = sdl.len() as u64;
    let real = match vcore::catch(|| Schema::parse_and_validate(&sdl, "schema.graphql")) {
        Ok(Ok(_)) => true,
        Ok(Err(e)) => {
            if !diag_has(&e.errors, "InvalidImplementationFieldType", "is not a proper subtype") {
                st.fail_simple("iii:rejected-by-another-rule", case(), format!("rejected without an implementation-field-type diagnostic: {}", vcore::short(&e.errors.to_string())), size);
                return;
            }
            false
        }
        Err(p) => {
            st.fail_simple("iii:panic", case(), format!("schema validation panicked: {p}"), size);
            return;
        }
    };
    let rel = SimpleRelations::from_document(&doc);
    let (m1, m2) = (compat::is_valid_implementation_field_type(ot, it1, &rel), compat::is_valid_implementation_field_type(ot, it2, &rel));
    if real != (m1 && m2) {
        st.fail_simple(
            if real { "iii:accepts-invalid-implementation-type" } else { "iii:rejects-valid-implementation-type" },
            case(),
            format!("I {{ f: {it1} }} I2 {{ f: {it2} }}  O implements I & I2 {{ f: {ot} }}: apollo valid={real}, valid for I={m1}, valid for I2={m2}"),
            size,
        );
        return;
    }
    if m1 != m2 {
        st.nontrivial += 1;
    }
    st.outcome(match (m1, m2) {
        (true, true) => "iii-b:valid for both interfaces",
        (true, false) => "iii-b:valid for the first interface only",
        (false, true) => "iii-b:valid for the second interface only",
        (false, false) => "iii-b:valid for neither",
    });
}

// ---------------------------------------------------------------------------------

fn run_case_json(case: &Value, kf_open: bool, st: &mut Stats) {
    let ty = |k: &str| Ty::parse(case[k].as_str().unwrap_or_else(|| panic!("replay case lacks {k}")));
    match case["part"].as_str() {
        Some("i") => run_assign(&ty("a"), &ty("b"), st),
        Some("ii") => {
            let (lt, ldef) = (ty("lt"), case["ldef"].as_bool().unwrap_or(false));
            let sdl = usage_schema(&lt, ldef).print();
            match Schema::parse_and_validate(&sdl, "schema.graphql") {
                Ok(schema) => run_usage(
                    &schema,
                    &sdl,
                    &lt,
                    ldef,
                    &ty("vt"),
                    VDef::parse(case["vdef"].as_str().unwrap_or("none")),
                    case["pos"].as_str() == Some("directive"),
                    kf_open,
                    st,
                ),
                Err(_) => run_usage_location(&lt, ldef, &[], kf_open, st),
            }
        }
        Some("iii-b") => run_two_interfaces(&ty("it"), &ty("it2"), &ty("ot"), case["impl"].as_str() == Some("interface"), st),
        Some("iii") => run_implementation(&ty("it"), &ty("ot"), case["impl"].as_str() == Some("interface"), st),
        other => vcore::machinery_error(&format!("bad replay case part {other:?}")),
    }
}

fn main() {
    let mut chk = Check::new("C29");
    vcore::quiet_panics();
    let kf_open = chk.known.is_open(KF_NULL_DEFAULT);
    if let Some(case) = chk.replay_case() {
        let mut st = Stats::default();
        run_case_json(&case, kf_open, &mut st);
        chk.absorb(st);
        chk.finish_replay();
    }
    let tier = chk.tier();
    let (d1, d2, d3) = (tier.pick(4u32, 5), tier.pick(3u32, 4), tier.pick(3u32, 4));

    // (i)
    let t1 = type_refs(&NAMES_ASSIGN, d1);
    let n1 = t1.len() as u64;
    let s = vcore::par_sweep(n1 * n1, 4096, |i, st| {
        let (a, b) = (&t1[(i / n1) as usize], &t1[(i % n1) as usize]);
        if i % (n1 * n1 / 3 + 1) == n1 * n1 / 5 {
            st.sample(json!({"part": "i", "a": a.to_string(), "b": b.to_string()}));
        }
        run_assign(a, b, st);
    });
    println!("(i) types {} pairs {}", n1, n1 * n1);
    chk.absorb(s);

    // (ii)
    let t2 = type_refs(&NAMES_INPUT, d2);
    let locs: Vec<(Ty, bool)> = t2.iter().flat_map(|t| [(t.clone(), false), (t.clone(), true)]).collect();
    let s = vcore::par_items(&locs, |(lt, ldef), st| {
        if lt.to_string() == "[Int!]" {
            let (d, _) = usage_operation(&Ty::parse("[Int]"), VDef::Null, !*ldef);
            st.sample(json!({"part": "ii", "schema": usage_schema(lt, *ldef).print(), "document": d.print()}));
        }
        run_usage_location(lt, *ldef, &t2, kf_open, st)
    });
    println!("(ii) types {} documents {}", t2.len(), s.states);
    let n2 = s.states;
    chk.absorb(s);

    // (iii)
    let t3 = type_refs(&NAMES_OUTPUT, d3);
    let s = vcore::par_items(&t3, |it, st| {
        if it.to_string() == "[Itf]!" {
            st.sample(json!({"part": "iii", "schema": implementation_schema(it, &Ty::parse("[Obj!]!"), false).print()}));
        }
        for ot in &t3 {
            for k in [false, true] {
                run_implementation(it, ot, k, st);
            }
        }
    });
    println!("(iii) types {} schemas {}", t3.len(), s.states);
    let n3 = s.states;
    chk.absorb(s);
    // (iii-b) two interfaces, type references of nesting <= 1
    let t3b = type_refs(&NAMES_OUTPUT, 1);
    let s = vcore::par_items(&t3b, |it1, st| {
        for it2 in &t3b {
            for ot in &t3b {
                run_two_interfaces(it1, it2, ot, false, st);
            }
        }
    });
    println!("(iii-b) types {} schemas {}", t3b.len(), s.states);
    chk.absorb(s);

    chk.bounds = json!({
        "i": {"names": NAMES_ASSIGN, "max_list_nesting": d1, "types": n1, "ordered_pairs": n1 * n1},
        "ii": {"names": NAMES_INPUT, "max_list_nesting": d2, "types": t2.len(),
               "variable_default": ["none", "type-correct non-null literal", "null (nullable variable types only)"],
               "location_default": ["none", "type-correct non-null literal"],
               "position": ["field argument", "directive argument"], "documents": n2},
        "iii": {"names": NAMES_OUTPUT, "relations": "Obj implements Itf; interface Sub implements Itf; union Uni = Obj; Other unrelated",
                "max_list_nesting": d3, "types": t3.len(), "implementer": ["object type", "interface type"], "schemas": n3},
    });
    chk.rule = "every ordered pair of type references up to the nesting bound (× defaults × position / implementer kind); \
                non-trivial = the two references differ but share (or are subtype-related in) their innermost named type, \
                or step 3 of IsVariableUsageAllowed (non-null location, nullable variable) is entered"
        .into();
    chk.assumptions = vec![
        "refmodel::compat transcribes AreTypesCompatible, IsVariableUsageAllowed (spec §5.8.5) and IsValidImplementationFieldType (spec §3.6) line by line; unit tests are the spec's examples".into(),
        "is_assignable_to(self = variable type, target = location type) is compared with AreTypesCompatible(variableType, locationType), the relation its doc comment names: identical named types, no subtyping".into(),
        "(ii) and (iii) observe crate-private predicates through validation verdicts of minimal documents in which every other rule holds by construction; a rejection must carry the rule's own diagnostic (DisallowedVariableUsage / InvalidImplementationFieldType)".into(),
        "(ii) covers variable usages in field-argument and directive-argument positions; usages nested in list/object literals belong to C17".into(),
    ];
    chk.exhaustive = true;
    chk.finish(&|case| {
        let mut st = Stats::default();
        run_case_json(case, kf_open, &mut st);
        !st.failures.is_empty()
    })
}
