//! C31 — File ids are unique and shared state is thread-safe.
//!
//! Three parts (DESIGN §6 C31):
//!
//! * **Model A (loom, hook H1)** — the *real* `FileId::new` runs on 2–3 loom threads, 1–2
//!   allocations each, with the file-id counter's atomic (`parser::NEXT`) backed by a
//!   `loom::sync::atomic::AtomicU64` through the cfg-guarded seam `verif_hooks::AtomicU64`.
//!   loom enumerates every interleaving of the atomic operations (DPOR; with and without a
//!   preemption bound). Counter started at its initial value and just below 2^63 (up to, never
//!   across, the wrap). Oracle per execution: all ids pairwise distinct, none reserved (1, 2), tag
//!   bit clear.
//! * **Model B (loom)** — two/three loom threads each parse + validate a document against a
//!   shared `Arc<Valid<Schema>>` (and introspect it); the id counter is the scheduling point. The
//!   rendered results must equal the sequential ones in every interleaving.
//! * **Packing lattice (E-INPUT)** — every id with ≤ 3 (thorough: ≤ 4 on a reduced bit set) bits
//!   set below bit 63 plus every run of ones, × both tags, observed through the public API
//!   (`Name::with_location` / `location()` / `as_static_str` / `to_cloned_arc`).
//!
//! Every loom model runs in a child process (loom failures can abort); a child that dies is a
//! machinery error unless it printed a verdict.

use apollo_compiler::parser::FileId;
use apollo_compiler::validation::Valid;
use apollo_compiler::verif_hooks::{install_atomic_u64_backend, AtomicU64Backend};
use apollo_compiler::{ExecutableDocument, Name, Schema};
use rayon::prelude::*;
use serde_json::{json, Value};
use std::collections::BTreeSet;
use std::sync::atomic::{AtomicBool, AtomicU64 as StdAtomicU64, Ordering};
use std::sync::{Arc, Mutex};
use vcore::Stats;

const TAG: u64 = 1 << 63;

// ---------------------------------------------------------------------------------------------
// loom backend for the seam
// ---------------------------------------------------------------------------------------------

static LOOM_ACTIVE: AtomicBool = AtomicBool::new(false);
static INIT_HINT: StdAtomicU64 = StdAtomicU64::new(0);
static FALLBACK: StdAtomicU64 = StdAtomicU64::new(0);
static FALLBACK_INIT: AtomicBool = AtomicBool::new(false);
static OPS: StdAtomicU64 = StdAtomicU64::new(0);

loom::lazy_static! {
    static ref LOOM_NEXT: loom::sync::atomic::AtomicU64 =
        loom::sync::atomic::AtomicU64::new(INIT_HINT.load(Ordering::SeqCst));
}

struct LoomBackend;

impl LoomBackend {
    fn hint(&self, init: u64) {
        let prev = INIT_HINT.swap(init, Ordering::SeqCst);
        if prev != 0 && prev != init {
            // a second wrapped static appeared in apollo-compiler: this backend models one.
            println!("MACHINERY-ERROR second seam atomic with init {init} (first had {prev})");
            std::process::exit(2);
        }
        OPS.fetch_add(1, Ordering::Relaxed);
    }
    fn fallback(&self, init: u64) -> &'static StdAtomicU64 {
        if !FALLBACK_INIT.swap(true, Ordering::SeqCst) {
            FALLBACK.store(init, Ordering::SeqCst);
        }
        &FALLBACK
    }
}

impl AtomicU64Backend for LoomBackend {
    fn load(&self, init: u64, order: Ordering) -> u64 {
        self.hint(init);
        if LOOM_ACTIVE.load(Ordering::SeqCst) {
            LOOM_NEXT.load(order)
        } else {
            self.fallback(init).load(order)
        }
    }
    fn store(&self, init: u64, val: u64, order: Ordering) {
        self.hint(init);
        if LOOM_ACTIVE.load(Ordering::SeqCst) {
            LOOM_NEXT.store(val, order)
        } else {
            self.fallback(init).store(val, order)
        }
    }
    fn swap(&self, init: u64, val: u64, order: Ordering) -> u64 {
        self.hint(init);
        if LOOM_ACTIVE.load(Ordering::SeqCst) {
            LOOM_NEXT.swap(val, order)
        } else {
            self.fallback(init).swap(val, order)
        }
    }
    fn fetch_add(&self, init: u64, val: u64, order: Ordering) -> u64 {
        self.hint(init);
        if LOOM_ACTIVE.load(Ordering::SeqCst) {
            LOOM_NEXT.fetch_add(val, order)
        } else {
            self.fallback(init).fetch_add(val, order)
        }
    }
    fn fetch_sub(&self, init: u64, val: u64, order: Ordering) -> u64 {
        self.hint(init);
        if LOOM_ACTIVE.load(Ordering::SeqCst) {
            LOOM_NEXT.fetch_sub(val, order)
        } else {
            self.fallback(init).fetch_sub(val, order)
        }
    }
    fn compare_exchange(&self, init: u64, cur: u64, new: u64, s: Ordering, f: Ordering) -> Result<u64, u64> {
        self.hint(init);
        if LOOM_ACTIVE.load(Ordering::SeqCst) {
            LOOM_NEXT.compare_exchange(cur, new, s, f)
        } else {
            self.fallback(init).compare_exchange(cur, new, s, f)
        }
    }
}

static BACKEND: LoomBackend = LoomBackend;

fn id_of(f: FileId) -> u64 {
    format!("{f:?}").parse::<u64>().unwrap_or(0)
}

// ---------------------------------------------------------------------------------------------
// model specifications
// ---------------------------------------------------------------------------------------------

#[derive(Clone, Debug)]
struct Spec {
    model: String, // "A" | "B"
    threads: usize,
    per_thread: usize,
    /// None = the counter's own initial value; Some(s) = positioned with verif_set_next
    start: Option<u64>,
    /// None = unbounded DPOR
    bound: Option<usize>,
}

impl Spec {
    fn to_json(&self) -> Value {
        json!({"model": self.model, "threads": self.threads, "per_thread": self.per_thread,
               "start": self.start.map(|s| s.to_string()), "preemption_bound": self.bound})
    }
    fn from_json(v: &Value) -> Option<Spec> {
        Some(Spec {
            model: v["model"].as_str()?.to_string(),
            threads: v["threads"].as_u64()? as usize,
            per_thread: v["per_thread"].as_u64()? as usize,
            start: match &v["start"] {
                Value::Null => None,
                Value::String(s) => Some(s.parse().ok()?),
                _ => return None,
            },
            bound: v["preemption_bound"].as_u64().map(|b| b as usize),
        })
    }
    fn label(&self) -> String {
        format!(
            "{}:{}x{}:{}:{}",
            self.model,
            self.threads,
            self.per_thread,
            match self.start {
                None => "initial".to_string(),
                Some(s) if s > TAG / 2 => format!("2^63-{}", TAG - s),
                Some(s) => s.to_string(),
            },
            match self.bound {
                None => "unbounded".to_string(),
                Some(b) => format!("pb{b}"),
            }
        )
    }
}

fn specs(thorough: bool) -> Vec<Spec> {
    let mut v = Vec::new();
    let near = |n: usize| Some(TAG - n as u64);
    let mut a = |threads: usize, per: usize, start: Option<u64>, bound: Option<usize>| {
        v.push(Spec { model: "A".into(), threads, per_thread: per, start, bound });
    };
    // 2 threads: unbounded
    for per in [1usize, 2, 3] {
        a(2, per, None, None);
        a(2, per, near(2 * per), None);
    }
    // 3 threads
    for per in [1usize, 2] {
        a(3, per, None, Some(2));
        a(3, per, near(3 * per), Some(2));
    }
    a(3, 1, None, None);
    // across the wrap (start closer to 2^63 than the number of allocations): distinctness is not
    // demanded there, but no id may carry the tag bit or be reserved, under every interleaving of
    // the overflow path (fetch, reset, retry)
    a(2, 1, near(1), None);
    a(2, 2, near(1), Some(3));
    a(2, 2, near(2), Some(3));
    a(2, 2, near(3), Some(3));
    a(3, 1, near(1), Some(2));
    a(3, 1, near(2), Some(2));
    if thorough {
        a(3, 2, near(1), Some(2));
        a(3, 2, near(3), Some(2));
        a(2, 3, near(2), Some(3));
        a(3, 2, None, Some(3));
        a(3, 2, near(6), Some(3));
        a(3, 2, None, None);
        a(3, 3, None, Some(2));
        a(4, 1, None, None);
        a(4, 2, None, Some(2));
        a(2, 4, None, None);
        a(2, 5, None, Some(3));
    }
    let mut b = |threads: usize, start: Option<u64>, bound: Option<usize>| {
        v.push(Spec { model: "B".into(), threads, per_thread: 1, start, bound });
    };
    b(2, None, None);
    b(2, near(64), None);
    if thorough {
        b(3, None, Some(2));
        b(3, None, None);
    }
    v
}

// ---------------------------------------------------------------------------------------------
// child: run one loom model
// ---------------------------------------------------------------------------------------------

#[derive(Default)]
struct ModelOut {
    executions: u64,
    bad: Vec<Value>, // failing executions (first few)
    bad_count: u64,
    outcomes: BTreeSet<String>,
}

fn loom_builder(bound: Option<usize>) -> loom::model::Builder {
    let mut b = loom::model::Builder::new();
    b.preemption_bound = bound;
    b.max_branches = 100_000;
    b.max_threads = 5;
    b
}

fn run_model_a(spec: &Spec) -> ModelOut {
    let out = Arc::new(Mutex::new(ModelOut::default()));
    let o2 = out.clone();
    let (threads, per, start) = (spec.threads, spec.per_thread, spec.start);
    loom_builder(spec.bound).check(move || {
        LOOM_ACTIVE.store(true, Ordering::SeqCst);
        if let Some(s) = start {
            FileId::verif_set_next(s);
        }
        let hs: Vec<_> = (0..threads)
            .map(|_| loom::thread::spawn(move || (0..per).map(|_| id_of(FileId::new())).collect::<Vec<u64>>()))
            .collect();
        let per_thread: Vec<Vec<u64>> = hs.into_iter().map(|h| h.join().unwrap()).collect();
        LOOM_ACTIVE.store(false, Ordering::SeqCst);
        let all: Vec<u64> = per_thread.iter().flatten().copied().collect();
        let set: BTreeSet<u64> = all.iter().copied().collect();
        let mut problems = Vec::new();
        let crosses_wrap = start.map_or(false, |s| s + (threads * per) as u64 > TAG);
        if set.len() != all.len() && !crosses_wrap {
            problems.push("duplicate file id");
        }
        if all.iter().any(|&i| i == 1 || i == 2 || i == 0) {
            problems.push("reserved file id handed out");
        }
        if all.iter().any(|&i| i & TAG != 0) {
            problems.push("file id with the tag bit set");
        }
        let mut o = o2.lock().unwrap();
        o.executions += 1;
        // outcome = which thread got the smallest id, and the id set relative to the start
        let first = per_thread
            .iter()
            .enumerate()
            .min_by_key(|(_, v)| v.iter().min().copied().unwrap_or(u64::MAX))
            .map(|(i, _)| i)
            .unwrap_or(0);
        let order: Vec<String> = {
            let mut owners: Vec<(u64, usize)> =
                per_thread.iter().enumerate().flat_map(|(t, v)| v.iter().map(move |&i| (i, t))).collect();
            owners.sort();
            owners.iter().map(|(_, t)| t.to_string()).collect()
        };
        let _ = first;
        o.outcomes.insert(order.join(""));
        if !problems.is_empty() {
            o.bad_count += 1;
            if o.bad.len() < 3 {
                let ids: Vec<Vec<String>> =
                    per_thread.iter().map(|v| v.iter().map(|i| i.to_string()).collect()).collect();
                o.bad.push(json!({"problems": problems, "ids_per_thread": ids}));
            }
        }
    });
    Arc::try_unwrap(out).ok().map(|m| m.into_inner().unwrap()).unwrap_or_default()
}

const SCHEMA_B: &str = r#"
type Query { a: Int, b(x: Int = 1): String, obj: Obj }
type Obj implements I { a: Int, id: ID! }
interface I { a: Int }
"#;

const DOCS_B: [(&str, &str); 3] = [
    ("one.graphql", "query Q1 { a obj { a id } }"),
    // invalid: unknown field + unused variable → diagnostics that print the file name and source
    ("two.graphql", "query Q2($v: Int) {\n  b(x: 2)\n  nope\n}"),
    ("three.graphql", "{ __schema { queryType { name } types { name kind } } obj { ...F } } fragment F on I { a }"),
];

/// One workload: parse + validate (and, when valid, introspect / re-serialize); the rendering
/// contains everything except raw file-id numbers.
fn workload_b(schema: &Valid<Schema>, i: usize) -> String {
    let (path, text) = DOCS_B[i % DOCS_B.len()];
    match ExecutableDocument::parse_and_validate(schema, text, path) {
        Ok(doc) => {
            let mut s = format!("valid\n{doc}\n");
            if let Ok(op) = doc.operations.get(None) {
                if let Ok(vars) = apollo_compiler::request::coerce_variable_values(
                    schema,
                    op,
                    &apollo_compiler::response::JsonMap::new(),
                ) {
                    let impls = schema.implementers_map();
                    match apollo_compiler::introspection::partial_execute(schema, &impls, &doc, op, &vars) {
                        Ok(resp) => s.push_str(&serde_json::to_string(&resp).unwrap_or_default()),
                        Err(e) => s.push_str(&format!("request error: {}", e.message())),
                    }
                }
            }
            // every name of the document must point into the document's own source
            for op in doc.operations.iter() {
                if let Some(n) = &op.name {
                    if let Some(loc) = n.location() {
                        let src = doc.sources.get(&loc.file_id()).map(|f| f.path().display().to_string());
                        s.push_str(&format!("\nopname {} in {:?}", n, src));
                    }
                }
            }
            s
        }
        Err(e) => format!("invalid\n{}\n{}", e.errors, serde_json::to_string(&e.errors.iter().map(|d| d.to_json()).collect::<Vec<_>>()).unwrap_or_default()),
    }
}

fn run_model_b(spec: &Spec) -> ModelOut {
    // sequential reference (and warm-up of every lazily initialised static), outside loom
    let schema = Arc::new(Schema::parse_and_validate(SCHEMA_B, "schema.graphql").expect("fixture schema"));
    let expected: Arc<Vec<String>> = Arc::new((0..spec.threads).map(|i| workload_b(&schema, i)).collect());
    let again: Vec<String> = (0..spec.threads).map(|i| workload_b(&schema, i)).collect();
    if *expected != again {
        println!("MACHINERY-ERROR model B workload is not deterministic sequentially");
        std::process::exit(2);
    }
    let out = Arc::new(Mutex::new(ModelOut::default()));
    let o2 = out.clone();
    let (threads, start) = (spec.threads, spec.start);
    loom_builder(spec.bound).check(move || {
        LOOM_ACTIVE.store(true, Ordering::SeqCst);
        // the loom-backed counter continues where the plain one (used for the shared schema and
        // the sequential reference, outside the model) stopped, as one real counter would
        FileId::verif_set_next(start.unwrap_or_else(|| FALLBACK.load(Ordering::SeqCst)));
        let hs: Vec<_> = (0..threads)
            .map(|i| {
                let schema = schema.clone();
                loom::thread::Builder::new()
                    .stack_size(4 << 20)
                    .spawn(move || {
                        let before = OPS.load(Ordering::Relaxed);
                        let r = workload_b(&schema, i);
                        (r, OPS.load(Ordering::Relaxed) - before)
                    })
                    .unwrap()
            })
            .collect();
        let got: Vec<(String, u64)> = hs.into_iter().map(|h| h.join().unwrap()).collect();
        LOOM_ACTIVE.store(false, Ordering::SeqCst);
        let mut o = o2.lock().unwrap();
        o.executions += 1;
        o.outcomes.insert(format!("{:?}", got.iter().map(|g| g.1).collect::<Vec<_>>()));
        for (i, (g, _)) in got.iter().enumerate() {
            if g != &expected[i] {
                o.bad_count += 1;
                if o.bad.len() < 3 {
                    o.bad.push(json!({"problems": ["concurrent result differs from sequential"], "thread": i,
                        "expected": vcore::short(&expected[i]), "got": vcore::short(g)}));
                }
            }
        }
    });
    Arc::try_unwrap(out).ok().map(|m| m.into_inner().unwrap()).unwrap_or_default()
}

fn child_main(spec_text: &str) -> ! {
    let v: Value = serde_json::from_str(spec_text).unwrap_or(Value::Null);
    let Some(spec) = Spec::from_json(&v) else {
        println!("MACHINERY-ERROR bad child spec");
        std::process::exit(2)
    };
    if !install_atomic_u64_backend(&BACKEND) {
        println!("MACHINERY-ERROR backend already installed");
        std::process::exit(2);
    }
    let out = if spec.model == "A" { run_model_a(&spec) } else { run_model_b(&spec) };
    let ops = OPS.load(Ordering::Relaxed);
    println!(
        "LOOMRESULT {}",
        json!({"executions": out.executions, "bad_count": out.bad_count, "bad": out.bad,
               "distinct_outcomes": out.outcomes.len(), "seam_ops": ops,
               "outcomes": out.outcomes.iter().take(8).collect::<Vec<_>>()})
    );
    std::process::exit(0)
}

fn run_child(spec: &Spec) -> Result<Value, String> {
    let exe = std::env::current_exe().map_err(|e| e.to_string())?;
    let out = std::process::Command::new(exe)
        .arg("--child-loom")
        .arg(spec.to_json().to_string())
        .env("RUST_BACKTRACE", "0")
        .output()
        .map_err(|e| e.to_string())?;
    let stdout = String::from_utf8_lossy(&out.stdout);
    for l in stdout.lines() {
        if let Some(rest) = l.strip_prefix("LOOMRESULT ") {
            return serde_json::from_str(rest).map_err(|e| e.to_string());
        }
    }
    Err(format!(
        "child {} died without a result (status {:?}): {} {}",
        spec.label(),
        out.status.code(),
        vcore::short(&stdout),
        vcore::short(&String::from_utf8_lossy(&out.stderr))
    ))
}

// ---------------------------------------------------------------------------------------------
// packing lattice (in-process, plain atomic path of the seam)
// ---------------------------------------------------------------------------------------------

fn lattice(thorough: bool) -> Vec<u64> {
    let mut ids = BTreeSet::new();
    let bits: Vec<u32> = (0..63).collect();
    for &a in &bits {
        ids.insert(1u64 << a);
        for &b in &bits[..] {
            if b < a {
                ids.insert((1u64 << a) | (1u64 << b));
                for &c in &bits[..] {
                    if c < b {
                        ids.insert((1u64 << a) | (1u64 << b) | (1u64 << c));
                    }
                }
            }
        }
    }
    // runs of ones [lo, hi]
    for hi in 0..63u32 {
        for lo in 0..=hi {
            let run = if hi - lo + 1 == 64 { u64::MAX } else { ((1u128 << (hi - lo + 1)) - 1) as u64 } << lo;
            ids.insert(run & !TAG);
        }
    }
    if thorough {
        // complements of ≤ 2 bits inside the 63-bit range, and 4-bit combinations over 24 spread bits
        let all = !TAG;
        for a in 0..63u32 {
            ids.insert(all & !(1u64 << a));
            for b in 0..a {
                ids.insert(all & !(1u64 << a) & !(1u64 << b));
            }
        }
        let sel: Vec<u32> = (0..63).filter(|b| b % 8 <= 2).collect();
        for (i, &a) in sel.iter().enumerate() {
            for (j, &b) in sel.iter().enumerate().skip(i + 1) {
                for (k, &c) in sel.iter().enumerate().skip(j + 1) {
                    for &d in sel.iter().skip(k + 1) {
                        ids.insert((1u64 << a) | (1u64 << b) | (1u64 << c) | (1u64 << d));
                    }
                }
            }
        }
    }
    // 0 is not an id; 1 (BUILT_IN) and 2 (NONE = "no location") are reserved and never handed out
    ids.remove(&0);
    ids.remove(&1);
    ids.remove(&2);
    ids.into_iter().collect()
}

/// One lattice point: position the counter, let the real parser allocate exactly that id, and
/// observe the id through names carrying both tags.
fn pack_case(id: u64, st: &mut Stats) {
    st.states += 1;
    let case = json!({"part": "pack", "id": id.to_string()});
    let r = vcore::catch(|| -> Result<(), String> {
        FileId::verif_set_next(id);
        let doc = apollo_compiler::ast::Document::parse("type Abc { f: Int }", "p.graphql")
            .map_err(|e| format!("fixture does not parse: {}", e.errors))?;
        let (fid, file) = doc.sources.iter().next().ok_or("no source")?;
        let _ = file;
        if id_of(*fid) != id {
            return Err(format!("parser allocated id {} instead of {id}", id_of(*fid)));
        }
        let def = doc.definitions.first().ok_or("no definition")?;
        let name: Name = def.name().cloned().ok_or("no name")?;
        // heap-tagged name (Arc<str>)
        let loc = name.location().ok_or("parsed name has no location")?;
        if loc.file_id() != *fid {
            return Err(format!("heap name: location file id {:?} != {:?}", loc.file_id(), fid));
        }
        if name.as_static_str().is_some() {
            return Err("heap name reports a static string".into());
        }
        let arc = name.to_cloned_arc().ok_or("heap name has no Arc")?;
        if &*arc != "Abc" || name.as_str() != "Abc" {
            return Err("heap name text changed".into());
        }
        let c = name.clone();
        if c.location() != Some(loc) || c.as_str() != "Abc" {
            return Err("clone of heap name differs".into());
        }
        // static-tagged name with the same location
        let sname = Name::new_static("Abc").map_err(|e| e.to_string())?.with_location(loc);
        let sloc = sname.location().ok_or("static name lost its location")?;
        if sloc != loc || sloc.file_id() != *fid {
            return Err(format!("static name: location {:?} != {:?}", sloc, loc));
        }
        if sname.as_static_str() != Some("Abc") {
            return Err("static name does not report its static string".into());
        }
        if sname.to_cloned_arc().is_some() {
            return Err("static name reports an Arc".into());
        }
        if sname != name {
            return Err("names with equal text compare unequal".into());
        }
        // re-tag: heap name moved onto the same span again (pack with the heap tag)
        let h2 = Name::new("Abc").map_err(|e| e.to_string())?.with_location(loc);
        if h2.location() != Some(loc) || h2.as_static_str().is_some() || h2.to_cloned_arc().as_deref() != Some("Abc") {
            return Err("heap name after with_location differs".into());
        }
        drop((c, sname, h2, name, arc));
        Ok(())
    });
    st.transitions += 1;
    st.nontrivial += 1;
    match r {
        Ok(Ok(())) => st.outcome(&format!("pack ok, {} bit(s) set", id.count_ones().min(5))),
        Ok(Err(e)) => st.fail_simple("pack-unpack", case, e, id.count_ones() as u64 * 100 + (64 - id.leading_zeros() as u64)),
        Err(p) => st.fail_simple("pack-panic", case, format!("panic: {p}"), id.count_ones() as u64),
    }
}

/// Sequential statements about the counter: first id after reset, reserved ids, the wrap.
fn sequential_cases(st: &mut Stats) {
    st.states += 1;
    st.transitions += 1;
    let case = json!({"part": "sequential"});
    let r = vcore::catch(|| -> Result<(), String> {
        FileId::reset();
        let a = id_of(FileId::new());
        let b = id_of(FileId::new());
        if a == 1 || a == 2 || b == 1 || b == 2 || a == b || a == 0 || b == 0 {
            return Err(format!("after reset the counter hands out {a}, {b}"));
        }
        if id_of(FileId::BUILT_IN) != 1 {
            return Err("BUILT_IN is not 1".into());
        }
        // across the wrap: ids stay untagged and unreserved (distinctness is not demanded there)
        FileId::verif_set_next(TAG - 1);
        let last = id_of(FileId::new());
        let w1 = id_of(FileId::new());
        let w2 = id_of(FileId::new());
        if last != TAG - 1 {
            return Err(format!("id below the wrap is {last}"));
        }
        for w in [w1, w2] {
            if w & TAG != 0 || w == 0 || w == 1 || w == 2 {
                return Err(format!("id after the wrap is {w}"));
            }
        }
        if w1 == w2 {
            return Err("two sequential ids after the wrap are equal".into());
        }
        FileId::reset();
        Ok(())
    });
    match r {
        Ok(Ok(())) => st.outcome("sequential counter statements hold"),
        Ok(Err(e)) => st.fail_simple("sequential-counter", case, e, 1),
        Err(p) => st.fail_simple("sequential-panic", case, format!("panic: {p}"), 1),
    }
}

// ---------------------------------------------------------------------------------------------
// supplementary free-running smoke test (NOT the deciding step; labelled as sampling)
// ---------------------------------------------------------------------------------------------

fn smoke_child() -> ! {
    // first use of every lazily initialised static happens concurrently on 8 OS threads
    let barrier = Arc::new(std::sync::Barrier::new(8));
    let hs: Vec<_> = (0..8)
        .map(|i| {
            let b = barrier.clone();
            std::thread::Builder::new()
                .stack_size(8 << 20)
                .spawn(move || {
                    b.wait();
                    let schema = Schema::parse_and_validate(SCHEMA_B, "schema.graphql").expect("fixture schema");
                    (0..3).map(|k| workload_b(&schema, i + k)).collect::<Vec<_>>()
                })
                .unwrap()
        })
        .collect();
    let got: Vec<Vec<String>> = hs.into_iter().map(|h| h.join().unwrap()).collect();
    let schema = Schema::parse_and_validate(SCHEMA_B, "schema.graphql").expect("fixture schema");
    let mut ok = true;
    for (i, g) in got.iter().enumerate() {
        let exp: Vec<String> = (0..3).map(|k| workload_b(&schema, i + k)).collect();
        if *g != exp {
            ok = false;
        }
    }
    println!("SMOKERESULT {}", if ok { "same" } else { "differs" });
    std::process::exit(0)
}

// ---------------------------------------------------------------------------------------------

// ---------------------------------------------------------------------------------------------
// first-use order of the lazily initialised statics (E-CHOICE): which call of a fresh process
// touches them first is an environment answer; every sequence of <= 2 "first operations" from a
// menu is run in a fresh child process, followed by one fixed probe workload whose rendering must
// not depend on the prefix.
// ---------------------------------------------------------------------------------------------

const FIRST_OPS: [&str; 7] = [
    "validate an ordinary schema",
    "validate a schema from which the unused built-in scalar Float was removed by hand",
    "validate a schema from which the unused built-in scalars Int, Float, ID were removed by hand",
    "Schema::parse only (no validation)",
    "validate a schema that references no built-in scalar",
    "introspect (__schema / __type) against a valid schema",
    "validate an executable document that uses __typename",
];

fn first_op(k: usize) {
    let trimmed = |sdl: &str, gone: &[&str]| {
        let mut s = Schema::parse(sdl, "first.graphql").expect("fixture parses");
        for g in gone {
            s.types.shift_remove(*g);
        }
        let _ = s.validate();
    };
    match k {
        0 => {
            let _ = Schema::parse_and_validate(SCHEMA_B, "first.graphql");
        }
        1 => trimmed("type Query { a: Int }", &["Float"]),
        2 => trimmed("type Query { q: Query }", &["Int", "Float", "ID"]),
        3 => {
            let _ = Schema::parse("type Query { f: Float }", "first.graphql");
        }
        4 => {
            let _ = Schema::parse_and_validate("type Query { q: Query }", "first.graphql");
        }
        5 => {
            if let Ok(schema) = Schema::parse_and_validate(SCHEMA_B, "first.graphql") {
                let _ = workload_b(&schema, 2);
            }
        }
        _ => {
            if let Ok(schema) = Schema::parse_and_validate("type Query { q: Query }", "first.graphql") {
                let _ = ExecutableDocument::parse_and_validate(&schema, "{ __typename q { __typename } }", "first-doc.graphql");
            }
        }
    }
}

/// The probe: results that depend on the lazily built tables (built-in definitions, the table of
/// built-in scalars used for pruning / restoring, meta-field definitions).
fn first_use_probe() -> String {
    let mut out = String::new();
    let keys = |s: &Schema| s.types.keys().map(|k| k.to_string()).collect::<Vec<_>>().join(",");
    match Schema::parse_and_validate("type Query { a: Int b: Float c: ID }", "p1.graphql") {
        Ok(v) => out.push_str(&format!("p1 ok {}\n", keys(&v))),
        Err(e) => out.push_str(&format!("p1 err {}\n", e.errors)),
    }
    // validate, unwrap, add a field of a pruned built-in scalar, validate again (C16's scenario)
    match Schema::parse_and_validate("type Query { q: Query }", "p2.graphql") {
        Ok(v) => {
            out.push_str(&format!("p2 ok {}\n", keys(&v)));
            let mut s = v.into_inner();
            let more = Schema::parse("type Query { q: Query f: Float i: ID }", "p2b.graphql").expect("fixture parses");
            if let Some(q) = more.get_object("Query") {
                s.types.insert(q.name.clone(), q.clone().into());
            }
            match s.validate() {
                Ok(v) => out.push_str(&format!("p2b ok {}\n", keys(&v))),
                Err(e) => out.push_str(&format!("p2b err {}\n", e.errors)),
            }
        }
        Err(e) => out.push_str(&format!("p2 err {}\n", e.errors)),
    }
    match Schema::parse_and_validate(SCHEMA_B, "schema.graphql") {
        Ok(schema) => {
            for i in 0..3 {
                out.push_str(&workload_b(&schema, i));
                out.push('\n');
            }
        }
        Err(e) => out.push_str(&format!("p3 err {}\n", e.errors)),
    }
    out
}

fn first_child(arg: &str) -> ! {
    for k in arg.split(',').filter(|x| !x.is_empty()) {
        first_op(k.parse().unwrap_or(0));
    }
    FileId::reset();
    let probe = first_use_probe();
    println!("FIRSTRESULT {}", serde_json::to_string(&probe).unwrap_or_default());
    std::process::exit(0)
}

fn run_first_child(prefix: &[usize]) -> Result<String, String> {
    let exe = std::env::current_exe().map_err(|e| e.to_string())?;
    let arg = prefix.iter().map(|k| k.to_string()).collect::<Vec<_>>().join(",");
    let out = std::process::Command::new(exe).arg("--child-first").arg(&arg).env("RUST_BACKTRACE", "0").output().map_err(|e| e.to_string())?;
    let stdout = String::from_utf8_lossy(&out.stdout);
    for l in stdout.lines() {
        if let Some(rest) = l.strip_prefix("FIRSTRESULT ") {
            return serde_json::from_str::<String>(rest).map_err(|e| e.to_string());
        }
    }
    Err(format!("child died (status {:?}): {} {}", out.status.code(), vcore::short(&stdout), vcore::short(&String::from_utf8_lossy(&out.stderr))))
}

fn first_use_prefixes() -> Vec<Vec<usize>> {
    let n = FIRST_OPS.len();
    let mut v: Vec<Vec<usize>> = (0..n).map(|a| vec![a]).collect();
    for a in 0..n {
        for b in 0..n {
            if a != b {
                v.push(vec![a, b]);
            }
        }
    }
    v
}

fn first_use_case(prefix: &[usize], reference: &str, st: &mut Stats) {
    st.states += 1;
    st.transitions += 1;
    st.nontrivial += 1;
    let case = json!({"part": "first-use", "prefix": prefix, "operations": prefix.iter().map(|k| FIRST_OPS[*k]).collect::<Vec<_>>()});
    match run_first_child(prefix) {
        Err(e) => st.fail_simple("first-use-child-died", case, e, prefix.len() as u64),
        Ok(got) if got == reference => st.outcome("first-use order: probe equals the reference process"),
        Ok(got) => {
            let diff = got.lines().zip(reference.lines()).find(|(a, b)| a != b).map(|(a, b)| format!("`{}` vs reference `{}`", vcore::short(a), vcore::short(b))).unwrap_or_else(|| "different length".into());
            st.outcome("first-use order: probe differs");
            st.fail_simple(
                "first-use-order-dependence",
                case,
                format!("a fresh process whose first operations are {:?} renders the probe workload differently from a fresh process that runs the probe first: {diff}",
                    prefix.iter().map(|k| FIRST_OPS[*k]).collect::<Vec<_>>()),
                prefix.len() as u64,
            );
        }
    }
}

fn run_spec_into(spec: &Spec, st: &mut Stats) {
    st.states += 1;
    let case = json!({"part": "loom", "spec": spec.to_json()});
    match run_child(spec) {
        Err(e) => st.fail_simple(&format!("loom-child-died:{}", spec.label()), case, e, 1000),
        Ok(r) => {
            let ex = r["executions"].as_u64().unwrap_or(0);
            st.transitions += ex;
            st.nontrivial += 1;
            st.count(&format!("loom executions {}", spec.label()), ex);
            st.count(&format!("distinct id-ownership outcomes {}", spec.label()), r["distinct_outcomes"].as_u64().unwrap_or(0));
            if ex == 0 || r["seam_ops"].as_u64().unwrap_or(0) == 0 {
                st.fail_simple(
                    "machinery:seam-not-exercised",
                    case,
                    format!("model {} ran {ex} executions with {} seam operations: the hook is not in effect", spec.label(), r["seam_ops"]),
                    1,
                );
                return;
            }
            if r["bad_count"].as_u64().unwrap_or(0) > 0 {
                st.outcome(&format!("model {}: violated", spec.model));
                st.fail_simple(
                    &format!("loom-{}:{}", spec.model, r["bad"][0]["problems"][0].as_str().unwrap_or("?")),
                    case,
                    format!("{} of {ex} interleavings of {} fail; first: {}", r["bad_count"], spec.label(), r["bad"][0]),
                    (spec.threads * spec.per_thread) as u64,
                );
            } else {
                st.outcome(&format!("model {}: all interleavings hold", spec.model));
            }
        }
    }
}

fn main() {
    let argv: Vec<String> = std::env::args().collect();
    if let Some(p) = argv.iter().position(|a| a == "--child-loom") {
        child_main(argv.get(p + 1).map(|s| s.as_str()).unwrap_or(""));
    }
    if argv.iter().any(|a| a == "--child-smoke") {
        smoke_child();
    }
    if let Some(p) = argv.iter().position(|a| a == "--child-first") {
        first_child(argv.get(p + 1).map(|s| s.as_str()).unwrap_or(""));
    }
    let mut chk = vcore::Check::new("C31");
    vcore::quiet_panics();
    let thorough = chk.tier() == vcore::Tier::Thorough;

    if let Some(case) = chk.replay_case() {
        let mut st = Stats::default();
        replay(&case, &mut st);
        chk.absorb(st);
        chk.finish_replay();
    }

    // loom models, one child process each, in parallel
    let specs = specs(thorough);
    let results: Vec<Stats> = specs
        .par_iter()
        .map(|s| {
            let mut st = Stats::default();
            run_spec_into(s, &mut st);
            st
        })
        .collect();
    for r in results {
        chk.absorb(r);
    }

    // packing lattice + sequential statements: in-process, single thread (they position the
    // process-global counter)
    let ids = lattice(thorough);
    let mut st = Stats::default();
    sequential_cases(&mut st);
    for &id in &ids {
        pack_case(id, &mut st);
    }
    FileId::reset();
    chk.absorb(st);

    // first-use order: every sequence of <= 2 distinct first operations, each in a fresh process
    let first_reference = run_first_child(&[]).unwrap_or_else(|e| vcore::machinery_error(&format!("first-use reference child: {e}")));
    if run_first_child(&[]).ok().as_deref() != Some(first_reference.as_str()) {
        vcore::machinery_error("first-use probe is not deterministic across two fresh processes");
    }
    let prefixes = first_use_prefixes();
    let parts: Vec<Stats> = prefixes
        .par_iter()
        .map(|p| {
            let mut st = Stats::default();
            first_use_case(p, &first_reference, &mut st);
            st
        })
        .collect();
    for r in parts {
        chk.absorb(r);
    }
    chk.stats.count("first-use prefixes (fresh processes)", prefixes.len() as u64);

    // supplementary smoke (sampling, labelled; a difference is reported, silence proves nothing)
    let smoke_runs = if thorough { 20 } else { 4 };
    let mut smoke_same = 0;
    let mut smoke_bad = Vec::new();
    for _ in 0..smoke_runs {
        let exe = std::env::current_exe().unwrap();
        match std::process::Command::new(exe).arg("--child-smoke").output() {
            Ok(o) if String::from_utf8_lossy(&o.stdout).contains("SMOKERESULT same") => smoke_same += 1,
            Ok(o) => smoke_bad.push(format!("status {:?}: {}", o.status.code(), vcore::short(&String::from_utf8_lossy(&o.stdout)))),
            Err(e) => smoke_bad.push(e.to_string()),
        }
    }
    chk.stats.count("supplementary free-running 8-thread first-use runs (sampling, not exhaustive)", smoke_runs);
    chk.stats.count("supplementary runs equal to sequential", smoke_same);
    if !smoke_bad.is_empty() {
        chk.stats.fail_simple(
            "smoke:first-use-race",
            json!({"part": "smoke"}),
            format!("free-running 8-thread first use differs from sequential: {}", smoke_bad[0]),
            1,
        );
    }

    chk.bounds = json!({
        "loom_models": specs.iter().map(|s| s.label()).collect::<Vec<_>>(),
        "model_A": "threads x allocations of the real FileId::new; start = initial value, 2^63 - (threads*allocations) (up to the wrap: distinct, unreserved, untagged), or closer to 2^63 than that (across the wrap: unreserved and untagged under every interleaving of fetch / reset / retry)",
        "model_B": "threads each parse+validate+introspect one document against a shared Arc<Valid<Schema>>; scheduling points = id counter operations",
        "first_use_order": {"operations": FIRST_OPS, "prefixes": "every sequence of 1..2 distinct operations, each in a fresh process, followed by the probe workload", "processes": prefixes.len()},
        "packing_lattice_ids": ids.len(),
        "packing_tags": ["heap (Arc<str>) name", "static name"],
    });
    chk.rule = "states = loom model specifications + lattice ids + the sequential case; transitions = loom executions (complete interleavings of the real code, run to completion) + lattice evaluations; non-trivial = every loom model and every lattice id".into();
    chk.assumptions = vec![
        "loom's DPOR enumerates every interleaving of the operations on the one intercepted atomic (parser::NEXT) under the C11 model for the orderings the code passes; 'unbounded' = complete, 'pbN' = complete up to N preemptions".into(),
        "std::sync::OnceLock, std::sync::Arc and triomphe::Arc internals are not intercepted (trusted base): in model B every lazily initialised static is warmed up before exploration, so model B decides only the interference through the id counter; the free-running first-use repetition is sampling and is labelled as such; the first-use ORDER part enumerates which operation of a fresh process touches the statics first (sequentially, one process per prefix)".into(),
        "distinctness is demanded up to, not across, the 63-bit wrap (as the statement says); across the wrap only 'untagged and unreserved' is checked (sequentially, and in model A's across-the-wrap specifications under every interleaving)".into(),
        "FileId::reset() is a documented test-only operation and is not part of the concurrent alphabet".into(),
    ];
    chk.exhaustive = true;
    chk.finish(&|case| {
        let mut st = Stats::default();
        replay(case, &mut st);
        !st.failures.is_empty()
    })
}

fn replay(case: &Value, st: &mut Stats) {
    match case["part"].as_str() {
        Some("loom") => match Spec::from_json(&case["spec"]) {
            Some(s) => run_spec_into(&s, st),
            None => vcore::machinery_error("replay: bad loom spec"),
        },
        Some("pack") => {
            let id: u64 = case["id"].as_str().and_then(|s| s.parse().ok()).unwrap_or(3);
            pack_case(id, st);
            FileId::reset();
        }
        Some("sequential") => sequential_cases(st),
        Some("first-use") => {
            let prefix: Vec<usize> = case["prefix"].as_array().map(|a| a.iter().map(|x| x.as_u64().unwrap_or(0) as usize).collect()).unwrap_or_default();
            let reference = run_first_child(&[]).unwrap_or_else(|e| vcore::machinery_error(&format!("first-use reference child: {e}")));
            first_use_case(&prefix, &reference, st);
        }
        Some("smoke") => {
            // sampling: re-run a batch
            let exe = std::env::current_exe().unwrap();
            for _ in 0..10 {
                if let Ok(o) = std::process::Command::new(&exe).arg("--child-smoke").output() {
                    if !String::from_utf8_lossy(&o.stdout).contains("SMOKERESULT same") {
                        st.fail_simple("smoke:first-use-race", case.clone(), "differs".into(), 1);
                    }
                }
            }
        }
        _ => vcore::machinery_error("replay: unknown case"),
    }
}
