//! C08 — AST serialization round-trips (DESIGN.md §6 C08).
//! E-INPUT: every document `refmodel::gen::Derive` derives up to the size bound, plus every
//! ordering (with repetition) of up to 3 definitions from a menu of six, each printed by the
//! harness's own printer, parsed by the real `ast::Document::parse`, and round-tripped through
//! the real serializer under 18 configurations.

use apollo_compiler::ast::Document;
use checks::astproj;
use refmodel::ast as m;
use refmodel::gen;
use serde_json::{json, Value};
use vcore::{Check, Stats};

#[derive(Clone, Copy, Debug, PartialEq)]
enum Layout {
    Default,
    NoIndent,
    Prefix(&'static str),
}
const LAYOUTS: [Layout; 6] = [
    Layout::Default,
    Layout::NoIndent,
    Layout::Prefix(""),
    Layout::Prefix(" "),
    Layout::Prefix("\t"),
    Layout::Prefix("    "),
];
const LEVELS: [usize; 3] = [0, 1, 3];

fn serialize(doc: &Document, layout: Layout, level: usize) -> String {
    let s = doc.serialize().initial_indent_level(level);
    match layout {
        Layout::Default => s.to_string(),
        Layout::NoIndent => s.no_indent().to_string(),
        Layout::Prefix(p) => s.indent_prefix(p).to_string(),
    }
}

fn config_label(layout: Layout, level: usize) -> String {
    match layout {
        Layout::Default => format!("default/level{level}"),
        Layout::NoIndent => format!("no_indent/level{level}"),
        Layout::Prefix(p) => format!("indent_prefix({p:?})/level{level}"),
    }
}

fn category(d: &m::Definition) -> &'static str {
    match d {
        m::Definition::Operation(o) => {
            if o.kind == m::OpKind::Query && o.name.is_none() && o.vars.is_empty() && o.directives.is_empty() {
                "anon-query"
            } else {
                "operation"
            }
        }
        m::Definition::Fragment(_) => "fragment",
        m::Definition::Schema(s) => {
            if s.extend {
                "schema-ext"
            } else {
                "schema"
            }
        }
        m::Definition::Directive(_) => "directive-def",
        m::Definition::Type(t) => {
            if t.extend {
                "type-ext"
            } else {
                "type-def"
            }
        }
    }
}

/// One case: `source` must parse without errors; if `expected` is given, the parsed AST must be
/// the generated document; then the round trip under every configuration.
fn run_case(source: &str, expected: Option<&m::Document>, case: &Value, size: u64, st: &mut Stats) {
    st.states += 1;
    let fail = |st: &mut Stats, sig: &str, detail: String| {
        st.fail_simple(sig, case.clone(), detail, size);
    };
    st.transitions += 1;
    let ast = match vcore::catch(|| Document::parse(source, "c08.graphql")) {
        Err(p) => return fail(st, "panic-parse", format!("Document::parse panicked: {p}")),
        Ok(Err(e)) => {
            return fail(
                st,
                "generated-document-does-not-parse",
                format!("{} parse error(s), first: {}", e.errors.len(), first_error(&e.errors)),
            )
        }
        Ok(Ok(d)) => d,
    };
    let projected = astproj::document(&ast);
    if let Some(exp) = expected {
        if projected != astproj::normalized(exp) {
            return fail(
                st,
                "ast-differs-from-generated-document",
                format!("parsed AST projects to {:?}", vcore::short(&projected.print())),
            );
        }
    }
    let mut layout_sensitive = false;
    let mut block_strings = 0u64;
    for layout in LAYOUTS {
        for level in LEVELS {
            let cfg = config_label(layout, level);
            st.transitions += 3;
            let s1 = match vcore::catch(|| serialize(&ast, layout, level)) {
                Ok(s) => s,
                Err(p) => return fail(st, "panic-serialize", format!("[{cfg}] serialize panicked: {p}")),
            };
            if layout == Layout::Default && level == 0 {
                layout_sensitive = s1.contains("\"\"\"") || s1.contains(",\n") || s1.contains("\n\n");
            }
            if s1.contains("\"\"\"") {
                block_strings += 1;
            }
            let re = match vcore::catch(|| Document::parse(s1.as_str(), "c08-reparse.graphql")) {
                Err(p) => return fail(st, "panic-reparse", format!("[{cfg}] reparse panicked: {p}")),
                Ok(Err(e)) => {
                    return fail(
                        st,
                        "reparse-errors",
                        format!(
                            "[{cfg}] serialized text {:?} does not parse: {}",
                            vcore::short(&s1),
                            first_error(&e.errors)
                        ),
                    )
                }
                Ok(Ok(d)) => d,
            };
            if re != ast {
                return fail(
                    st,
                    "reparse-differs",
                    format!(
                        "[{cfg}] parse(serialize(ast)) != ast; serialized text {:?} re-parses to {:?}",
                        vcore::short(&s1),
                        vcore::short(&astproj::document(&re).print())
                    ),
                );
            }
            let s2 = match vcore::catch(|| serialize(&re, layout, level)) {
                Ok(s) => s,
                Err(p) => return fail(st, "panic-serialize", format!("[{cfg}] re-serialize panicked: {p}")),
            };
            if s2 != s1 {
                return fail(
                    st,
                    "reserialize-differs",
                    format!("[{cfg}] first {:?} second {:?}", vcore::short(&s1), vcore::short(&s2)),
                );
            }
        }
    }
    st.count("serializations-with-block-string", block_strings);
    if layout_sensitive {
        st.nontrivial += 1;
    }
    // outcome label: definition count and the categories present
    let mut cats: Vec<&str> = projected.defs.iter().map(category).collect();
    let n = cats.len();
    let not_first_anon = cats.iter().skip(1).any(|c| *c == "anon-query");
    cats.sort();
    cats.dedup();
    st.outcome(&format!(
        "round-trip ok: {n} def(s) [{}]{}",
        cats.join(","),
        if not_first_anon { " anon-query-not-first" } else { "" }
    ));
}

fn first_error(errors: &apollo_compiler::validation::DiagnosticList) -> String {
    errors.iter().next().map(|d| d.error.to_string()).unwrap_or_default()
}

// ---------------------------------------------------------------------------------
// family 2: orderings of up to 3 definitions from a menu
// ---------------------------------------------------------------------------------

fn menu() -> Vec<m::Definition> {
    use m::*;
    let sel = |n: &str| vec![Selection::field(n)];
    let mut shorthandable = Operation::query(sel("a"));
    shorthandable.shorthand = true;
    let mut named = Operation::query(sel("b"));
    named.name = Some("N".into());
    let mut mutation = Operation::query(sel("c"));
    mutation.kind = OpKind::Mutation;
    let fragment = Fragment { name: "F".into(), on: "T".into(), directives: vec![], selection: sel("d") };
    let mut ty = TypeDef::new(TypeKind::Object, "T");
    ty.fields.push(FieldDef::new("a", Ty::named("Int")));
    let mut open_ty = TypeDef::new(TypeKind::Object, "T");
    open_ty.directives.push(Directive::new("d"));
    vec![
        Definition::Operation(shorthandable),
        Definition::Operation(named),
        Definition::Operation(mutation),
        Definition::Fragment(fragment),
        Definition::Type(ty),
        Definition::Type(open_ty),
    ]
}

/// index -> sequence of menu indices (length 1..=3, with repetition), length-then-lexicographic
fn ordering(idx: u64) -> m::Document {
    let menu = menu();
    let mut seq = Vec::new();
    vcore::enumerate::nth_upto(menu.len() as u64, idx + 1, &mut seq); // +1 skips the empty sequence
    let mut defs: Vec<m::Definition> = Vec::new();
    for &i in &seq {
        let mut d = menu[i as usize].clone();
        if let (m::Definition::Operation(op), Some(prev)) = (&mut d, defs.last()) {
            // the grammar's [lookahead != {]: no shorthand directly after an absent brace block
            if op.shorthand && gen::ends_with_absent_brace_block(prev) {
                op.shorthand = false;
            }
        }
        defs.push(d);
    }
    m::Document { defs }
}

fn orderings_total() -> u64 {
    vcore::enumerate::count_upto(menu().len() as u64, 3) - 1
}

// ---------------------------------------------------------------------------------

fn run_derived(d: &gen::Derive, idx: u64, st: &mut Stats, usage: &mut [u32]) {
    for u in usage.iter_mut() {
        *u = 0;
    }
    let derived = d.nth(idx, usage);
    for (p, n) in usage.iter().enumerate() {
        if *n > 0 {
            st.count(&format!("production {}", gen::production_name(p)), *n as u64);
        }
    }
    let Some(derived) = derived else {
        st.count("derivations filtered by [lookahead != {]", 1);
        return;
    };
    let source = derived.document.print();
    let case = json!({"family": "derive", "max_size": d.max_size, "index": idx, "source": source});
    if idx % (d.total() / 5 + 1) == d.total() / 11 {
        st.sample(json!({"family": "derive", "index": idx, "size": derived.size, "source": source}));
    }
    run_case(&source, Some(&derived.document), &case, source.len() as u64, st);
}

fn run_ordering(idx: u64, st: &mut Stats) {
    let doc = ordering(idx);
    let source = doc.print();
    let case = json!({"family": "orderings", "index": idx, "source": source});
    if idx % 60 == 7 {
        st.sample(json!({"family": "orderings", "index": idx, "source": source}));
    }
    run_case(&source, Some(&doc), &case, source.len() as u64, st);
}

// ---- strings family: two templates with a string at every kind of string site x a string menu ----

const STR_SIGMA: [&str; 10] = ["a", "\"", "\\", " ", "\t", "\n", "\r", "\u{1f}", "\u{85}", "é"];
const STR_LINES: [&str; 7] = ["a", " a", "  a", "\ta", "", " ", "a "];

/// every string over STR_SIGMA of 1..=max_len symbols, then every paragraph of 2..=max_lines STR_LINES lines
fn string_menu(max_len: u32, max_lines: u32) -> Vec<String> {
    use vcore::enumerate as en;
    let mut v = Vec::new();
    let k = STR_SIGMA.len() as u64;
    let mut seq = Vec::new();
    for i in 1..en::count_upto(k, max_len) {
        en::nth_upto(k, i, &mut seq);
        let mut s = String::new();
        en::render(&STR_SIGMA, &seq, &mut s);
        v.push(s);
    }
    let k = STR_LINES.len() as u64;
    for n in 2..=max_lines {
        for i in 0..en::count_exact(k, n) {
            en::nth_exact(k, n, i, &mut seq);
            v.push(seq.iter().map(|&x| STR_LINES[x]).collect::<Vec<_>>().join("\n"));
        }
    }
    v
}

/// template 0: type system document with the string as description of a type, a field, an argument
/// (three nesting depths) and as an argument default; template 1: executable document with the string
/// as variable default, argument value, and inside a list and an object in a directive argument
fn string_template(t: u64, s: &str) -> m::Document {
    use m::*;
    if t == 0 {
        let mut ty = TypeDef::new(TypeKind::Object, "T");
        ty.description = Some(s.to_string());
        let mut arg = InputValueDef::new("x", Ty::named("String"));
        arg.description = Some(s.to_string());
        arg.default = Some(Value::str(s));
        let mut f = FieldDef::new("a", Ty::named("Int"));
        f.description = Some(s.to_string());
        f.args.push(arg);
        ty.fields.push(f);
        Document { defs: vec![Definition::Type(ty)] }
    } else {
        let field = Field::new("a")
            .arg("x", Value::str(s))
            .dir(Directive::with("d", &[("y", Value::List(vec![Value::str(s), Value::obj(&[("k", Value::str(s))])]))]));
        let mut op = Operation::query(vec![Selection::Field(field)]);
        op.name = Some("Q".into());
        op.vars.push(VarDef { name: "v".into(), ty: Ty::named("String"), default: Some(Value::str(s)), directives: vec![] });
        Document { defs: vec![Definition::Operation(op)] }
    }
}

fn run_string(t: u64, s: &str, st: &mut Stats) {
    let doc = string_template(t, s);
    let source = doc.print();
    let case = json!({"family": "strings", "template": t, "string": s, "source": source});
    st.count("strings family documents", 1);
    run_case(&source, Some(&doc), &case, source.len() as u64, st);
}

fn replay(case: &Value, st: &mut Stats) {
    match case["family"].as_str() {
        Some("derive") => {
            let d = gen::Derive::new(case["max_size"].as_u64().unwrap_or(1) as u32);
            let mut usage = vec![0u32; gen::production_count()];
            run_derived(&d, case["index"].as_u64().unwrap_or(0), st, &mut usage);
        }
        Some("orderings") => run_ordering(case["index"].as_u64().unwrap_or(0), st),
        Some("strings") => run_string(case["template"].as_u64().unwrap_or(0), case["string"].as_str().unwrap_or(""), st),
        _ => {
            // free-form: just a source text
            let source = case["source"].as_str().unwrap_or("").to_string();
            run_case(&source, None, case, source.len() as u64, st);
        }
    }
}

fn main() {
    let mut chk = Check::new("C08");
    vcore::quiet_panics();
    if let Some(case) = chk.replay_case() {
        let mut st = Stats::default();
        replay(&case, &mut st);
        chk.absorb(st);
        chk.finish_replay();
    }
    let max_size: u32 = chk.tier().pick(6, 7);
    let d = gen::Derive::new(max_size);
    let total = d.total();
    println!("derive: max_size {max_size}, {total} derivations");
    let stats = vcore::par_sweep(total, 2048, |i, st| {
        let mut usage = vec![0u32; gen::production_count()];
        run_derived(&d, i, st, &mut usage);
    });
    chk.absorb(stats);
    let n_ord = orderings_total();
    let stats = vcore::par_sweep(n_ord, 16, |i, st| run_ordering(i, st));
    chk.absorb(stats);
    let (str_len, str_lines) = (chk.tier().pick(3, 4), chk.tier().pick(3, 4));
    let strings = string_menu(str_len, str_lines);
    let stats = vcore::par_sweep(strings.len() as u64 * 2, 32, |i, st| run_string(i % 2, &strings[(i / 2) as usize], st));
    println!("strings family: {} strings x 2 templates", strings.len());
    chk.absorb(stats);

    // every production of the generative grammar must have been applied
    let unused: Vec<&str> = (0..gen::production_count())
        .map(gen::production_name)
        .filter(|n| !chk.stats.counters.contains_key(&format!("production {n}")))
        .collect();
    let sizes: Vec<Value> = (1..=max_size).map(|s| json!({"size": s, "derivations": d.count_of_size(s)})).collect();
    chk.bounds = json!({
        "derive": {
            "max_size": max_size,
            "derivations": total,
            "by_size": sizes,
            "productions": gen::production_count(),
            "productions_with_zero_uses": unused,
            "list_lengths": "1..2", "definitions_per_document": "1..3",
        },
        "orderings": {"menu": menu().iter().map(|d| { let mut s = String::new(); m::print_definition(d, &mut s); s }).collect::<Vec<_>>(),
                      "max_len": 3, "documents": n_ord},
        "strings": {"alphabet": STR_SIGMA, "max_len": str_len, "lines": STR_LINES, "max_lines": str_lines, "strings": strings.len(),
                    "templates": ["description of a type / field / argument + argument default", "variable default + argument value + list item and object field in a directive argument"]},
        "configurations": {"layouts": ["default", "no_indent()", "indent_prefix(\"\")", "indent_prefix(\" \")", "indent_prefix(\"\\t\")", "indent_prefix(\"    \")"],
                           "initial_indent_level": LEVELS, "count": LAYOUTS.len() * LEVELS.len()},
    });
    chk.exhaustive = unused.is_empty();
    if !unused.is_empty() {
        chk.note(format!("productions never applied at this bound: {unused:?}"));
    }
    chk.rule = "every derivation of refmodel::gen (size = sum of production costs) up to max_size, every sequence of 1..3 menu \
                definitions, and every (template, string) of the strings family, each x 18 serializer configurations; non-trivial = the default serialization is layout-sensitive \
                (contains a block string, a multi-line comma-separated list, or more than one definition)"
        .into();
    chk.assumptions = vec![
        "the harness printer (refmodel::ast::Document::print) renders the generated document in valid GraphQL; a parse error of a generated document is reported as a violation class of its own (generator or parser bug)".into(),
        "the parsed AST is additionally required to equal the generated mini-AST (projection checks::astproj), so a conversion that drops a part on both sides of the round trip is seen".into(),
        "inside the grammar-derived documents string contents are limited to two representatives (\"s\" and \"p\\n  \\n q\"); the strings family puts every string of the stated menu at every kind of string site of two fixed templates (the string space proper is C09's subject)".into(),
        "lists have 1..2 elements, documents 1..3 definitions; names are fixed per position (second elements use keyword-like names)".into(),
    ];
    chk.finish(&|case| {
        let mut st = Stats::default();
        replay(case, &mut st);
        !st.failures.is_empty()
    })
}
