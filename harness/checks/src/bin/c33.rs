//! C33 — generated responses match the operation's shape (DESIGN.md §6 C33).
//! E-CHOICE: the harness implements apollo-smith's `RandomProvider` as a choice point and explores
//! every answer sequence of `ResponseBuilder::build` by stateless re-execution with a choice
//! prefix (all sequences when the tree is small, otherwise all with a bounded number of
//! deviations from the default answer). Oracle: the independent shape model
//! `refmodel::respshape` on the harness's own mini-AST, then the real
//! `apollo_compiler::resolvers::Execution::execute_sync` with a resolver that serves the generated
//! data must reproduce it without errors.

use apollo_compiler::resolvers::{Execution, FieldError, ObjectValue, ResolveInfo, ResolvedValue};
use apollo_compiler::validation::Valid;
use apollo_compiler::{ExecutableDocument, Schema};
use apollo_smith::{RandomProvider, ResponseBuilder, ResponseError};
use refmodel::ast;
use refmodel::respshape::{Ann, Model, Params};
use serde_json::{json, Value};
use vcore::{Check, Stats};

const KF_FLAT: &str = "C33-nested-list-flattened";

// ---------------------------------------------------------------------------------
// The choice-point provider
// ---------------------------------------------------------------------------------

/// One recorded choice: which alternative was taken, out of how many, at which kind of call.
#[derive(Clone, Copy, Debug, PartialEq, Eq)]
struct Step {
    choice: u16,
    menu: u16,
    /// signature of the call (kind and arguments): replaying a prefix must meet the same calls
    sig: u32,
}

struct Chooser {
    prefix: Vec<Step>,
    trace: Vec<Step>,
    diverged: Option<String>,
}

impl Chooser {
    fn new(prefix: Vec<Step>) -> Chooser {
        Chooser { prefix, trace: Vec::new(), diverged: None }
    }
    /// Answer the next choice point with `menu` alternatives; alternative 0 is the default.
    fn pick(&mut self, menu: usize, sig: u32) -> usize {
        let pos = self.trace.len();
        let choice = if let Some(p) = self.prefix.get(pos) {
            if p.sig != sig || p.menu as usize != menu || p.choice as usize >= menu {
                if self.diverged.is_none() {
                    self.diverged = Some(format!(
                        "position {pos}: recorded call sig={:#x} menu={} choice={}, replay met sig={sig:#x} menu={menu}",
                        p.sig, p.menu, p.choice
                    ));
                }
                0
            } else {
                p.choice as usize
            }
        } else {
            0
        };
        self.trace.push(Step { choice: choice as u16, menu: menu as u16, sig });
        choice
    }
}

fn sig(kind: u32, a: i64, b: i64) -> u32 {
    let mut h: u32 = 0x811c9dc5 ^ kind;
    for x in [a, b] {
        for byte in x.to_le_bytes() {
            h = (h ^ byte as u32).wrapping_mul(0x01000193);
        }
    }
    h
}

/// Menu of a `gen_usize_range(min, max)` call: every value when the range has at most four values
/// (the configured list bounds), else the two ends (string lengths 1..=10). The default answer is
/// the smallest non-zero value, so that the default run populates every list.
fn usize_menu(min: usize, max: usize) -> Vec<usize> {
    let mut all: Vec<usize> = if max - min <= 3 { (min..=max).collect() } else { vec![min, max] };
    if let Some(p) = all.iter().position(|&v| v > 0) {
        let v = all.remove(p);
        all.insert(0, v);
    }
    all
}

impl RandomProvider for Chooser {
    fn gen_bool(&mut self) -> Result<bool, ResponseError> {
        Ok(self.pick(2, sig(1, 0, 0)) == 1)
    }
    fn gen_i32_range(&mut self, min: i32, max: i32) -> Result<i32, ResponseError> {
        // {min, 0, max}, without duplicates and without values outside the range
        let mut menu = vec![min];
        if min < 0 && 0 < max {
            menu.push(0);
        }
        if max != min {
            menu.push(max);
        }
        Ok(menu[self.pick(menu.len(), sig(2, min as i64, max as i64))])
    }
    fn gen_usize_range(&mut self, min: usize, max: usize) -> Result<usize, ResponseError> {
        let menu = usize_menu(min, max);
        Ok(menu[self.pick(menu.len(), sig(3, min as i64, max as i64))])
    }
    fn gen_f64_range(&mut self, min: f64, max: f64) -> Result<f64, ResponseError> {
        let menu = if min == max { vec![min] } else { vec![min, max] };
        Ok(menu[self.pick(menu.len(), sig(4, min.to_bits() as i64, max.to_bits() as i64))])
    }
    fn gen_alphanumeric_char(&mut self) -> Result<char, ResponseError> {
        Ok('a')
    }
    fn choose_index(&mut self, len: usize) -> Result<usize, ResponseError> {
        if len == 0 {
            return Err(ResponseError::EmptyChoose);
        }
        Ok(self.pick(len, sig(5, len as i64, 0)))
    }
    fn ratio(&mut self, numerator: u32, denominator: u32) -> Result<bool, ResponseError> {
        Ok(self.pick(2, sig(6, numerator as i64, denominator as i64)) == 1)
    }
}

// ---------------------------------------------------------------------------------
// Workloads: valid (schema, operation) pairs inside the statement's precondition
// ---------------------------------------------------------------------------------

const SCHEMA_T: &str = "type Query { i: Int i1: Int! s: String b: Boolean! f: Float id: ID! e: E es: [E] en: [E!]! \
    t: T tn: T! ts: [T] tnn: [T!]! m: [[Int!]] n: [[T]!] p: [[T!]] q: [[Int]!] ln: [Int]! lt: [T]! lln: [[Int]]! } \
    type Mutation { set(v: Int): T bump: Int! } \
    type T { x: Int y: String! e: E! t: T xs: [Int] } \
    enum E { A B C }";

const SCHEMA_ABS: &str = "type Query { node: Node nodes: [Node!]! u: U us: [U] named: [Named] } \
    interface Node { id: ID! } \
    interface Named implements Node { id: ID! name: String } \
    type A implements Node { id: ID! a: Int } \
    type B implements Named & Node { id: ID! name: String b: Boolean n: Node } \
    type C implements Named & Node { id: ID! name: String k: K! } \
    union U = A | B \
    enum K { ONE TWO }";

const WORKLOADS: &[(&str, &str, &str)] = &[
    ("scalars", SCHEMA_T, "{ i i1 b e }"),
    ("string-float-id", SCHEMA_T, "{ s f id }"),
    ("enum-lists", SCHEMA_T, "{ es en }"),
    ("objects", SCHEMA_T, "{ t { x } tn { y e } }"),
    ("object-lists", SCHEMA_T, "{ ts { x } tnn { x t { x } } }"),
    ("scalar-list-in-object-list", SCHEMA_T, "{ tnn { xs e } }"),
    ("nested-lists-1", SCHEMA_T, "{ m n { x } }"),
    ("nested-lists-2", SCHEMA_T, "{ p { y } q }"),
    ("alias-merge", SCHEMA_T, "{ t { x } t { y } t2: t { x } t2: t { e ...F } i2: i i2: i } fragment F on T { t { x } x2: x }"),
    // the same composite key from a direct field, an inline fragment and named fragments, each
    // occurrence with a sub-field the others lack, in every order of arrival
    ("merge-across-fragments", SCHEMA_T, "{ t { x } ...F ... { t { e } } ...G } fragment F on Query { t { y } } fragment G on Query { t { t { x } } tn { x } }"),
    ("merge-fragment-first", SCHEMA_T, "{ ...F t { x } tn { e } ...G } fragment F on Query { t { y } tn { y } } fragment G on Query { tn { x } }"),
    ("non-null-lists-of-nullable-items", SCHEMA_T, "{ ln lt { x } lln }"),
    ("mutation", SCHEMA_T, "mutation { set(v: 1) { x e } bump }"),
    ("interface-typename", SCHEMA_ABS, "{ node { __typename id ... on A { a } ... on B { b } } }"),
    (
        "abstract-lists",
        SCHEMA_ABS,
        "{ nodes { id ...FA ... on B { n { __typename } } } us { __typename ... on A { a } ... on Node { id } } } fragment FA on A { a }",
    ),
    ("wide", SCHEMA_T, "{ i i1 s b f id e es en t { x y e } tn { x y e t { x } } }"),
    ("deep-lists", SCHEMA_T, "{ ts { x xs t { xs } } tnn { y t { t { x } } } }"),
    (
        "abstract-deep",
        SCHEMA_ABS,
        "{ nodes { __typename id ... on B { n { id ... on B { n { __typename } } } } } named { __typename name } us { ... on B { n { id } } } }",
    ),
    ("interface-of-interface", SCHEMA_ABS, "{ named { name ... on C { k } ... on Node { nid: id } tn: __typename } u { ... on A { a } ... on B { b name } } }"),
];

const CONFIGS: &[(Option<(u32, u32)>, (usize, usize))] =
    &[(None, (0, 2)), (None, (1, 1)), (Some((1, 2)), (0, 2)), (Some((1, 2)), (1, 1))];

struct Workload {
    name: String,
    schema_text: String,
    op_text: String,
    schema_ast: ast::Document,
    op_ast: ast::Document,
    schema: Valid<Schema>,
    doc: Valid<ExecutableDocument>,
}

impl Workload {
    fn build(name: &str, schema_src: &str, op_src: &str) -> Result<Workload, String> {
        let schema_ast = refmodel::sdl::parse(schema_src).map_err(|e| format!("schema of {name}: {e}"))?;
        let op_ast = refmodel::sdl::parse(op_src).map_err(|e| format!("operation of {name}: {e}"))?;
        // what the implementation sees is the harness's own printing of the mini-AST
        let schema_text = schema_ast.print();
        let op_text = op_ast.print();
        let schema = Schema::parse_and_validate(schema_text.as_str(), "schema.graphql")
            .map_err(|e| format!("workload {name}: schema is not valid: {}", e.errors))?;
        let doc = ExecutableDocument::parse_and_validate(&schema, op_text.as_str(), "op.graphql")
            .map_err(|e| format!("workload {name}: operation is not valid: {}", e.errors))?;
        if op_ast.operations().count() != 1 {
            return Err(format!("workload {name}: exactly one operation expected"));
        }
        Ok(Workload { name: name.to_string(), schema_text, op_text, schema_ast, op_ast, schema, doc })
    }
}

// ---------------------------------------------------------------------------------
// Serving the generated data to the real executor
// ---------------------------------------------------------------------------------

fn to_bytes_json(v: &Value) -> serde_json_bytes::Value {
    use serde_json_bytes::Value as B;
    match v {
        Value::Null => B::Null,
        Value::Bool(b) => B::Bool(*b),
        Value::Number(n) => B::Number(n.clone()),
        Value::String(s) => B::String(s.as_str().into()),
        Value::Array(a) => B::Array(a.iter().map(to_bytes_json).collect()),
        Value::Object(m) => B::Object(m.iter().map(|(k, v)| (k.as_str().into(), to_bytes_json(v))).collect()),
    }
}

fn from_bytes_json(v: &serde_json_bytes::Value) -> Value {
    use serde_json_bytes::Value as B;
    match v {
        B::Null => Value::Null,
        B::Bool(b) => Value::Bool(*b),
        B::Number(n) => Value::Number(n.clone()),
        B::String(s) => Value::String(s.as_str().to_string()),
        B::Array(a) => Value::Array(a.iter().map(from_bytes_json).collect()),
        B::Object(m) => Value::Object(m.iter().map(|(k, v)| (k.as_str().to_string(), from_bytes_json(v))).collect()),
    }
}

struct Served<'a> {
    ty: &'a str,
    fields: &'a [(String, Ann)],
}

fn resolved<'a>(a: &'a Ann) -> ResolvedValue<'a> {
    match a {
        Ann::Null => ResolvedValue::null(),
        Ann::Leaf(j) => ResolvedValue::leaf(to_bytes_json(j)),
        Ann::List(items) => ResolvedValue::list(items.iter().map(resolved)),
        Ann::Obj { ty, fields } => ResolvedValue::object(Served { ty, fields }),
    }
}

impl ObjectValue for Served<'_> {
    fn type_name(&self) -> &str {
        self.ty
    }
    fn resolve_field<'a>(&'a self, info: &'a ResolveInfo<'a>) -> Result<ResolvedValue<'a>, FieldError> {
        let key = info.field_selections()[0].response_key().as_str();
        match self.fields.iter().find(|(k, _)| k == key) {
            Some((_, a)) => Ok(resolved(a)),
            None => Err(FieldError { message: format!("generated data has no key {key}") }),
        }
    }
}

// ---------------------------------------------------------------------------------
// One leaf = one answer sequence
// ---------------------------------------------------------------------------------

struct Leaf {
    trace: Vec<Step>,
}

fn features(v: &Value, nulls: &mut bool, empty: &mut bool, nonempty: &mut bool, nested: &mut bool, depth: usize) {
    match v {
        Value::Null => *nulls = true,
        Value::Array(a) => {
            if depth > 0 {
                *nested = true;
            }
            if a.is_empty() {
                *empty = true
            } else {
                *nonempty = true
            }
            for x in a {
                features(x, nulls, empty, nonempty, nested, depth + 1);
            }
        }
        Value::Object(m) => {
            for x in m.values() {
                features(x, nulls, empty, nonempty, nested, 0);
            }
        }
        _ => {}
    }
}

fn failure_class(reason: &str) -> &'static str {
    for (needle, class) in [
        ("response keys must be exactly", "shape:response-keys"),
        ("null at a non-null position", "shape:null-at-non-null"),
        ("needs a list", "shape:list-nesting"),
        ("kind of built-in scalar", "shape:scalar-kind"),
        ("defined value of enum", "shape:enum-value"),
        ("__typename must be", "shape:typename"),
        ("expected an object", "shape:object-expected"),
    ] {
        if reason.contains(needle) {
            return class;
        }
    }
    "shape:other"
}

fn run_leaf(
    w: &Workload,
    cfg: (Option<(u32, u32)>, (usize, usize)),
    prefix: Vec<Step>,
    kf_open: bool,
    st: &mut Stats,
    record: bool,
) -> Leaf {
    let mut rng = Chooser::new(prefix);
    let built = vcore::catch(|| {
        let mut b = ResponseBuilder::new(&mut rng, &w.doc, &w.schema)
            .with_min_list_size(cfg.1 .0)
            .with_max_list_size(cfg.1 .1);
        if let Some((n, d)) = cfg.0 {
            b = b.with_null_ratio(n, d);
        }
        b.build()
    });
    let trace = rng.trace.clone();
    if let Some(d) = &rng.diverged {
        vcore::machinery_error(&format!("C33 diverging replay in workload {} config {cfg:?}: {d}", w.name));
    }
    if !record {
        return Leaf { trace };
    }
    st.states += 1;
    st.transitions += 1;
    if trace.iter().any(|s| s.choice != 0) {
        st.nontrivial += 1;
    }
    let choices: Vec<u16> = trace.iter().map(|s| s.choice).collect();
    let case = || {
        json!({
            "workload": w.name, "schema": w.schema_text, "operation": w.op_text,
            "null_ratio": cfg.0.map(|(n, d)| vec![n, d]), "list_bounds": [cfg.1 .0, cfg.1 .1],
            "choices": choices,
        })
    };
    let size = (choices.len() as u64) * 1000 + choices.iter().map(|&c| c as u64).sum::<u64>();
    let response = match built {
        Err(p) => {
            st.fail_simple("builder-panic", case(), format!("ResponseBuilder panicked: {}", vcore::short(&p)), size);
            return Leaf { trace };
        }
        Ok(Err(e)) => {
            st.fail_simple("builder-error", case(), format!("ResponseBuilder returned Err({e}) although the provider never fails"), size);
            return Leaf { trace };
        }
        Ok(Ok(v)) => from_bytes_json(&v),
    };
    let data = match response.as_object() {
        Some(m) if m.len() == 1 && m.contains_key("data") => &response["data"],
        _ => {
            st.fail_simple("response-envelope", case(), format!("response is not {{\"data\": ...}}: {}", vcore::short(&response.to_string())), size);
            return Leaf { trace };
        }
    };
    let op = w.op_ast.operations().next().unwrap();
    let strict = Model::new(&w.schema_ast, &w.op_ast, Params::default());
    let ann = match strict.check_operation(op, data) {
        Ok(a) => a,
        Err(reason) => {
            if kf_open {
                let dev = Model::new(&w.schema_ast, &w.op_ast, Params { flatten_inner_lists: true });
                if dev.check_operation(op, data).is_ok() && dev.switch_fired.get() {
                    st.known(KF_FLAT, &format!("{} -> {}", w.op_text, data));
                    st.outcome("known-finding:nested-list-flattened");
                    return Leaf { trace };
                }
            }
            st.fail_simple(
                failure_class(&reason),
                case(),
                format!("{reason} -- operation {} -- generated data {}", w.op_text, vcore::short(&data.to_string())),
                size,
            );
            return Leaf { trace };
        }
    };
    // the real executor, serving exactly the generated data
    st.transitions += 1;
    let Ann::Obj { ty, fields } = &ann else { unreachable!("root is an object") };
    let root = Served { ty, fields };
    let executed = vcore::catch(|| Execution::new(&w.schema, &w.doc).execute_sync(&root));
    match executed {
        Err(p) => {
            st.fail_simple("exec:panic", case(), format!("execution panicked: {}", vcore::short(&p)), size);
            return Leaf { trace };
        }
        Ok(Err(e)) => {
            st.fail_simple("exec:request-error", case(), format!("execution returned a request error: {}", e.message()), size);
            return Leaf { trace };
        }
        Ok(Ok(resp)) => {
            if !resp.errors.is_empty() {
                let msgs: Vec<String> = resp.errors.iter().map(|e| e.message.clone()).collect();
                st.fail_simple(
                    "exec:field-errors",
                    case(),
                    format!("executing with the generated data produced errors {msgs:?} -- data {}", vcore::short(&data.to_string())),
                    size,
                );
                return Leaf { trace };
            }
            let got = resp.data.as_ref().map(|m| from_bytes_json(&serde_json_bytes::Value::Object(m.clone()))).unwrap_or(Value::Null);
            if &got != data {
                st.fail_simple(
                    "exec:data-differs",
                    case(),
                    format!("execution over the generated data returned {} instead of {}", vcore::short(&got.to_string()), vcore::short(&data.to_string())),
                    size,
                );
                return Leaf { trace };
            }
        }
    }
    let (mut nulls, mut empty, mut nonempty, mut nested) = (false, false, false, false);
    features(data, &mut nulls, &mut empty, &mut nonempty, &mut nested, 0);
    st.outcome(&format!(
        "pass[null={} lists={}{} nested={}]",
        if nulls { "y" } else { "n" },
        if empty { "E" } else { "-" },
        if nonempty { "N" } else { "-" },
        if nested { "y" } else { "n" }
    ));
    Leaf { trace }
}

/// Run one answer sequence and return its children (deviations at later positions, in order).
fn expand(
    w: &Workload,
    cfg: (Option<(u32, u32)>, (usize, usize)),
    prefix: Vec<Step>,
    max_dev: Option<usize>,
    kf_open: bool,
    st: &mut Stats,
) -> Vec<Vec<Step>> {
    let plen = prefix.len();
    let devs = prefix.iter().filter(|s| s.choice != 0).count();
    let leaf = run_leaf(w, cfg, prefix, kf_open, st, true);
    let mut children = Vec::new();
    if max_dev.is_some_and(|k| devs >= k) {
        return children;
    }
    for pos in plen..leaf.trace.len() {
        for alt in 1..leaf.trace[pos].menu {
            let mut child = leaf.trace[..pos].to_vec();
            child.push(Step { choice: alt, ..leaf.trace[pos] });
            children.push(child);
        }
    }
    children
}

/// Stateless search over answer sequences. `max_dev = None`: all sequences, giving up (None)
/// beyond `cap` leaves; `Some(k)`: all sequences with at most k non-default answers.
/// The tree is expanded breadth-first until there are enough independent subtrees, which are then
/// searched depth-first in parallel and merged in subtree order (deterministic).
fn explore(
    w: &Workload,
    cfg: (Option<(u32, u32)>, (usize, usize)),
    max_dev: Option<usize>,
    cap: u64,
    kf_open: bool,
    sample: bool,
) -> Option<Stats> {
    use rayon::prelude::*;
    use std::sync::atomic::{AtomicU64, Ordering};
    let leaves = AtomicU64::new(0);
    let over = |n: u64| max_dev.is_none() && n > cap;
    let mut st = Stats::default();
    let mut frontier: std::collections::VecDeque<Vec<Step>> = std::collections::VecDeque::new();
    frontier.push_back(Vec::new());
    while frontier.len() < 256 {
        let Some(prefix) = frontier.pop_front() else { break };
        if over(leaves.fetch_add(1, Ordering::Relaxed) + 1) {
            return None;
        }
        let children = expand(w, cfg, prefix, max_dev, kf_open, &mut st);
        if sample && st.samples.is_empty() {
            if let Some(c) = children.first() {
                st.sample(json!({"workload": w.name, "operation": w.op_text, "choices": c.iter().map(|s| s.choice).collect::<Vec<_>>()}));
            }
        }
        frontier.extend(children);
    }
    let roots: Vec<Vec<Step>> = frontier.into_iter().collect();
    let parts: Vec<Option<Stats>> = roots
        .into_par_iter()
        .map(|root| {
            let mut st = Stats::default();
            let mut stack = vec![root];
            while let Some(prefix) = stack.pop() {
                if over(leaves.fetch_add(1, Ordering::Relaxed) + 1) {
                    return None;
                }
                let mut children = expand(w, cfg, prefix, max_dev, kf_open, &mut st);
                children.reverse();
                stack.extend(children);
            }
            Some(st)
        })
        .collect();
    for p in parts {
        st = st.merge(p?);
    }
    Some(st)
}

fn main() {
    let mut chk = Check::new("C33");
    vcore::quiet_panics();
    let kf_open = chk.known.is_open(KF_FLAT);
    if let Some(case) = chk.replay_case() {
        let mut st = Stats::default();
        replay(&case, kf_open, &mut st);
        chk.absorb(st);
        chk.finish_replay();
    }
    let workloads: Vec<Workload> = WORKLOADS
        .iter()
        .map(|(n, s, o)| Workload::build(n, s, o).unwrap_or_else(|e| vcore::machinery_error(&e)))
        .collect();
    let full_cap: u64 = chk.tier().pick(30_000, 1_000_000);
    let max_dev: usize = chk.tier().pick(4, 5);
    let items: Vec<(usize, usize)> = (0..workloads.len()).flat_map(|w| (0..CONFIGS.len()).map(move |c| (w, c))).collect();
    let modes = std::sync::Mutex::new(std::collections::BTreeMap::new());
    let stats = vcore::par_items(&items, |&(wi, ci), st| {
        let w = &workloads[wi];
        let cfg = CONFIGS[ci];
        let (mode, s) = match explore(w, cfg, None, full_cap, kf_open, ci == 2) {
            Some(s) => ("all answer sequences".to_string(), s),
            None => (
                format!("<= {max_dev} deviations from the default answers"),
                explore(w, cfg, Some(max_dev), 0, kf_open, ci == 2).unwrap(),
            ),
        };
        modes.lock().unwrap().insert(format!("{} null_ratio={:?} list={:?}", w.name, cfg.0, cfg.1), json!({"explored": mode, "leaves": s.states}));
        let taken = std::mem::take(st);
        *st = taken.merge(s);
    });
    chk.absorb(stats);
    let modes = modes.into_inner().unwrap();
    chk.exhaustive = true;
    chk.bounds = json!({
        "workloads": WORKLOADS.iter().map(|(n, _, o)| json!({"name": n, "operation": o})).collect::<Vec<_>>(),
        "configurations": "null ratio {none, 1/2} x list bounds {0..=2, 1..=1}",
        "choice_menus": "gen_bool/ratio {false,true}; gen_usize_range every value (ranges of <= 4 values; wider ranges, i.e. string lengths: both ends), default = smallest non-zero; choose_index every index; gen_i32_range {min, 0, max}; gen_f64_range {min, max}; chars fixed 'a'",
        "full_tree_cap_leaves": full_cap,
        "deviation_bound_beyond_cap": max_dev,
        "per_workload": modes,
    });
    chk.rule = "states = explored answer sequences (leaves of the choice tree); transitions = ResponseBuilder::build runs plus execute_sync runs; \
                non-trivial = sequences with at least one non-default answer"
        .into();
    chk.assumptions = vec![
        "workloads stay inside the statement's precondition: valid pairs, no @skip/@include, every abstract type inhabited".into(),
        "custom scalars and custom Generators are not in the workloads".into(),
        "response key ORDER is not compared (the statement speaks of the set of keys)".into(),
        "exhaustive within the stated bounds: a workload/configuration whose tree exceeds the cap is explored completely up to the deviation bound".into(),
    ];
    chk.finish(&|case| {
        let mut st = Stats::default();
        replay(case, kf_open, &mut st);
        !st.failures.is_empty()
    })
}

fn replay(case: &Value, kf_open: bool, st: &mut Stats) {
    let name = case["workload"].as_str().unwrap_or("replay");
    let w = Workload::build(name, case["schema"].as_str().unwrap_or(""), case["operation"].as_str().unwrap_or(""))
        .unwrap_or_else(|e| vcore::machinery_error(&format!("replay case does not build: {e}")));
    let null_ratio = case["null_ratio"].as_array().map(|a| (a[0].as_u64().unwrap_or(1) as u32, a[1].as_u64().unwrap_or(2) as u32));
    let lb = (case["list_bounds"][0].as_u64().unwrap_or(0) as usize, case["list_bounds"][1].as_u64().unwrap_or(2) as usize);
    let choices: Vec<u16> = case["choices"].as_array().map(|a| a.iter().map(|v| v.as_u64().unwrap_or(0) as u16).collect()).unwrap_or_default();
    // rebuild the recorded steps by replaying ever longer prefixes (signatures come from the run itself)
    let mut prefix: Vec<Step> = Vec::new();
    loop {
        let mut scratch = Stats::default();
        let leaf = run_leaf(&w, (null_ratio, lb), prefix.clone(), kf_open, &mut scratch, false);
        let pos = prefix.len();
        if pos >= choices.len() || pos >= leaf.trace.len() {
            break;
        }
        let mut s = leaf.trace[pos];
        if choices[pos] >= s.menu {
            vcore::machinery_error("replay case: choice out of range");
        }
        s.choice = choices[pos];
        prefix.push(s);
    }
    run_leaf(&w, (null_ratio, lb), prefix, kf_open, st, true);
}
