//! C15 — valid schemas are internally consistent (DESIGN.md §6 C15).
//! Rides on the schema spaces of C14: for every schema that `Schema::parse_and_validate`
//! ACCEPTS, the invariants of the property statement are evaluated directly on the public
//! fields of `Valid<Schema>`. No reference validator is involved; the only reference function is
//! the spec-verbatim `IsValidImplementationFieldType` of `refmodel::compat`.

use apollo_compiler::ast::Type;
use apollo_compiler::schema::{ExtendedType, FieldDefinition, InputValueDefinition};
use apollo_compiler::Schema;
use checks::schemas::{self, Case};
use refmodel::ast::Ty;
use refmodel::compat::{self, SimpleRelations};
use refmodel::typesys::{BUILTIN_SCALARS, INTROSPECTION_TYPES};
use serde_json::{json, Value};
use std::collections::BTreeSet;
use vcore::{Check, Stats};

fn ty(t: &Type) -> Ty {
    match t {
        Type::Named(n) => Ty::named(n.as_str()),
        Type::NonNullNamed(n) => Ty::named(n.as_str()).non_null(),
        Type::List(inner) => ty(inner).list(),
        Type::NonNullList(inner) => ty(inner).list().non_null(),
    }
}

#[derive(Default)]
struct Features {
    roots: usize,
    contracts: usize,
    union_members: usize,
    input_links: usize,
    extra_scalars: usize,
}

/// All invariant violations of one accepted schema: (invariant name, detail).
fn invariants(schema: &Schema, feat: &mut Features) -> Vec<(&'static str, String)> {
    let mut bad: Vec<(&'static str, String)> = Vec::new();
    let types = &schema.types;
    let is_input = |n: &str| matches!(types.get(n), Some(ExtendedType::Scalar(_) | ExtendedType::Enum(_) | ExtendedType::InputObject(_)));
    let is_output = |n: &str| matches!(types.get(n), Some(t) if !matches!(t, ExtendedType::InputObject(_)));

    // --- roots
    let sd = &schema.schema_definition;
    if sd.query.is_none() {
        bad.push(("query-root-present", "schema_definition.query is None".into()));
    }
    let roots: Vec<(&str, &str)> = [("query", &sd.query), ("mutation", &sd.mutation), ("subscription", &sd.subscription)]
        .into_iter()
        .filter_map(|(op, r)| r.as_ref().map(|n| (op, n.name.as_str())))
        .collect();
    feat.roots = roots.len();
    for (i, (op, n)) in roots.iter().enumerate() {
        match types.get(*n) {
            None => bad.push(("root-type-defined", format!("{op}: {n}"))),
            Some(ExtendedType::Object(_)) => {}
            Some(_) => bad.push(("root-type-is-object", format!("{op}: {n}"))),
        }
        if roots[..i].iter().any(|(_, m)| m == n) {
            bad.push(("root-types-distinct", format!("{op}: {n}")));
        }
    }

    // --- relations for the sub-typing function, as plain harness data
    let mut rel = SimpleRelations::default();
    for (name, def) in types {
        match def {
            ExtendedType::Object(o) => {
                rel = rel.object(name.as_str(), &o.implements_interfaces.iter().map(|c| c.name.as_str()).collect::<Vec<_>>());
            }
            ExtendedType::Interface(o) => {
                rel = rel.interface(name.as_str(), &o.implements_interfaces.iter().map(|c| c.name.as_str()).collect::<Vec<_>>());
            }
            ExtendedType::Union(u) => {
                rel = rel.union(name.as_str(), &u.members.iter().map(|c| c.name.as_str()).collect::<Vec<_>>());
            }
            _ => {}
        }
    }

    let mut referenced_scalars: BTreeSet<&str> = BTreeSet::new();
    let mut note_ref = |n: &'_ str| {
        if let Some(s) = BUILTIN_SCALARS.iter().find(|s| **s == n) {
            referenced_scalars.insert(*s);
        }
    };
    let user_name = |what: &str, n: &str, bad: &mut Vec<(&'static str, String)>| {
        if n.starts_with("__") {
            bad.push(("no-reserved-user-names", format!("{what} {n}")));
        }
    };
    let check_args = |owner: &str,
                      args: &[apollo_compiler::Node<InputValueDefinition>],
                      user: bool,
                      bad: &mut Vec<(&'static str, String)>,
                      note_ref: &mut dyn FnMut(&str)| {
        for a in args {
            let n = a.ty.inner_named_type().as_str();
            note_ref(n);
            if !types.contains_key(n) {
                bad.push(("argument-type-defined", format!("{owner}({}: {})", a.name, a.ty)));
            } else if !is_input(n) {
                bad.push(("argument-type-is-input", format!("{owner}({}: {})", a.name, a.ty)));
            }
            if user {
                user_name("argument", a.name.as_str(), bad);
            }
        }
    };
    let is_introspection = |n: &str| INTROSPECTION_TYPES.iter().any(|(x, _)| *x == n);

    for (name, def) in types {
        let user = !is_introspection(name.as_str()) && !BUILTIN_SCALARS.contains(&name.as_str());
        if user {
            user_name("type", name.as_str(), &mut bad);
        }
        let (fields, implements): (Option<&apollo_compiler::collections::IndexMap<_, apollo_compiler::schema::Component<FieldDefinition>>>, Option<_>) = match def {
            ExtendedType::Object(o) => (Some(&o.fields), Some(&o.implements_interfaces)),
            ExtendedType::Interface(o) => (Some(&o.fields), Some(&o.implements_interfaces)),
            _ => (None, None),
        };
        if let Some(fields) = fields {
            for (fname, f) in fields {
                let n = f.ty.inner_named_type().as_str();
                note_ref(n);
                if !types.contains_key(n) {
                    bad.push(("field-type-defined", format!("{name}.{fname}: {}", f.ty)));
                } else if !is_output(n) {
                    bad.push(("field-type-is-output", format!("{name}.{fname}: {}", f.ty)));
                }
                if user {
                    user_name("field", fname.as_str(), &mut bad);
                }
                check_args(&format!("{name}.{fname}"), &f.arguments, user, &mut bad, &mut note_ref);
            }
        }
        if let Some(implements) = implements {
            for i in implements {
                let iname = i.name.as_str();
                let iface = match types.get(iname) {
                    None => {
                        bad.push(("implements-defined", format!("{name} implements {iname}")));
                        continue;
                    }
                    Some(ExtendedType::Interface(iface)) => iface,
                    Some(_) => {
                        bad.push(("implements-is-interface", format!("{name} implements {iname}")));
                        continue;
                    }
                };
                if iname == name.as_str() {
                    bad.push(("implements-not-itself", name.to_string()));
                }
                for j in &iface.implements_interfaces {
                    if !implements.iter().any(|x| x.name == j.name) {
                        bad.push(("transitive-interfaces-listed", format!("{name} implements {iname} without {}", j.name)));
                    }
                }
                // field / argument contract
                let fields = fields.expect("types with `implements` have fields");
                for (fname, ifield) in &iface.fields {
                    feat.contracts += 1;
                    let Some(field) = fields.get(fname) else {
                        bad.push(("implementation-field-present", format!("{name}.{fname} for {iname}")));
                        continue;
                    };
                    if !compat::is_valid_implementation_field_type(&ty(&field.ty), &ty(&ifield.ty), &rel) {
                        bad.push((
                            "implementation-field-type",
                            format!("{name}.{fname}: {} does not implement {iname}.{fname}: {}", field.ty, ifield.ty),
                        ));
                    }
                    for iarg in &ifield.arguments {
                        match field.arguments.iter().find(|a| a.name == iarg.name) {
                            None => bad.push(("implementation-argument-present", format!("{name}.{fname}({}:) for {iname}", iarg.name))),
                            Some(arg) => {
                                if ty(&arg.ty) != ty(&iarg.ty) {
                                    bad.push((
                                        "implementation-argument-type-equal",
                                        format!("{name}.{fname}({}: {}) vs {iname}: {}", iarg.name, arg.ty, iarg.ty),
                                    ));
                                }
                            }
                        }
                    }
                    for arg in &field.arguments {
                        let extra = !ifield.arguments.iter().any(|a| a.name == arg.name);
                        if extra && arg.ty.is_non_null() && arg.default_value.is_none() {
                            bad.push(("implementation-no-extra-required-argument", format!("{name}.{fname}({}:) for {iname}", arg.name)));
                        }
                    }
                }
            }
        }
        match def {
            ExtendedType::Union(u) => {
                for m in &u.members {
                    feat.union_members += 1;
                    match types.get(m.name.as_str()) {
                        None => bad.push(("union-member-defined", format!("{name} = {}", m.name))),
                        Some(ExtendedType::Object(_)) => {}
                        Some(_) => bad.push(("union-member-is-object", format!("{name} = {}", m.name))),
                    }
                }
            }
            ExtendedType::Enum(e) => {
                if user {
                    for v in e.values.keys() {
                        user_name("enum value", v.as_str(), &mut bad);
                    }
                }
            }
            ExtendedType::InputObject(io) => {
                for (fname, f) in &io.fields {
                    let n = f.ty.inner_named_type().as_str();
                    note_ref(n);
                    if !types.contains_key(n) {
                        bad.push(("input-field-type-defined", format!("{name}.{fname}: {}", f.ty)));
                    } else if !is_input(n) {
                        bad.push(("input-field-type-is-input", format!("{name}.{fname}: {}", f.ty)));
                    }
                    if user {
                        user_name("input field", fname.as_str(), &mut bad);
                    }
                }
            }
            _ => {}
        }
    }
    for (dname, d) in &schema.directive_definitions {
        // built-in directive names never start with `__`, so every directive name is tested
        user_name("directive", dname.as_str(), &mut bad);
        check_args(&format!("@{dname}"), &d.arguments, true, &mut bad, &mut note_ref);
    }

    // --- no cycle through non-null, non-list input-object fields (harness DFS)
    let links = |n: &str| -> Vec<&str> {
        match types.get(n) {
            Some(ExtendedType::InputObject(io)) => io
                .fields
                .values()
                .filter_map(|f| match &*f.ty {
                    Type::NonNullNamed(t) if matches!(types.get(t.as_str()), Some(ExtendedType::InputObject(_))) => Some(t.as_str()),
                    _ => None,
                })
                .collect(),
            _ => vec![],
        }
    };
    for (name, def) in types {
        if !matches!(def, ExtendedType::InputObject(_)) {
            continue;
        }
        let mut reached: BTreeSet<&str> = BTreeSet::new();
        let mut todo = links(name.as_str());
        feat.input_links += todo.len();
        while let Some(n) = todo.pop() {
            if reached.insert(n) {
                todo.extend(links(n));
            }
        }
        if reached.contains(name.as_str()) {
            bad.push(("no-non-null-input-cycle", name.to_string()));
        }
    }

    // --- the type map contains exactly the built-in scalars that are referenced
    let present: BTreeSet<&str> = BUILTIN_SCALARS.iter().copied().filter(|s| types.contains_key(*s)).collect();
    feat.extra_scalars = referenced_scalars.iter().filter(|s| !matches!(**s, "String" | "Boolean")).count();
    if present != referenced_scalars {
        bad.push((
            "built-in-scalars-exactly-referenced",
            format!("types contains {present:?}, referenced are {referenced_scalars:?}"),
        ));
    }
    for s in BUILTIN_SCALARS {
        if let Some(def) = types.get(s) {
            if !matches!(def, ExtendedType::Scalar(_)) {
                bad.push(("built-in-scalars-exactly-referenced", format!("{s} is not a scalar")));
            }
        }
    }
    bad
}

fn check_schema(origin: &str, space: &str, text: &str, st: &mut Stats) {
    st.states += 1;
    st.transitions += 1;
    let case = || json!({"text": text, "origin": origin, "space": space});
    let res = vcore::catch(|| Schema::parse_and_validate(text, "s.graphql").ok().map(|valid| {
        let mut feat = Features::default();
        let bad = invariants(&valid, &mut feat);
        (bad, feat)
    }));
    let (bad, feat) = match res {
        Err(p) => {
            st.fail_simple("panic", case(), format!("panicked: {p}"), text.len() as u64);
            return;
        }
        Ok(None) => {
            st.outcome("rejected-by-apollo (not judged)");
            return;
        }
        Ok(Some(x)) => x,
    };
    st.nontrivial += 1;
    let mut label = String::from("accepted");
    for (flag, on) in [
        ("multi-root", feat.roots > 1),
        ("contracts", feat.contracts > 0),
        ("unions", feat.union_members > 0),
        ("non-null-input-links", feat.input_links > 0),
        ("Int/Float/ID-referenced", feat.extra_scalars > 0),
    ] {
        if on {
            label.push('+');
            label.push_str(flag);
        }
    }
    st.outcome(&label);
    if text.len() % 97 == 3 {
        st.sample(json!({"origin": origin, "schema": vcore::short(text), "features": label}));
    }
    for (inv, detail) in bad {
        st.fail_simple(inv, case(), format!("accepted schema violates {inv}: {detail} [{origin}]"), text.len() as u64);
    }
}

fn replay(case: &Value, st: &mut Stats) {
    check_schema(
        case["origin"].as_str().unwrap_or("replay"),
        case["space"].as_str().unwrap_or("mutation"),
        case["text"].as_str().unwrap_or(""),
        st,
    );
}

fn main() {
    let mut chk = Check::new("C15");
    vcore::quiet_panics();
    if let Some(case) = chk.replay_case() {
        let mut st = Stats::default();
        replay(&case, &mut st);
        chk.absorb(st);
        chk.finish_replay();
    }
    let (stats, bounds) = schemas::sweep(chk.tier(), |c: &Case<'_>, st| check_schema(&c.origin, c.space, c.text, st));
    chk.absorb(stats);
    chk.bounds = bounds;
    chk.rule = "every in-alphabet schema of C14's spaces is given to Schema::parse_and_validate; non-trivial = accepted schemas \
                (each is judged against every invariant of the statement)"
        .into();
    chk.assumptions = vec![
        "invariants are evaluated on the public fields schema_definition / types / directive_definitions of Valid<Schema>; user-defined = every type other than the 5 built-in scalars and the 8 introspection types, and every directive".into(),
        "IsValidImplementationFieldType is refmodel::compat's spec-verbatim function over relations extracted from the same Valid<Schema>".into(),
        "the referenced built-in scalars are computed by a harness scan over all field, argument, input-field and directive-argument types, built-in definitions included".into(),
        "schemas outside C14's alphabet (see C14 assumptions) are not explored".into(),
    ];
    chk.exhaustive = true;
    chk.finish(&|case| {
        let mut st = Stats::default();
        replay(case, &mut st);
        !st.failures.is_empty()
    })
}
