//! C15 — valid schemas are internally consistent (DESIGN.md §6 C15).
//! Rides on the schema spaces of C14: for every schema that `Schema::parse_and_validate`
//! ACCEPTS, the invariants of the property statement are evaluated directly on the public
//! fields of `Valid<Schema>`. No reference validator is involved; the only reference function is
//! the spec-verbatim `IsValidImplementationFieldType` of `refmodel::compat`.

use apollo_compiler::ast::Type;
use apollo_compiler::schema::{ExtendedType, FieldDefinition, InputValueDefinition};
use apollo_compiler::Schema;
use checks::schemas::{self, Case};
use refmodel::ast::Ty;
use refmodel::compat::{self, SimpleRelations};
use refmodel::typesys::{BUILTIN_SCALARS, INTROSPECTION_TYPES};
use serde_json::{json, Value};
use std::collections::BTreeSet;
use vcore::{Check, Stats};

fn ty(t: &Type) -> Ty {
    match t {
        Type::Named(n) => Ty::named(n.as_str()),
        Type::NonNullNamed(n) => Ty::named(n.as_str()).non_null(),
        Type::List(inner) => ty(inner).list(),
        Type::NonNullList(inner) => ty(inner).list().non_null(),
    }
}

#[derive(Default)]
struct Features {
    roots: usize,
    contracts: usize,
    union_members: usize,
    input_links: usize,
    extra_scalars: usize,
}

/// All invariant violations of one accepted schema: (invariant name, detail).
fn invariants(schema: &Schema, feat: &mut Features) -> Vec<(&'static str, String)> {
    let mut bad: Vec<(&'static str, String)> = Vec::new();
    let types = &schema.types;
    let is_input = |n: &str| matches!(types.get(n), Some(ExtendedType::Scalar(_) | ExtendedType::Enum(_) | ExtendedType::InputObject(_)));
    let is_output = |n: &str| matches!(types.get(n), Some(t) if !matches!(t, ExtendedType::InputObject(_)));

    // --- roots
    let sd = &schema.schema_definition;
    if sd.query.is_none() {
        bad.push(("query-root-present", "schema_definition.query is None".into()));
    }
    let roots: Vec<(&str, &str)> = [("query", &sd.query), ("mutation", &sd.mutation), ("subscription", &sd.subscription)]
        .into_iter()
        .filter_map(|(op, r)| r.as_ref().map(|n| (op, n.name.as_str())))
        .collect();
    feat.roots = roots.len();
    for (i, (op, n)) in roots.iter().enumerate() {
        match types.get(*n) {
            None => bad.push(("root-type-defined", format!("{op}: {n}"))),
            Some(ExtendedType::Object(_)) => {}
            Some(_) => bad.push(("root-type-is-object", format!("{op}: {n}"))),
        }
        if roots[..i].iter().any(|(_, m)| m == n) {
            bad.push(("root-types-distinct", format!("{op}: {n}")));
        }
    }

    // --- relations for the sub-typing function, as plain harness data
    let mut rel = SimpleRelations::default();
    for (name, def) in types {
        match def {
            ExtendedType::Object(o) => {
                rel = rel.object(name.as_str(), &o.implements_interfaces.iter().map(|c| c.name.as_str()).collect::<Vec<_>>());
            }
            ExtendedType::Interface(o) => {
                rel = rel.interface(name.as_str(), &o.implements_interfaces.iter().map(|c| c.name.as_str()).collect::<Vec<_>>());
            }
            ExtendedType::Union(u) => {
                rel = rel.union(name.as_str(), &u.members.iter().map(|c| c.name.as_str()).collect::<Vec<_>>());
            }
            _ => {}
        }
    }

    let mut referenced_scalars: BTreeSet<&str> = BTreeSet::new();
    let mut note_ref = |n: &'_ str| {
        if let Some(s) = BUILTIN_SCALARS.iter().find(|s| **s == n) {
            referenced_scalars.insert(*s);
        }
    };
    let user_name = |what: &str, n: &str, bad: &mut Vec<(&'static str, String)>| {
        if n.starts_with("__") {
            bad.push(("no-reserved-user-names", format!("{what} {n}")));
        }
    };
    let check_args = |owner: &str,
                      args: &[apollo_compiler::Node<InputValueDefinition>],
                      user: bool,
                      bad: &mut Vec<(&'static str, String)>,
                      note_ref: &mut dyn FnMut(&str)| {
        for a in args {
            let n = a.ty.inner_named_type().as_str();
            note_ref(n);
            if !types.contains_key(n) {
                bad.push(("argument-type-defined", format!("{owner}({}: {})", a.name, a.ty)));
            } else if !is_input(n) {
                bad.push(("argument-type-is-input", format!("{owner}({}: {})", a.name, a.ty)));
            }
            if user {
                user_name("argument", a.name.as_str(), bad);
            }
        }
    };
    let is_introspection = |n: &str| INTROSPECTION_TYPES.iter().any(|(x, _)| *x == n);

    for (name, def) in types {
        let user = !is_introspection(name.as_str()) && !BUILTIN_SCALARS.contains(&name.as_str());
        if user {
            user_name("type", name.as_str(), &mut bad);
        }
        let (fields, implements): (Option<&apollo_compiler::collections::IndexMap<_, apollo_compiler::schema::Component<FieldDefinition>>>, Option<_>) = match def {
            ExtendedType::Object(o) => (Some(&o.fields), Some(&o.implements_interfaces)),
            ExtendedType::Interface(o) => (Some(&o.fields), Some(&o.implements_interfaces)),
            _ => (None, None),
        };
        if let Some(fields) = fields {
            for (fname, f) in fields {
                let n = f.ty.inner_named_type().as_str();
                note_ref(n);
                if !types.contains_key(n) {
                    bad.push(("field-type-defined", format!("{name}.{fname}: {}", f.ty)));
                } else if !is_output(n) {
                    bad.push(("field-type-is-output", format!("{name}.{fname}: {}", f.ty)));
                }
                if user {
                    user_name("field", fname.as_str(), &mut bad);
                }
                check_args(&format!("{name}.{fname}"), &f.arguments, user, &mut bad, &mut note_ref);
            }
        }
        if let Some(implements) = implements {
            for i in implements {
                let iname = i.name.as_str();
                let iface = match types.get(iname) {
                    None => {
                        bad.push(("implements-defined", format!("{name} implements {iname}")));
                        continue;
                    }
                    Some(ExtendedType::Interface(iface)) => iface,
                    Some(_) => {
                        bad.push(("implements-is-interface", format!("{name} implements {iname}")));
                        continue;
                    }
                };
                if iname == name.as_str() {
                    bad.push(("implements-not-itself", name.to_string()));
                }
                for j in &iface.implements_interfaces {
                    if !implements.iter().any(|x| x.name == j.name) {
                        bad.push(("transitive-interfaces-listed", format!("{name} implements {iname} without {}", j.name)));
                    }
                }
                // field / argument contract
                let fields = fields.expect("types with `implements` have fields");
                for (fname, ifield) in &iface.fields {
                    feat.contracts += 1;
                    let Some(field) = fields.get(fname) else {
                        bad.push(("implementation-field-present", format!("{name}.{fname} for {iname}")));
                        continue;
                    };
                    if !compat::is_valid_implementation_field_type(&ty(&field.ty), &ty(&ifield.ty), &rel) {
                        bad.push((
                            "implementation-field-type",
                            format!("{name}.{fname}: {} does not implement {iname}.{fname}: {}", field.ty, ifield.ty),
                        ));
                    }
                    for iarg in &ifield.arguments {
                        match field.arguments.iter().find(|a| a.name == iarg.name) {
                            None => bad.push(("implementation-argument-present", format!("{name}.{fname}({}:) for {iname}", iarg.name))),
                            Some(arg) => {
                                if ty(&arg.ty) != ty(&iarg.ty) {
                                    bad.push((
                                        "implementation-argument-type-equal",
                                        format!("{name}.{fname}({}: {}) vs {iname}: {}", iarg.name, arg.ty, iarg.ty),
                                    ));
                                }
                            }
                        }
                    }
                    for arg in &field.arguments {
                        let extra = !ifield.arguments.iter().any(|a| a.name == arg.name);
                        if extra && arg.ty.is_non_null() && arg.default_value.is_none() {
                            bad.push(("implementation-no-extra-required-argument", format!("{name}.{fname}({}:) for {iname}", arg.name)));
                        }
                    }
                }
            }
        }
        match def {
            ExtendedType::Union(u) => {
                for m in &u.members {
                    feat.union_members += 1;
                    match types.get(m.name.as_str()) {
                        None => bad.push(("union-member-defined", format!("{name} = {}", m.name))),
                        Some(ExtendedType::Object(_)) => {}
                        Some(_) => bad.push(("union-member-is-object", format!("{name} = {}", m.name))),
                    }
                }
            }
            ExtendedType::Enum(e) => {
                if user {
                    for v in e.values.keys() {
                        user_name("enum value", v.as_str(), &mut bad);
                    }
                }
            }
            ExtendedType::InputObject(io) => {
                for (fname, f) in &io.fields {
                    let n = f.ty.inner_named_type().as_str();
                    note_ref(n);
                    if !types.contains_key(n) {
                        bad.push(("input-field-type-defined", format!("{name}.{fname}: {}", f.ty)));
                    } else if !is_input(n) {
                        bad.push(("input-field-type-is-input", format!("{name}.{fname}: {}", f.ty)));
                    }
                    if user {
                        user_name("input field", fname.as_str(), &mut bad);
                    }
                }
            }
            _ => {}
        }
    }
    for (dname, d) in &schema.directive_definitions {
        // built-in directive names never start with `__`, so every directive name is tested
        user_name("directive", dname.as_str(), &mut bad);
        check_args(&format!("@{dname}"), &d.arguments, true, &mut bad, &mut note_ref);
    }

    // --- no cycle through non-null, non-list input-object fields (harness DFS)
    let links = |n: &str| -> Vec<&str> {
        match types.get(n) {
            Some(ExtendedType::InputObject(io)) => io
                .fields
                .values()
                .filter_map(|f| match &*f.ty {
                    Type::NonNullNamed(t) if matches!(types.get(t.as_str()), Some(ExtendedType::InputObject(_))) => Some(t.as_str()),
                    _ => None,
                })
                .collect(),
            _ => vec![],
        }
    };
    for (name, def) in types {
        if !matches!(def, ExtendedType::InputObject(_)) {
            continue;
        }
        let mut reached: BTreeSet<&str> = BTreeSet::new();
        let mut todo = links(name.as_str());
        feat.input_links += todo.len();
        while let Some(n) = todo.pop() {
            if reached.insert(n) {
                todo.extend(links(n));
            }
        }
        if reached.contains(name.as_str()) {
            bad.push(("no-non-null-input-cycle", name.to_string()));
        }
    }

    // --- the type map contains exactly the built-in scalars that are referenced
    let present: BTreeSet<&str> = BUILTIN_SCALARS.iter().copied().filter(|s| types.contains_key(*s)).collect();
    feat.extra_scalars = referenced_scalars.iter().filter(|s| !matches!(**s, "String" | "Boolean")).count();
    if present != referenced_scalars {
        bad.push((
            "built-in-scalars-exactly-referenced",
            format!("types contains {present:?}, referenced are {referenced_scalars:?}"),
        ));
    }
    for s in BUILTIN_SCALARS {
        if let Some(def) = types.get(s) {
            if !matches!(def, ExtendedType::Scalar(_)) {
                bad.push(("built-in-scalars-exactly-referenced", format!("{s} is not a scalar")));
            }
        }
    }
    bad
}

fn check_schema(origin: &str, space: &str, text: &str, st: &mut Stats) {
    st.states += 1;
    st.transitions += 1;
    let case = || json!({"text": text, "origin": origin, "space": space});
    let res = vcore::catch(|| Schema::parse_and_validate(text, "s.graphql").ok().map(|valid| {
        let mut feat = Features::default();
        let bad = invariants(&valid, &mut feat);
        (bad, feat)
    }));
    let (bad, feat) = match res {
        Err(p) => {
            st.fail_simple("panic", case(), format!("panicked: {p}"), text.len() as u64);
            return;
        }
        Ok(None) => {
            st.outcome("rejected-by-apollo (not judged)");
            return;
        }
        Ok(Some(x)) => x,
    };
    st.nontrivial += 1;
    let mut label = String::from("accepted");
    for (flag, on) in [
        ("multi-root", feat.roots > 1),
        ("contracts", feat.contracts > 0),
        ("unions", feat.union_members > 0),
        ("non-null-input-links", feat.input_links > 0),
        ("Int/Float/ID-referenced", feat.extra_scalars > 0),
    ] {
        if on {
            label.push('+');
            label.push_str(flag);
        }
    }
    st.outcome(&label);
    if text.len() % 97 == 3 {
        st.sample(json!({"origin": origin, "schema": vcore::short(text), "features": label}));
    }
    for (inv, detail) in bad {
        st.fail_simple(inv, case(), format!("accepted schema violates {inv}: {detail} [{origin}]"), text.len() as u64);
    }
}

// ---- re-validation histories ("schemas reached by mutating ... until they validate") ----
// state = a schema value; one step = edit it through the public fields, validate; an accepted result is
// judged against the invariants and unwrapped (`into_inner`) to be edited again.

const HIST_BASES: &[&str] = &[
    "type Query{q:Int}",
    "type Query{q:Int w:Float}",
    "type Query{q:Query s:String}",
    "input In{x:ID} type Query{q(i:In b:Boolean):Query}",
];
const HIST_SCALARS: [&str; 5] = ["Int", "Float", "String", "Boolean", "ID"];
/// ops 0..5: add field `f<Scalar>: <Scalar>` to Query; 5: remove field `q`; 6: remove field `w`;
/// 7..12: remove field `f<Scalar>`; 12: add field `u: Undefined` (makes the schema invalid); 13: remove `u`;
/// 14: validate, and if accepted continue from `into_inner()`. Every history ends with a validation.
const HIST_VALIDATE: usize = 14;
const HIST_OPS: usize = 15;

fn hist_op_name(op: usize) -> String {
    match op {
        0..=4 => format!("add f{0}:{0}", HIST_SCALARS[op]),
        5 => "remove q".into(),
        6 => "remove w".into(),
        7..=11 => format!("remove f{}", HIST_SCALARS[op - 7]),
        12 => "add u:Undefined".into(),
        13 => "remove u".into(),
        _ => "validate".into(),
    }
}

fn hist_apply(s: &mut Schema, op: usize) -> bool {
    let Some(ExtendedType::Object(q)) = s.types.get_mut("Query") else { return false };
    let q = q.make_mut();
    let mk = |n: &str| apollo_compiler::Name::new(n).expect("harness name");
    let mut add = |q: &mut apollo_compiler::schema::ObjectType, f: &str, t: &str| -> bool {
        if q.fields.contains_key(f) {
            return false;
        }
        q.fields.insert(
            mk(f),
            apollo_compiler::schema::Component::new(FieldDefinition {
                description: None,
                name: mk(f),
                arguments: Vec::new(),
                ty: Type::Named(mk(t)),
                directives: Default::default(),
            }),
        );
        true
    };
    let remove = |q: &mut apollo_compiler::schema::ObjectType, f: &str| -> bool {
        q.fields.len() >= 2 && q.fields.shift_remove(f).is_some()
    };
    match op {
        0..=4 => add(q, &format!("f{}", HIST_SCALARS[op]), HIST_SCALARS[op]),
        5 => remove(q, "q"),
        6 => remove(q, "w"),
        7..=11 => remove(q, &format!("f{}", HIST_SCALARS[op - 7])),
        12 => add(q, "u", "Undefined"),
        _ => remove(q, "u"),
    }
}

/// Replay `ops` from base `b`; the invariants are judged after the LAST step only (earlier prefixes are
/// histories of their own). Returns false if some op of the history is not enabled.
fn run_history(b: usize, ops: &[usize], st: &mut Stats) -> bool {
    let Ok(valid) = Schema::parse_and_validate(HIST_BASES[b], "s.graphql") else {
        vcore::machinery_error("C15 history base does not validate")
    };
    let mut cur: Schema = valid.into_inner();
    let case = || json!({"family": "history", "base": b, "base_text": HIST_BASES[b], "ops": ops,
                         "history": ops.iter().map(|o| hist_op_name(*o)).collect::<Vec<_>>()});
    // the explored history is `ops` followed by a final validation; a validation directly after another
    // one, or as the first step, is a stutter of a shorter history and is skipped
    let mut steps: Vec<usize> = ops.to_vec();
    if steps.first() == Some(&HIST_VALIDATE) || steps.last() == Some(&HIST_VALIDATE) || steps.windows(2).any(|w| w[0] == HIST_VALIDATE && w[1] == HIST_VALIDATE) {
        return false;
    }
    steps.push(HIST_VALIDATE);
    for (i, op) in steps.iter().enumerate() {
        if *op != HIST_VALIDATE {
            if !hist_apply(&mut cur, *op) {
                return false;
            }
            continue;
        }
        st.transitions += 1;
        let last = i + 1 == steps.len();
        let attempt = cur.clone();
        match vcore::catch(move || attempt.validate()) {
            Err(p) => {
                st.fail_simple("panic", case(), format!("validate panicked: {p}"), ops.len() as u64);
                return true;
            }
            Ok(Ok(v)) => {
                if last {
                    st.nontrivial += 1;
                    let mut feat = Features::default();
                    let bad = invariants(&v, &mut feat);
                    st.outcome(if bad.is_empty() { "history: accepted, consistent" } else { "history: accepted, inconsistent" });
                    for (inv, detail) in bad {
                        st.fail_simple(inv, case(), format!("schema accepted after the history {:?} + validate from `{}` violates {inv}: {detail}",
                            ops.iter().map(|o| hist_op_name(*o)).collect::<Vec<_>>(), HIST_BASES[b]), ops.len() as u64);
                    }
                }
                cur = v.into_inner();
            }
            Ok(Err(_)) => {
                if last {
                    st.outcome("history: rejected (not judged)");
                }
            }
        }
    }
    st.states += 1;
    true
}

fn replay(case: &Value, st: &mut Stats) {
    if case["family"].as_str() == Some("history") {
        let ops: Vec<usize> = case["ops"].as_array().map(|a| a.iter().map(|x| x.as_u64().unwrap_or(0) as usize).collect()).unwrap_or_default();
        run_history(case["base"].as_u64().unwrap_or(0) as usize, &ops, st);
        return;
    }
    check_schema(
        case["origin"].as_str().unwrap_or("replay"),
        case["space"].as_str().unwrap_or("mutation"),
        case["text"].as_str().unwrap_or(""),
        st,
    );
}

fn main() {
    let mut chk = Check::new("C15");
    vcore::quiet_panics();
    if let Some(case) = chk.replay_case() {
        let mut st = Stats::default();
        replay(&case, &mut st);
        chk.absorb(st);
        chk.finish_replay();
    }
    let (stats, bounds) = schemas::sweep(chk.tier(), |c: &Case<'_>, st| check_schema(&c.origin, c.space, c.text, st));
    chk.absorb(stats);
    let mut bounds = bounds;
    let depth = chk.tier().pick(3, 4);
    let k = HIST_OPS as u64;
    let per_base = vcore::enumerate::count_upto(k, depth) - 1;
    let stats = vcore::par_sweep(per_base * HIST_BASES.len() as u64, 64, |i, st| {
        let mut seq = Vec::new();
        vcore::enumerate::nth_upto(k, i % per_base + 1, &mut seq);
        if run_history((i / per_base) as usize, &seq, st) {
            st.count("histories explored", 1);
        } else {
            st.count("histories with a disabled step (skipped)", 1);
        }
    });
    chk.absorb(stats);
    bounds["histories"] = json!({"bases": HIST_BASES, "operations": (0..HIST_OPS).map(hist_op_name).collect::<Vec<_>>(), "max_depth": depth,
        "step": "an edit of the unwrapped schema through its public fields, or `validate` (an accepted schema is unwrapped with into_inner() and edited further); every history ends with a validation, whose result is judged",
        "sequences": per_base * HIST_BASES.len() as u64});
    chk.bounds = bounds;
    chk.rule = "every in-alphabet schema of C14's spaces is given to Schema::parse_and_validate, and every sequence of <= max_depth edit / validate steps from each history base; non-trivial = accepted schemas \
                (each is judged against every invariant of the statement)"
        .into();
    chk.assumptions = vec![
        "invariants are evaluated on the public fields schema_definition / types / directive_definitions of Valid<Schema>; user-defined = every type other than the 5 built-in scalars and the 8 introspection types, and every directive".into(),
        "IsValidImplementationFieldType is refmodel::compat's spec-verbatim function over relations extracted from the same Valid<Schema>".into(),
        "the referenced built-in scalars are computed by a harness scan over all field, argument, input-field and directive-argument types, built-in definitions included".into(),
        "schemas outside C14's alphabet (see C14 assumptions) are not explored".into(),
    ];
    chk.exhaustive = true;
    chk.finish(&|case| {
        let mut st = Stats::default();
        replay(case, &mut st);
        !st.failures.is_empty()
    })
}
