//! C21 — the compiler never panics on adversarial input (DESIGN.md §6 C21, §2.4).
//! E-INPUT over parametric adversarial families (chains, cycles, deep nesting around every
//! internal limit) plus every single-token edit of the n = 3 instances. Every case drives all
//! public pipelines. The sweep runs in CHILD PROCESSES (this binary re-executes itself with
//! `--shard i/n`): a stack overflow aborts the process, so the parent watches exit status and a
//! wall-clock watchdog, and each case runs under `catch_unwind` on a thread with a 2 MiB stack.
//!
//! Oracle (the statement): no panic / abort / timeout; chains longer than the internal limit that
//! applies to the family yield `Err` whose diagnostics include a recursion-limit diagnostic; every
//! returned `DiagnosticList` iterates in non-decreasing (file, offset) order, location-less first.

use apollo_compiler::diagnostic::{Color, ToCliReport};
use apollo_compiler::validation::{DiagnosticList, Valid};
use apollo_compiler::{ast, ExecutableDocument, Schema};
use serde_json::{json, Value};
use std::io::{BufRead, BufReader, Write};
use std::process::{Command, Stdio};
use std::sync::mpsc;
use std::time::Duration;
use vcore::{Check, Stats, Tier};

const SIZES: &[usize] = &[1, 2, 3, 31, 32, 33, 99, 100, 101, 127, 128, 129, 499, 500, 501, 2000];
const NSHARDS: usize = 16;
const STACK: usize = 2 << 20;

// Internal limits, as read from the code (crates/apollo-compiler/src/validation):
//   RecursionStack default 32 (directive definitions, input objects); `validate_fragment_cycles` 100;
//   FIELD_DEPTH_LIMIT 128 (field merging); apollo-parser recursion limit 500.
const LIMIT_DEFAULT: usize = 32;
const LIMIT_FRAGMENTS: usize = 100;
const LIMIT_FIELD_DEPTH: usize = 128;
const LIMIT_PARSER: usize = 500;

const BASE_SCHEMA: &str = "type Query { a : Query i : Int l : [ Query ] f ( x : In v : [ [ Int ] ] ) : Int } input In { x : In y : Int }";

const INTROSPECTION: &str = r#"query IntrospectionQuery { __schema { queryType { name } mutationType { name } subscriptionType { name }
 types { ...FullType } directives { name description locations args(includeDeprecated: true) { ...InputValue } } } }
fragment FullType on __Type { kind name description
 fields(includeDeprecated: true) { name description args(includeDeprecated: true) { ...InputValue } type { ...TypeRef } isDeprecated deprecationReason }
 inputFields(includeDeprecated: true) { ...InputValue } interfaces { ...TypeRef }
 enumValues(includeDeprecated: true) { name description isDeprecated deprecationReason } possibleTypes { ...TypeRef } }
fragment InputValue on __InputValue { name description type { ...TypeRef } defaultValue isDeprecated deprecationReason }
fragment TypeRef on __Type { kind name ofType { kind name ofType { kind name ofType { kind name ofType { kind name ofType { kind name ofType { kind name ofType { kind name } } } } } } } }"#;

// ---------------------------------------------------------------------------------
// Cases
// ---------------------------------------------------------------------------------

#[derive(Clone, Copy, PartialEq, Eq, Debug)]
enum Stage {
    ParseSchema,
    ParseExec,
    SchemaValidate,
    ExecValidate,
}

impl Stage {
    fn name(self) -> &'static str {
        match self {
            Stage::ParseSchema => "parse-schema",
            Stage::ParseExec => "parse-exec",
            Stage::SchemaValidate => "schema-validate",
            Stage::ExecValidate => "exec-validate",
        }
    }
    fn from_name(s: &str) -> Option<Stage> {
        [Stage::ParseSchema, Stage::ParseExec, Stage::SchemaValidate, Stage::ExecValidate].into_iter().find(|x| x.name() == s)
    }
}

#[derive(Clone, Debug)]
struct Case {
    group: &'static str,
    family: String,
    n: usize,
    edit: Option<String>,
    schema: Vec<String>,
    exec: Vec<String>,
    /// the stage whose result must be `Err` with a recursion-limit diagnostic
    expect: Option<Stage>,
}

impl Case {
    fn schema_text(&self) -> String {
        self.schema.join(" ")
    }
    fn exec_text(&self) -> String {
        self.exec.join(" ")
    }
    fn to_json(&self) -> Value {
        json!({
            "group": self.group, "family": self.family, "n": self.n, "edit": self.edit,
            "schema": self.schema_text(), "exec": self.exec_text(),
            "expect_limit_diagnostic_at": self.expect.map(|s| s.name()),
        })
    }
    fn size(&self) -> u64 {
        (self.schema.len() + self.exec.len()) as u64
    }
}

fn toks(s: &str) -> Vec<String> {
    s.split_whitespace().map(|t| t.to_string()).collect()
}

fn wrap(kind: &str, inner: &str) -> String {
    match kind {
        "direct" => inner.to_string(),
        "inline" => format!("... on Query {{ {inner} }}"),
        "field" => format!("a {{ {inner} }}"),
        _ => unreachable!(),
    }
}

/// Back-edge targets for a chain of n elements: none, plus every earlier position for n <= 6,
/// plus {first, middle, self} for the longer ones.
fn back_edges(n: usize) -> Vec<Option<usize>> {
    let mut v = vec![None];
    if n <= 6 {
        v.extend((1..=n).map(Some));
    } else {
        v.extend([Some(1), Some(n / 2), Some(n)]);
    }
    v
}

fn back_name(b: Option<usize>) -> String {
    match b {
        None => "acyclic".into(),
        Some(j) => format!("back-to-{j}"),
    }
}

fn families(sizes: &[usize]) -> Vec<Case> {
    let mut out = Vec::new();
    let base = toks(BASE_SCHEMA);
    let simple_exec = toks("{ i }");
    for &n in sizes {
        // ---- fragment chains: reached directly, through an inline fragment, through a field
        for kind in ["direct", "inline", "field"] {
            for back in back_edges(n) {
                let mut t = String::from("query { ... F1 }");
                for k in 1..=n {
                    let body = if k < n {
                        wrap(kind, &format!("... F{}", k + 1))
                    } else {
                        match back {
                            None => "i".to_string(),
                            Some(j) => wrap(kind, &format!("... F{j}")),
                        }
                    };
                    t.push_str(&format!(" fragment F{k} on Query {{ {body} }}"));
                }
                out.push(Case {
                    group: "fragment-chain",
                    family: format!("fragment-chain/{kind}/{}", back_name(back)),
                    n,
                    edit: None,
                    schema: base.clone(),
                    exec: toks(&t),
                    // F1's cycle search pushes F2.. on a RecursionStack(limit 100) rooted at F1
                    expect: (back.is_none() && n > LIMIT_FRAGMENTS).then_some(Stage::ExecValidate),
                });
            }
        }
        // ---- selection-set nesting beyond the parser limit, via fragments of 100 levels each
        {
            let mut t = String::from("query { ... G1 }");
            let nfrag = n.div_ceil(100);
            let mut left = n;
            for k in 1..=nfrag {
                let levels = left.min(100);
                left -= levels;
                let mut body = if k < nfrag { format!("... G{}", k + 1) } else { "i".to_string() };
                for _ in 0..levels {
                    body = format!("a {{ {body} }}");
                }
                t.push_str(&format!(" fragment G{k} on Query {{ {body} }}"));
            }
            out.push(Case {
                group: "selection-nesting",
                family: "selection-nesting/via-fragments".into(),
                n,
                edit: None,
                schema: base.clone(),
                exec: toks(&t),
                expect: (n > LIMIT_FIELD_DEPTH).then_some(Stage::ExecValidate),
            });
            // directly nested (the parser limit applies beyond 500)
            let mut body = "i".to_string();
            for _ in 0..n {
                body = format!("a {{ {body} }}");
            }
            out.push(Case {
                group: "selection-nesting",
                family: "selection-nesting/direct".into(),
                n,
                edit: None,
                schema: base.clone(),
                exec: toks(&format!("query {{ {body} }}")),
                expect: if n > LIMIT_PARSER {
                    Some(Stage::ParseExec)
                } else if n > LIMIT_FIELD_DEPTH {
                    Some(Stage::ExecValidate)
                } else {
                    None
                },
            });
        }
        // ---- nested list / object values and list types
        {
            let list = format!("{} 1 {}", "[ ".repeat(n), "] ".repeat(n));
            let mut obj = "{ y : 1 }".to_string();
            for _ in 1..n {
                obj = format!("{{ x : {obj} }}");
            }
            let ty = format!("{} Int {}", "[ ".repeat(n), "] ".repeat(n));
            let parse_limit = |stage: Stage| (n > LIMIT_PARSER).then_some(stage);
            out.push(Case {
                group: "value-nesting",
                family: "value-nesting/list-argument".into(),
                n,
                edit: None,
                schema: base.clone(),
                exec: toks(&format!("{{ f ( v : {list} ) }}")),
                expect: parse_limit(Stage::ParseExec),
            });
            out.push(Case {
                group: "value-nesting",
                family: "value-nesting/object-argument".into(),
                n,
                edit: None,
                schema: base.clone(),
                exec: toks(&format!("{{ f ( x : {obj} ) }}")),
                expect: parse_limit(Stage::ParseExec),
            });
            out.push(Case {
                group: "value-nesting",
                family: "value-nesting/variable-default".into(),
                n,
                edit: None,
                schema: base.clone(),
                exec: toks(&format!("query ( $v : [ [ Int ] ] = {list} , $x : In = {obj} ) {{ f ( v : $v , x : $x ) }}")),
                expect: parse_limit(Stage::ParseExec),
            });
            out.push(Case {
                group: "value-nesting",
                family: "value-nesting/schema-default".into(),
                n,
                edit: None,
                schema: toks(&format!(
                    "type Query {{ f ( v : [ [ Int ] ] = {list} x : In = {obj} ) : Int }} input In {{ x : In y : Int = 2 l : [ [ Int ] ] = {list} }}"
                )),
                exec: simple_exec_for("f"),
                expect: parse_limit(Stage::ParseSchema),
            });
            out.push(Case {
                group: "value-nesting",
                family: "value-nesting/list-type".into(),
                n,
                edit: None,
                schema: toks(&format!("type Query {{ f ( v : {ty} ) : {ty} i : Int }}")),
                exec: toks(&format!("query ( $v : {ty} ) {{ f ( v : $v ) }}")),
                expect: parse_limit(Stage::ParseSchema),
            });
        }
        // ---- directive-definition chains through argument directives, enum values, input objects
        for via in ["argument", "enum-value", "input-field"] {
            for back in back_edges(n) {
                let mut t = String::from("type Query { i : Int }");
                for k in 1..=n {
                    let next: Option<usize> = if k < n { Some(k + 1) } else { back };
                    let usage = next.map(|j| format!("@d{j}")).unwrap_or_default();
                    match via {
                        "argument" => t.push_str(&format!(" directive @d{k} ( a : Int {usage} ) on ARGUMENT_DEFINITION")),
                        "enum-value" => t.push_str(&format!(
                            " directive @d{k} ( a : E{k} ) on ARGUMENT_DEFINITION | ENUM_VALUE enum E{k} {{ V {usage} }}"
                        )),
                        _ => t.push_str(&format!(
                            " directive @d{k} ( a : I{k} ) on ARGUMENT_DEFINITION | INPUT_FIELD_DEFINITION input I{k} {{ x : Int {usage} }}"
                        )),
                    }
                }
                out.push(Case {
                    group: "directive-chain",
                    family: format!("directive-chain/{via}/{}", back_name(back)),
                    n,
                    edit: None,
                    schema: toks(&t),
                    exec: simple_exec.clone(),
                    // RecursionStack(limit 32) rooted at d1, one push per further directive
                    expect: (back.is_none() && n > LIMIT_DEFAULT).then_some(Stage::SchemaValidate),
                });
            }
        }
        // ---- non-null input-object chains and cycles
        for back in back_edges(n) {
            let mut t = String::from("type Query { i : Int f ( x : I1 ) : Int }");
            for k in 1..=n {
                let next: Option<usize> = if k < n { Some(k + 1) } else { back };
                match next {
                    Some(j) => t.push_str(&format!(" input I{k} {{ x : I{j} ! y : Int }}")),
                    None => t.push_str(&format!(" input I{k} {{ y : Int }}")),
                }
            }
            out.push(Case {
                group: "input-object-chain",
                family: format!("input-object-chain/non-null/{}", back_name(back)),
                n,
                edit: None,
                schema: toks(&t),
                exec: simple_exec.clone(),
                expect: (back.is_none() && n > LIMIT_DEFAULT).then_some(Stage::SchemaValidate),
            });
        }
        // ---- interface `implements` chains and cycles (no recursion limit is involved; the number of
        // "transitively implemented" diagnostics is quadratic, so the family stops at 501)
        if n <= 501 {
            for back in back_edges(n) {
                let mut t = String::from("type Query implements I1 { i : Int }");
                for k in 1..=n {
                    let next: Option<usize> = if k < n { Some(k + 1) } else { back };
                    match next {
                        Some(j) => t.push_str(&format!(" interface I{k} implements I{j} {{ i : Int }}")),
                        None => t.push_str(&format!(" interface I{k} {{ i : Int }}")),
                    }
                }
                out.push(Case {
                    group: "interface-chain",
                    family: format!("interface-chain/next-only/{}", back_name(back)),
                    n,
                    edit: None,
                    schema: toks(&t),
                    exec: simple_exec.clone(),
                    expect: None,
                });
            }
            if n <= 129 {
                // every interface lists all the later ones (a valid schema)
                let all_from = |k: usize| (k..=n).map(|j| format!("I{j}")).collect::<Vec<_>>().join(" & ");
                let mut t = format!("type Query implements {} {{ i : Int }}", all_from(1));
                for k in 1..=n {
                    if k < n {
                        t.push_str(&format!(" interface I{k} implements {} {{ i : Int }}", all_from(k + 1)));
                    } else {
                        t.push_str(&format!(" interface I{k} {{ i : Int }}"));
                    }
                }
                out.push(Case {
                    group: "interface-chain",
                    family: "interface-chain/transitive/acyclic".into(),
                    n,
                    edit: None,
                    schema: toks(&t),
                    exec: toks("{ i ... on I1 { i } }"),
                    expect: None,
                });
            }
        }
        // ---- n same-key fields for merging (n <= 300)
        if n <= 300 {
            let rep = |s: &str| std::iter::repeat(s).take(n).collect::<Vec<_>>().join(" ");
            let varying = |f: &dyn Fn(usize) -> String| (1..=n).map(f).collect::<Vec<_>>().join(" ");
            let mut deep = "i".to_string();
            for _ in 0..n {
                deep = format!("a {{ {deep} }}");
            }
            for (name, body, expect) in [
                ("same-leaf", rep("i"), None),
                ("same-composite", rep("a { i }"), None),
                ("alias-conflict", format!("{} x : a {{ i }}", rep("x : i")), None),
                ("different-arguments", varying(&|k| format!("f ( v : [ [ {k} ] ] )")), None),
                ("different-subfields", varying(&|k| format!("a {{ k{k} : i }}")), None),
                ("two-deep-copies", format!("{deep} {deep}"), (n > LIMIT_FIELD_DEPTH).then_some(Stage::ExecValidate)),
            ] {
                out.push(Case {
                    group: "field-merging",
                    family: format!("field-merging/{name}"),
                    n,
                    edit: None,
                    schema: base.clone(),
                    exec: toks(&format!("{{ {body} }}")),
                    expect,
                });
            }
        }
    }
    out
}

fn simple_exec_for(field: &str) -> Vec<String> {
    toks(&format!("{{ {field} }}"))
}

const EDIT_MENU: &[&str] = &["{", "}", "(", ")", "[", "]", "...", "@", "!", ":", "=", "$", "a", "on", "1", "\"s\""];

/// Every single-token edit of the n = 3 instances: quick = deletions and duplications,
/// thorough = additionally replacement by and insertion of every token of `EDIT_MENU`.
fn edits(tier: Tier) -> Vec<Case> {
    let mut out = Vec::new();
    let bases: Vec<Case> = families(&[3]);
    for b in &bases {
        let ns = b.schema.len();
        let total = ns + b.exec.len();
        let mk = |schema: Vec<String>, exec: Vec<String>, what: String| Case {
            group: "token-edit",
            family: b.family.clone(),
            n: 3,
            edit: Some(what),
            schema,
            exec,
            expect: None,
        };
        let apply = |pos: usize, f: &dyn Fn(&mut Vec<String>, usize)| -> (Vec<String>, Vec<String>) {
            let (mut s, mut e) = (b.schema.clone(), b.exec.clone());
            if pos < ns {
                f(&mut s, pos)
            } else {
                f(&mut e, pos - ns)
            }
            (s, e)
        };
        // the base schema is shared by many families: edit it only once (for the first family)
        let shared_schema = b.schema.join(" ") == BASE_SCHEMA && b.family != bases[0].family;
        for pos in 0..total {
            if shared_schema && pos < ns {
                continue;
            }
            let (s, e) = apply(pos, &|v, i| {
                v.remove(i);
            });
            out.push(mk(s, e, format!("delete token {pos}")));
            // the text cut after this token and ended by a lone carriage return / CRLF / nothing:
            // end-of-input diagnostics sit on the last line terminator
            for (term, what) in [("\r", "CR"), ("\r\n", "CRLF"), ("", "nothing")] {
                if term != "\r" && tier != Tier::Thorough {
                    continue;
                }
                let (s, e) = apply(pos, &|v, i| {
                    v.truncate(i + 1);
                    if !term.is_empty() {
                        v.push(term.to_string());
                    }
                });
                out.push(mk(s, e, format!("truncate after token {pos}, end with {what}")));
            }
            let (s, e) = apply(pos, &|v, i| {
                let t = v[i].clone();
                v.insert(i, t);
            });
            out.push(mk(s, e, format!("duplicate token {pos}")));
            if tier == Tier::Thorough {
                for m in EDIT_MENU {
                    let (s, e) = apply(pos, &|v, i| v[i] = m.to_string());
                    if s != b.schema || e != b.exec {
                        out.push(mk(s, e, format!("replace token {pos} by {m}")));
                    }
                    let (s, e) = apply(pos, &|v, i| v.insert(i, m.to_string()));
                    out.push(mk(s, e, format!("insert {m} before token {pos}")));
                }
            }
        }
    }
    out
}

fn all_cases(tier: Tier) -> Vec<Case> {
    let mut v = families(SIZES);
    // 300 is the stated upper size of the merging family
    v.extend(families(&[300]).into_iter().filter(|c| c.group == "field-merging"));
    v.extend(edits(tier));
    v
}

// ---------------------------------------------------------------------------------
// Driving every pipeline on one case (child side)
// ---------------------------------------------------------------------------------

#[derive(Default)]
struct Report {
    transitions: u64,
    diagnostics: u64,
    /// (signature, detail)
    fails: Vec<(String, String)>,
    /// per stage: "ok" | "limit" | "cycle" | "invalid" | "syntax"
    stage: std::collections::BTreeMap<&'static str, String>,
}

fn is_limit(d: &apollo_compiler::diagnostic::Diagnostic<'_, apollo_compiler::validation::DiagnosticData>) -> bool {
    if matches!(d.error.unstable_error_name(), Some("DeeplyNestedType" | "RecursionError" | "RecursionLimitError")) {
        return true;
    }
    let m = d.error.to_string();
    m.contains("recursion limit") || m.contains("too much recursion") || m.contains("too much nesting")
}

fn classify(list: &DiagnosticList) -> String {
    let mut limit = false;
    let mut cycle = false;
    let mut syntax = false;
    for d in list.iter() {
        if is_limit(&d) {
            limit = true;
        }
        if matches!(d.error.unstable_error_name(), Some(n) if n.starts_with("Recursive")) {
            cycle = true;
        }
        if d.error.to_string().starts_with("syntax error") {
            syntax = true;
        }
    }
    if limit {
        "limit"
    } else if cycle {
        "cycle"
    } else if syntax {
        "syntax"
    } else {
        "invalid"
    }
    .to_string()
}

impl Report {
    fn fail(&mut self, sig: &str, detail: String) {
        if !self.fails.iter().any(|(s, _)| s == sig) {
            self.fails.push((sig.to_string(), detail));
        }
    }

    /// Run one pipeline step under catch_unwind.
    fn step<R>(&mut self, name: &str, f: impl FnOnce() -> R) -> Option<R> {
        self.transitions += 1;
        match vcore::catch(f) {
            Ok(r) => Some(r),
            Err(p) => {
                self.fail(&format!("panic:{name}"), format!("{name} panicked: {}", vcore::short(&p)));
                None
            }
        }
    }

    /// Order check and rendering of one diagnostic list.
    fn diagnostics(&mut self, origin: &str, list: &DiagnosticList) {
        self.diagnostics += list.len() as u64;
        let mut prev: Option<Option<(apollo_compiler::parser::FileId, usize)>> = None;
        for (i, d) in list.iter().enumerate() {
            let key = d.error.location().map(|l| (l.file_id(), l.offset()));
            if let Some(p) = prev {
                if key < p {
                    self.fail(
                        &format!("unsorted:{origin}"),
                        format!(
                            "diagnostic {i} of the list returned by {origin} is at {:?} after one at {:?} ({} diagnostics): {}",
                            key.map(|k| k.1),
                            p.map(|k| k.1),
                            list.len(),
                            vcore::short(&d.error.to_string())
                        ),
                    );
                    break;
                }
            }
            prev = Some(key);
        }
        // rendering: whole list when small, else the first 40 and last 10 diagnostics one by one
        let whole = list.len() <= 200;
        if whole {
            self.step(&format!("display:{origin}"), || list.to_string().len());
            self.step(&format!("debug:{origin}"), || format!("{list:?}").len());
        }
        let n = list.len();
        for (i, d) in list.iter().enumerate() {
            if !(i < 40 || i + 10 >= n) {
                continue;
            }
            self.step(&format!("to_report(Never):{origin}"), || d.to_report(Color::Never).into_string().len());
            self.step(&format!("to_report(StderrIsTerminal):{origin}"), || d.to_report(Color::StderrIsTerminal).into_string().len());
            self.step(&format!("to_json:{origin}"), || serde_json::to_string(&d.to_json()).map(|s| s.len()).unwrap_or(0));
            self.step(&format!("line_column_range:{origin}"), || d.line_column_range().is_some());
            if !whole {
                self.step(&format!("display-one:{origin}"), || d.to_string().len());
                self.step(&format!("debug-one:{origin}"), || format!("{d:?}").len());
            }
        }
    }

    fn serialize_ast(&mut self, origin: &str, doc: &ast::Document) {
        self.step(&format!("serialize:{origin}"), || doc.to_string().len());
        self.step(&format!("serialize-no-indent:{origin}"), || doc.serialize().no_indent().to_string().len());
        self.step(&format!("serialize-indent-prefix:{origin}"), || doc.serialize().indent_prefix("\t").initial_indent_level(2).to_string().len());
        self.step(&format!("debug-fmt:{origin}"), || format!("{doc:?}").len());
    }
}

fn drive(schema_src: &str, exec_src: &str) -> Report {
    let mut r = Report::default();
    // ---- schema side
    let sdoc = match r.step("Document::parse(schema)", || ast::Document::parse(schema_src, "schema.graphql")) {
        Some(Ok(d)) => {
            r.stage.insert("parse-schema", "ok".into());
            Some(d)
        }
        Some(Err(e)) => {
            r.diagnostics("Document::parse(schema)", &e.errors);
            r.stage.insert("parse-schema", classify(&e.errors));
            Some(e.partial)
        }
        None => None,
    };
    let mut valid_schema: Option<Valid<Schema>> = None;
    if let Some(sdoc) = &sdoc {
        r.serialize_ast("schema-ast", sdoc);
        let schema = match r.step("to_schema", || sdoc.to_schema()) {
            Some(Ok(s)) => Some(s),
            Some(Err(e)) => {
                r.diagnostics("to_schema", &e.errors);
                Some(e.partial)
            }
            None => None,
        };
        if let Some(schema) = schema {
            r.step("Schema::to_string", || schema.to_string().len());
            r.step("Schema::serialize-no-indent", || schema.serialize().no_indent().to_string().len());
            r.step("Schema::debug", || format!("{schema:?}").len());
            match r.step("Schema::validate", || schema.validate()) {
                Some(Ok(_)) => {}
                Some(Err(e)) => r.diagnostics("Schema::validate", &e.errors),
                None => {}
            }
        }
        match r.step("to_schema_validate", || sdoc.to_schema_validate()) {
            Some(Ok(v)) => {
                r.stage.insert("schema-validate", "ok".into());
                valid_schema = Some(v);
            }
            Some(Err(e)) => {
                r.diagnostics("to_schema_validate", &e.errors);
                r.stage.insert("schema-validate", classify(&e.errors));
            }
            None => {}
        }
        match r.step("validate_standalone_executable(schema-ast)", || sdoc.validate_standalone_executable()) {
            Some(Err(l)) => r.diagnostics("validate_standalone_executable(schema-ast)", &l),
            _ => {}
        }
    }
    // ---- executable side
    let edoc = match r.step("Document::parse(exec)", || ast::Document::parse(exec_src, "exec.graphql")) {
        Some(Ok(d)) => {
            r.stage.insert("parse-exec", "ok".into());
            Some(d)
        }
        Some(Err(e)) => {
            r.diagnostics("Document::parse(exec)", &e.errors);
            r.stage.insert("parse-exec", classify(&e.errors));
            Some(e.partial)
        }
        None => None,
    };
    if let Some(edoc) = &edoc {
        r.serialize_ast("exec-ast", edoc);
        match r.step("validate_standalone_executable", || edoc.validate_standalone_executable()) {
            Some(Err(l)) => r.diagnostics("validate_standalone_executable", &l),
            _ => {}
        }
        if let Some(schema) = &valid_schema {
            let built = match r.step("to_executable", || edoc.to_executable(schema)) {
                Some(Ok(d)) => Some(d),
                Some(Err(e)) => {
                    r.diagnostics("to_executable", &e.errors);
                    Some(e.partial)
                }
                None => None,
            };
            if let Some(doc) = built {
                r.step("ExecutableDocument::to_string", || doc.to_string().len());
                r.step("ExecutableDocument::serialize-no-indent", || doc.serialize().no_indent().to_string().len());
                r.step("ExecutableDocument::debug", || format!("{doc:?}").len());
                match r.step("ExecutableDocument::validate", || doc.validate(schema)) {
                    Some(Ok(_)) => {}
                    Some(Err(e)) => r.diagnostics("ExecutableDocument::validate", &e.errors),
                    None => {}
                }
            }
            match r.step("to_executable_validate", || edoc.to_executable_validate(schema)) {
                Some(Ok(doc)) => {
                    r.stage.insert("exec-validate", "ok".into());
                    for op in doc.operations.iter() {
                        r.step("check_max_depth", || apollo_compiler::introspection::check_max_depth(&doc, op).is_ok());
                    }
                }
                Some(Err(e)) => {
                    r.diagnostics("to_executable_validate", &e.errors);
                    r.stage.insert("exec-validate", classify(&e.errors));
                }
                None => {}
            }
            match r.step("ExecutableDocument::parse_and_validate", || ExecutableDocument::parse_and_validate(schema, exec_src, "exec2.graphql")) {
                Some(Err(e)) => r.diagnostics("ExecutableDocument::parse_and_validate", &e.errors),
                _ => {}
            }
        }
    }
    // ---- mixed document
    let mixed = format!("{schema_src}\n{exec_src}");
    match r.step("parse_mixed_validate", || apollo_compiler::parser::Parser::new().parse_mixed_validate(mixed.as_str(), "mixed.graphql")) {
        Some(Err(l)) => r.diagnostics("parse_mixed_validate", &l),
        _ => {}
    }
    let mdoc = match r.step("Document::parse(mixed)", || ast::Document::parse(mixed.as_str(), "mixed2.graphql")) {
        Some(Ok(d)) => Some(d),
        Some(Err(e)) => Some(e.partial),
        None => None,
    };
    if let Some(mdoc) = &mdoc {
        match r.step("to_mixed_validate", || mdoc.to_mixed_validate()) {
            Some(Err(l)) => r.diagnostics("to_mixed_validate", &l),
            _ => {}
        }
    }
    match r.step("Schema::parse_and_validate", || Schema::parse_and_validate(schema_src, "schema2.graphql")) {
        Some(Err(e)) => r.diagnostics("Schema::parse_and_validate", &e.errors),
        _ => {}
    }
    // ---- several sources: the same schema text as two files (every definition of the second file
    // collides with the first, so both files carry diagnostics at interleaving offsets)
    match r.step("SchemaBuilder(two sources)", || Schema::builder().parse(schema_src, "a.graphql").parse(schema_src, "b.graphql").build()) {
        Some(Err(e)) => {
            r.diagnostics("SchemaBuilder(two sources)", &e.errors);
            match r.step("validate(two sources)", || e.partial.validate()) {
                Some(Err(e2)) => r.diagnostics("validate(two sources)", &e2.errors),
                _ => {}
            }
        }
        _ => {}
    }
    // ---- the full introspection query against the schema
    if let Some(schema) = &valid_schema {
        match r.step("introspection:parse_and_validate", || ExecutableDocument::parse_and_validate(schema, INTROSPECTION, "introspection.graphql")) {
            Some(Ok(doc)) => {
                r.step("introspection:partial_execute", || {
                    let op = doc.operations.get(None).ok()?;
                    let _ = apollo_compiler::introspection::check_max_depth(&doc, op);
                    let vars = apollo_compiler::request::coerce_variable_values(schema, op, &Default::default()).ok()?;
                    let map = schema.implementers_map();
                    let resp = apollo_compiler::introspection::partial_execute(schema, &map, &doc, op, &vars).ok()?;
                    serde_json::to_string(&resp).ok().map(|s| s.len())
                });
            }
            Some(Err(e)) => r.diagnostics("introspection:parse_and_validate", &e.errors),
            None => {}
        }
    }
    r
}

/// Evaluate one case (child side): drive + the limit expectation. Returns the result line.
fn evaluate(schema_src: &str, exec_src: &str, expect: Option<Stage>) -> Value {
    let started = std::time::Instant::now();
    let mut r = drive(schema_src, exec_src);
    if let Some(stage) = expect {
        let got = r.stage.get(stage.name()).cloned().unwrap_or_else(|| "not-reached".into());
        if got != "limit" {
            r.fail(
                &format!("no-limit-diagnostic:{}", stage.name()),
                format!("the stage {} was expected to return Err with a recursion-limit diagnostic, its result was: {got}", stage.name()),
            );
        }
    }
    let st = |k: &str| r.stage.get(k).cloned().unwrap_or_else(|| "-".into());
    json!({
        "t": r.transitions,
        "d": r.diagnostics,
        "label": format!("schema:{}/{} exec:{}/{}", st("parse-schema"), st("schema-validate"), st("parse-exec"), st("exec-validate")),
        "fails": r.fails,
        // informational only (VERIF_C21_SLOWEST): never part of a verdict or of the evidence counts
        "ms": started.elapsed().as_millis() as u64,
    })
}

/// Run `evaluate` on a fresh thread with a 2 MiB stack (what the recursion limits are calibrated for).
fn evaluate_on_small_stack(schema_src: String, exec_src: String, expect: Option<Stage>) -> Value {
    let h = std::thread::Builder::new()
        .stack_size(STACK)
        .spawn(move || {
            let r = evaluate(&schema_src, &exec_src, expect);
            // dropping the deep trees happened inside `evaluate` (also on this stack)
            r
        })
        .expect("spawn case thread");
    match h.join() {
        Ok(v) => v,
        Err(_) => json!({"t": 1, "d": 0, "label": "thread-panicked", "fails": [["panic:outside-catch_unwind", "the case thread panicked outside catch_unwind (a Drop?)"]]}),
    }
}

/// Worker mode (`--shard i/n`): cases arrive on stdin, one JSON object per line
/// (`{"idx","schema","exec","expect_limit_diagnostic_at"}`); per case one `S idx` line before and one
/// `D idx {result}` line after, so that the parent knows which case was in flight if this process dies.
fn child_worker() -> ! {
    vcore::quiet_panics();
    let out = std::io::stdout();
    for line in std::io::stdin().lock().lines().map_while(Result::ok) {
        let case: Value = match serde_json::from_str(&line) {
            Ok(v) => v,
            Err(_) => continue,
        };
        let idx = case["idx"].as_u64().unwrap_or(0);
        let expect = case["expect_limit_diagnostic_at"].as_str().and_then(Stage::from_name);
        {
            let mut o = out.lock();
            let _ = writeln!(o, "S {idx}");
            let _ = o.flush();
        }
        let v = evaluate_on_small_stack(
            case["schema"].as_str().unwrap_or("").to_string(),
            case["exec"].as_str().unwrap_or("").to_string(),
            expect,
        );
        let mut o = out.lock();
        let _ = writeln!(o, "D {idx} {v}");
        let _ = o.flush();
    }
    std::process::exit(0)
}

// ---------------------------------------------------------------------------------
// Parent side: shard runner with watchdog
// ---------------------------------------------------------------------------------

enum CaseResult {
    Done(Value),
    /// the child died (signal / non-zero exit) while this case was in flight
    Crashed(String),
    TimedOut(String),
}

/// Watchdog: a case is declared hung when the child has burnt this much CPU time on it
/// (independent of how loaded the machine is) ...
fn cpu_limit_secs() -> u64 {
    std::env::var("VERIF_C21_CPU_LIMIT_S").ok().and_then(|s| s.parse().ok()).unwrap_or(60)
}
/// ... or when nothing has been heard for this much wall-clock time (a deadlock burns no CPU).
fn wall_limit_secs() -> u64 {
    std::env::var("VERIF_C21_WALL_LIMIT_S").ok().and_then(|s| s.parse().ok()).unwrap_or(900)
}

/// CPU seconds (user + system) consumed so far by process `pid`, from /proc.
fn cpu_secs(pid: u32) -> Option<f64> {
    let stat = std::fs::read_to_string(format!("/proc/{pid}/stat")).ok()?;
    let rest = &stat[stat.rfind(')')? + 2..];
    let f: Vec<&str> = rest.split(' ').collect();
    // after the command name: state is field 0, utime field 11, stime field 12
    let ticks: f64 = f.get(11)?.parse::<f64>().ok()? + f.get(12)?.parse::<f64>().ok()?;
    Some(ticks / 100.0)
}

fn describe_exit(status: std::process::ExitStatus) -> String {
    use std::os::unix::process::ExitStatusExt;
    match status.signal() {
        Some(6) => "child killed by SIGABRT (stack overflow or abort)".into(),
        Some(11) => "child killed by SIGSEGV".into(),
        Some(s) => format!("child killed by signal {s}"),
        None => format!("child exited with status {:?}", status.code()),
    }
}

/// Feed `lines` to a fresh worker child and collect its `S`/`D` lines. Returns the finished cases
/// plus, if the child did not finish, the in-flight case index with the reason.
fn run_child(lines: Vec<String>) -> (Vec<(usize, Value)>, Option<(usize, CaseResult)>) {
    let exe = std::env::current_exe().unwrap_or_else(|e| vcore::machinery_error(&format!("current_exe: {e}")));
    let mut child = Command::new(exe)
        .args(["--shard", "worker"])
        .stdin(Stdio::piped())
        .stdout(Stdio::piped())
        .stderr(Stdio::null())
        .spawn()
        .unwrap_or_else(|e| vcore::machinery_error(&format!("cannot spawn child: {e}")));
    let pid = child.id();
    let mut si = child.stdin.take().unwrap();
    let writer = std::thread::spawn(move || {
        for l in lines {
            if si.write_all(l.as_bytes()).is_err() || si.write_all(b"\n").is_err() {
                break;
            }
        }
        // dropping `si` closes the pipe: the worker sees EOF and exits
    });
    let stdout = child.stdout.take().unwrap();
    let (tx, rx) = mpsc::channel::<String>();
    let reader = std::thread::spawn(move || {
        for line in BufReader::new(stdout).lines().map_while(Result::ok) {
            if tx.send(line).is_err() {
                break;
            }
        }
    });
    let (cpu_limit, wall_limit) = (cpu_limit_secs() as f64, wall_limit_secs());
    let mut done = Vec::new();
    let mut inflight: Option<usize> = None;
    let mut cpu_mark = cpu_secs(pid).unwrap_or(0.0);
    let mut quiet_ticks = 0u64;
    let verdict: Option<String> = loop {
        match rx.recv_timeout(Duration::from_secs(1)) {
            Ok(line) => {
                quiet_ticks = 0;
                cpu_mark = cpu_secs(pid).unwrap_or(cpu_mark);
                if let Some(rest) = line.strip_prefix("S ") {
                    inflight = rest.trim().parse().ok();
                } else if let Some(rest) = line.strip_prefix("D ") {
                    let (i, j) = rest.split_once(' ').unwrap_or((rest, "null"));
                    let idx: usize = i.parse().unwrap_or(usize::MAX);
                    let v: Value = serde_json::from_str(j).unwrap_or(Value::Null);
                    done.push((idx, v));
                    inflight = None;
                }
            }
            Err(mpsc::RecvTimeoutError::Timeout) => {
                quiet_ticks += 1;
                let used = cpu_secs(pid).unwrap_or(cpu_mark) - cpu_mark;
                if used > cpu_limit {
                    break Some(format!("no result after {used:.0} s of CPU time on this case (watchdog limit {cpu_limit:.0} s)"));
                }
                if quiet_ticks > wall_limit {
                    break Some(format!("no output for {wall_limit} s of wall-clock time (watchdog)"));
                }
            }
            Err(mpsc::RecvTimeoutError::Disconnected) => break None,
        }
    };
    if let Some(why) = verdict {
        let _ = child.kill();
        let _ = child.wait();
        let _ = reader.join();
        let _ = writer.join();
        return match inflight {
            Some(i) => (done, Some((i, CaseResult::TimedOut(why)))),
            None => vcore::machinery_error(&format!("C21 worker hung while no case was in flight: {why}")),
        };
    }
    let _ = reader.join();
    let status = child.wait().unwrap_or_else(|e| vcore::machinery_error(&format!("wait: {e}")));
    let _ = writer.join();
    match inflight {
        Some(i) => (done, Some((i, CaseResult::Crashed(describe_exit(status))))),
        None if !status.success() => vcore::machinery_error(&format!("C21 worker failed outside any case: {}", describe_exit(status))),
        None => (done, None),
    }
}

fn case_line(idx: usize, case: &Value) -> String {
    let mut v = case.clone();
    v["idx"] = json!(idx);
    v.to_string()
}

/// Run the given (index, case) list in one worker after the other: a worker that dies or hangs
/// is replaced and the sweep continues behind the case that killed it.
fn run_shard(mut todo: Vec<(usize, Value)>) -> Vec<(usize, CaseResult)> {
    let mut results = Vec::new();
    while !todo.is_empty() {
        let lines: Vec<String> = todo.iter().map(|(i, c)| case_line(*i, c)).collect();
        let (done, problem) = run_child(lines);
        for (i, v) in done {
            results.push((i, CaseResult::Done(v)));
        }
        match problem {
            Some((i, p)) => {
                results.push((i, p));
                let pos = todo.iter().position(|(j, _)| *j == i).map(|p| p + 1).unwrap_or(todo.len());
                todo.drain(..pos);
            }
            None => break,
        }
    }
    results
}

/// Run one self-contained case in a child (replay / confirmation).
fn run_single(case: &Value) -> CaseResult {
    run_shard(vec![(0, case.clone())]).into_iter().next().map(|(_, r)| r).unwrap_or(CaseResult::Crashed("no result".into()))
}

fn absorb(case_json: impl Fn() -> Value, group: &str, size: u64, res: &CaseResult, st: &mut Stats) {
    st.states += 1;
    match res {
        CaseResult::Done(v) => {
            st.transitions += v["t"].as_u64().unwrap_or(1);
            if v["d"].as_u64().unwrap_or(0) > 0 {
                st.nontrivial += 1;
            }
            st.count("diagnostics_checked", v["d"].as_u64().unwrap_or(0));
            st.outcome(&format!("{group} {}", v["label"].as_str().unwrap_or("?")));
            for f in v["fails"].as_array().cloned().unwrap_or_default() {
                st.fail_simple(f[0].as_str().unwrap_or("?"), case_json(), f[1].as_str().unwrap_or("").to_string(), size);
            }
        }
        CaseResult::Crashed(why) => {
            st.transitions += 1;
            st.outcome(&format!("{group} CRASHED"));
            st.fail_simple("abort", case_json(), format!("the process running this case died: {why}"), size);
        }
        CaseResult::TimedOut(why) => {
            st.transitions += 1;
            st.outcome(&format!("{group} TIMED-OUT"));
            st.fail_simple("timeout", case_json(), why.clone(), size);
        }
    }
}

fn main() {
    // worker mode first (it must not touch evidence files)
    if std::env::args().any(|a| a == "--shard") {
        child_worker();
    }

    let mut chk = Check::new("C21");
    vcore::quiet_panics();
    if let Some(case) = chk.replay_case() {
        let mut st = Stats::default();
        let res = run_single(&case);
        absorb(|| case.clone(), case["group"].as_str().unwrap_or("replay"), 0, &res, &mut st);
        chk.absorb(st);
        chk.finish_replay();
    }
    let tier = chk.tier();
    let cases = all_cases(tier);
    // one OS thread per shard; each supervises its child process
    let handles: Vec<_> = (0..NSHARDS)
        .map(|s| {
            let todo: Vec<(usize, Value)> = cases.iter().enumerate().filter(|(i, _)| i % NSHARDS == s).map(|(i, c)| (i, c.to_json())).collect();
            std::thread::spawn(move || run_shard(todo))
        })
        .collect();
    let mut results: Vec<Option<CaseResult>> = (0..cases.len()).map(|_| None).collect();
    for h in handles {
        for (i, r) in h.join().unwrap_or_else(|_| vcore::machinery_error("shard supervisor panicked")) {
            if i < results.len() {
                results[i] = Some(r);
            }
        }
    }
    if std::env::var("VERIF_C21_SLOWEST").is_ok() {
        let mut t: Vec<(u64, usize)> = results.iter().enumerate().filter_map(|(i, r)| match r {
            Some(CaseResult::Done(v)) => Some((v["ms"].as_u64().unwrap_or(0), i)),
            _ => None,
        }).collect();
        t.sort();
        let total: u64 = t.iter().map(|x| x.0).sum();
        eprintln!("total case ms {total}");
        for (ms, i) in t.iter().rev().take(40) {
            eprintln!("{ms} ms  {} n={} {:?}", cases[*i].family, cases[*i].n, cases[*i].edit);
        }
    }
    let mut st = Stats::default();
    let mut family_counts = std::collections::BTreeMap::new();
    for (i, c) in cases.iter().enumerate() {
        let Some(res) = &results[i] else {
            vcore::machinery_error(&format!("C21: no result for case {i} ({})", c.family));
        };
        *family_counts.entry(c.group).or_insert(0u64) += 1;
        if c.edit.is_none() && (c.n == 33 || c.n == 2000) && st.samples.len() < vcore::MAX_SAMPLES && c.family.ends_with("acyclic") {
            if let CaseResult::Done(v) = res {
                st.sample(json!({"family": c.family, "n": c.n, "result": v["label"], "diagnostics": v["d"]}));
            }
        }
        absorb(|| c.to_json(), c.group, c.size(), res, &mut st);
    }
    chk.absorb(st);
    chk.bounds = json!({
        "sizes": SIZES,
        "field_merging_sizes": "sizes <= 129 and 300",
        "interface_chain_sizes": "<= 501 (next-only), <= 129 (transitive)",
        "cases_per_group": family_counts,
        "token_edits": if tier == Tier::Quick { "delete / duplicate every token of every n=3 instance".to_string() } else { format!("delete / duplicate / replace by / insert each of {EDIT_MENU:?} at every token of every n=3 instance") },
        "limits_read_from_code": {"RecursionStack default": LIMIT_DEFAULT, "fragment cycles": LIMIT_FRAGMENTS, "field merging depth": LIMIT_FIELD_DEPTH, "parser recursion": LIMIT_PARSER},
        "child_processes": NSHARDS, "case_thread_stack_bytes": STACK,
        "watchdog": format!("{} s of CPU time per case, {} s of silence", cpu_limit_secs(), wall_limit_secs()),
    });
    chk.rule = "states = cases (family instance or single-token edit); transitions = pipeline steps executed under catch_unwind; \
                non-trivial = cases in which at least one pipeline returned diagnostics"
        .into();
    chk.assumptions = vec![
        "a recursion-limit diagnostic is demanded only for acyclic chains / nestings longer than the limit constant that the code applies to that family (32 / 100 / 128 / parser 500); cyclic instances and interface chains are only required not to crash".into(),
        "whole-list Display/Debug is exercised for lists of <= 200 diagnostics; longer lists are rendered diagnostic by diagnostic for the first 40 and last 10".into(),
        "the opt-level 0 repetition of DESIGN §2.4 is not part of this binary".into(),
        "the executable pipelines are driven against a schema only when that schema validated (Valid::assume_valid on an invalid schema would be API misuse)".into(),
    ];
    chk.finish(&|case| {
        let mut st = Stats::default();
        let res = run_single(case);
        absorb(|| case.clone(), "confirm", 0, &res, &mut st);
        !st.failures.is_empty()
    })
}
