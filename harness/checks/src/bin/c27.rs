//! C27 — async execution does not depend on the schedule (DESIGN.md §6 C27).
//! E-CHOICE: the harness's `AsyncObjectValue` returns futures (and list streams) that answer
//! `Pending` a chosen number of times before `Ready`. At every poll of such a future the explorer
//! chooses {ready, pending + immediate wake, pending + wake when the executor goes idle}; ALL
//! assignments with a per-future pending count <= 1 (quick) | <= 2 (thorough) are enumerated by
//! stateless re-execution with a choice prefix (a diverging replay is a machinery error). A
//! hand-written executor polls the root future of `Execution::execute_async` only when its
//! instrumented waker was signalled; root pending with no wake-up outstanding is a lost wake-up.
//! Oracle: the response equals `execute_sync` of the equivalent synchronous resolvers; the resolver
//! call log (field position, arguments) is the same sequence; for mutations the events of root
//! field i+1 all come after the events of root field i (called only after the previous completed),
//! in document order.

use checks::execharness::*;
use refmodel::ast::{OpKind, Selection};
use refmodel::exec::{self, Dev, Path, Request, Seg};
use serde_json::{json, Map, Value as Json};
use std::collections::BTreeSet;
use vcore::{Check, Stats, Tier};

struct Ctx<'a> {
    sc: &'a SchemaCx,
    prep: &'a Prepared,
    max_pending: u8,
    /// requests whose all-ready run has more choice points than this are not explored
    max_points: usize,
}

fn calls(events: &[Event]) -> Vec<(&Path, &Json)> {
    events
        .iter()
        .filter_map(|e| match e {
            Event::Call(p, a) => Some((p, a)),
            _ => None,
        })
        .collect()
}

fn calls_and_items(events: &[Event]) -> Vec<&Event> {
    events.iter().filter(|e| matches!(e, Event::Call(..) | Event::Item(..))).collect()
}

/// root response keys of the event log with consecutive repetitions collapsed
fn root_groups(events: &[Event]) -> Vec<String> {
    let mut out: Vec<String> = Vec::new();
    for e in events {
        if let Some(Seg::Key(k)) = e.path().first() {
            if out.last() != Some(k) {
                out.push(k.clone());
            }
        }
    }
    out
}

fn prefix_json(p: &[ChoicePoint]) -> Json {
    Json::Array(p.iter().map(|c| json!([c.choice, c.menu, c.tag])).collect())
}

fn prefix_from_json(v: &Json) -> Vec<ChoicePoint> {
    v.as_array()
        .map(|a| {
            a.iter()
                .map(|c| ChoicePoint { choice: c[0].as_u64().unwrap_or(0) as u8, menu: c[1].as_u64().unwrap_or(0) as u8, tag: c[2].as_str().unwrap_or("").to_string() })
                .collect()
        })
        .unwrap_or_default()
}

struct SyncRef {
    response: String,
    events: Vec<Event>,
    /// for mutations: the root response keys in document (CollectFields) order
    root_order: Option<Vec<String>>,
}

fn sync_reference(cx: &Ctx<'_>, vars: &Map<String, Json>, devs: &[(Path, Dev)]) -> Result<SyncRef, String> {
    let g = &cx.prep.gen;
    let w = world(cx.sc, devs);
    let real = run_sync(cx.sc, &cx.prep.apollo, vars, &w, &root_type_of(cx.sc, &g.operation))?;
    let root_order = if g.operation.kind == OpKind::Mutation {
        let req = Request { schema: &cx.sc.exec, operation: &g.operation, fragments: &g.fragments, variables: vars };
        let sels: Vec<&Selection> = g.operation.selection.iter().collect();
        let mut grouped = Vec::new();
        exec::collect_fields(&req, &root_type_of(cx.sc, &g.operation), &sels, &mut BTreeSet::new(), &mut grouped);
        Some(grouped.into_iter().map(|(k, _)| k).collect())
    } else {
        None
    };
    Ok(SyncRef { response: real.response.to_string(), events: real.events, root_order })
}

fn case(cx: &Ctx<'_>, vars: &Map<String, Json>, devs: &[(Path, Dev)], prefix: &[ChoicePoint]) -> Json {
    let mut c = case_json(cx.sc, &cx.prep.gen.text, vars, devs);
    c["choice_prefix"] = prefix_json(prefix);
    c["max_pending"] = json!(cx.max_pending);
    c
}

/// Run one schedule and judge it. Returns the schedule (for the explorer) and whether it failed.
fn run_schedule(cx: &Ctx<'_>, vars: &Map<String, Json>, devs: &[(Path, Dev)], sref: &SyncRef, prefix: Vec<ChoicePoint>, st: &mut Stats) -> Schedule {
    let g = &cx.prep.gen;
    let w = world(cx.sc, devs);
    let sched = run_async(cx.sc, &cx.prep.apollo, vars, &w, &root_type_of(cx.sc, &g.operation), prefix.clone(), cx.max_pending);
    st.states += 1;
    st.transitions += 1;
    st.count("root polls", sched.root_polls as u64);
    if let Some(d) = &sched.diverged {
        st.count("MACHINERY diverging replays", 1);
        st.fail_simple("machinery-diverging-replay", case(cx, vars, devs, &prefix), d.clone(), 0);
        return sched;
    }
    // the choices actually taken (prefix + defaults) identify the schedule
    let taken: Vec<ChoicePoint> = sched.trace.clone();
    let size = 100 * taken.iter().filter(|c| c.choice != 0).count() as u64 + taken.len() as u64 + g.text.len() as u64 + 1000 * devs.len() as u64;
    let fail = |st: &mut Stats, sig: &str, detail: String| st.fail_simple(sig, case(cx, vars, devs, &taken), detail, size);
    let pend = taken.iter().filter(|c| c.choice != 0).count();
    let imm = taken.iter().any(|c| c.choice == 1);
    let def = taken.iter().any(|c| c.choice == 2);
    let kind = if g.operation.kind == OpKind::Mutation { "mutation" } else { "query" };
    let label = format!(
        "{kind}: {} pending polls{}",
        match pend {
            0 => "0",
            1 => "1",
            2 => "2",
            3..=4 => "3-4",
            _ => "5+",
        },
        match (imm, def) {
            (false, false) => "",
            (true, false) => " (immediate wakes)",
            (false, true) => " (wakes on idle)",
            (true, true) => " (both wake timings)",
        }
    );
    match &sched.verdict {
        Verdict::LostWakeup => {
            fail(st, "lost-wake-up", format!("root future pending, waker not signalled and no deferred wake outstanding after {} root polls; events so far {}", sched.root_polls, Json::Array(sched.events.iter().map(|e| e.to_json()).collect())));
            st.outcome("lost wake-up");
            return sched;
        }
        Verdict::Horizon => {
            fail(st, "horizon", format!("{} root polls for {} choice points", sched.root_polls, taken.len()));
            st.outcome("horizon exceeded");
            return sched;
        }
        Verdict::Panic(p) => {
            fail(st, "panic", format!("execute_async panicked: {p}"));
            st.outcome("panic");
            return sched;
        }
        Verdict::Done(Err(e)) => {
            fail(st, "request-error", format!("execute_async returned a request error: {e}"));
            st.outcome("request error");
            return sched;
        }
        Verdict::Done(Ok(resp)) => {
            if resp.to_string() != sref.response {
                fail(st, "response-differs-from-sync", format!("async {resp} sync {}", sref.response));
            } else if calls(&sched.events) != calls(&sref.events) {
                let show = |ev: &[Event]| Json::Array(calls(ev).iter().map(|(p, a)| json!([exec::path_json(p), a])).collect());
                fail(st, "call-order-differs-from-sync", format!("async calls {} sync calls {}", show(&sched.events), show(&sref.events)));
            } else if calls_and_items(&sched.events) != calls_and_items(&sref.events) {
                // the list a resolver returns is resolver code too: its items must be pulled at
                // the same points between the resolver calls as in the synchronous execution
                let show = |ev: &[Event]| Json::Array(calls_and_items(ev).iter().map(|e| e.to_json()).collect());
                fail(st, "item-production-order-differs-from-sync", format!("async {} sync {}", show(&sched.events), show(&sref.events)));
            } else if let Some(order) = &sref.root_order {
                let groups = root_groups(&sched.events);
                let expected: Vec<String> = order.iter().filter(|k| groups.contains(k)).cloned().collect();
                if groups != expected {
                    fail(
                        st,
                        "mutation-root-fields-interleaved",
                        format!("root fields by event: {groups:?}, document order {order:?}; events {}", Json::Array(sched.events.iter().map(|e| e.to_json()).collect())),
                    );
                }
            }
            if sched.events == sref.events {
                st.count("schedules whose whole event log (calls, readiness, list items) equals the sync log", 1);
            }
        }
    }
    if pend > 0 {
        st.nontrivial += 1;
    }
    st.outcome(&label);
    sched
}

/// All schedules of one request. Returns the number of schedules, or None if the request is out
/// of the bound.
fn explore_request(cx: &Ctx<'_>, vars: &Map<String, Json>, devs: &[(Path, Dev)], st: &mut Stats) -> Option<u64> {
    let sref = match sync_reference(cx, vars, devs) {
        Ok(s) => s,
        Err(e) => {
            // C26's business; a request that has no sync response is not a C27 request
            st.count("requests without a sync response (skipped)", 1);
            let _ = e;
            return None;
        }
    };
    // mutation sanity of the oracle's reference itself
    if let Some(order) = &sref.root_order {
        let groups = root_groups(&sref.events);
        let expected: Vec<String> = order.iter().filter(|k| groups.contains(k)).cloned().collect();
        if groups != expected {
            st.fail_simple("sync-mutation-root-fields-out-of-order", case(cx, vars, devs, &[]), format!("{groups:?} vs {order:?}"), 0);
        }
    }
    // probe (not counted): the all-ready run has one choice point per harness future / stream poll
    {
        let g = &cx.prep.gen;
        let w = world(cx.sc, devs);
        let probe = run_async(cx.sc, &cx.prep.apollo, vars, &w, &root_type_of(cx.sc, &g.operation), vec![], cx.max_pending);
        if probe.trace.len() > cx.max_points {
            // too many choice points for the complete schedule tree: explore by deviation bound
            // (every schedule with at most 1 | 2 non-default answers, each run to completion)
            st.count("requests over the choice-point bound (explored by deviation bound)", 1);
            explore_request_bounded(cx, vars, devs, if cx.max_pending > 1 { 2 } else { 1 }, st);
            return None;
        }
        st.outcome(&format!("request with {} futures / stream polls", probe.trace.len()));
    }
    let mut stack: Vec<Vec<ChoicePoint>> = vec![vec![]];
    let mut n = 0u64;
    let mut outcomes: BTreeSet<String> = BTreeSet::new();
    let mut max_points = 0usize;
    while let Some(prefix) = stack.pop() {
        let plen = prefix.len();
        let sched = run_schedule(cx, vars, devs, &sref, prefix, st);
        n += 1;
        max_points = max_points.max(sched.trace.len());
        outcomes.insert(format!("{:?}|{}", sched.verdict, Json::Array(sched.events.iter().filter(|e| matches!(e, Event::Call(..))).map(|e| e.to_json()).collect())));
        if sched.diverged.is_some() {
            continue;
        }
        for i in plen..sched.trace.len() {
            for alt in 1..sched.trace[i].menu {
                let mut p = sched.trace[..i].to_vec();
                p.push(ChoicePoint { choice: alt, ..sched.trace[i].clone() });
                stack.push(p);
            }
        }
    }
    st.count("requests explored", 1);
    st.count("distinct (request, response + call log) pairs", outcomes.len() as u64);
    st.outcome(&format!("max choice points in a schedule of the request = {max_points:02}"));
    Some(n)
}

/// Long lists: the schedule space of a 300-item list cannot be enumerated completely, so it is
/// explored by deviation bound: the all-ready schedule (0 deviations) and every schedule with
/// exactly one non-default answer (1 deviation), each run to completion.
fn explore_request_bounded(cx: &Ctx<'_>, vars: &Map<String, Json>, devs: &[(Path, Dev)], max_dev: usize, st: &mut Stats) {
    let Ok(sref) = sync_reference(cx, vars, devs) else {
        st.count("requests without a sync response (skipped)", 1);
        return;
    };
    st.count("requests explored by deviation bound", 1);
    // (prefix, deviations used so far)
    let mut stack: Vec<(Vec<ChoicePoint>, usize)> = vec![(vec![], 0)];
    let mut first = true;
    while let Some((prefix, used)) = stack.pop() {
        let plen = prefix.len();
        let sched = run_schedule(cx, vars, devs, &sref, prefix, st);
        if first {
            st.outcome(&format!("deviation-bounded request with {}+ futures / stream polls", sched.trace.len() / 50 * 50));
            first = false;
        }
        if sched.diverged.is_some() || used >= max_dev {
            continue;
        }
        for i in plen..sched.trace.len() {
            for alt in 1..sched.trace[i].menu {
                let mut p = sched.trace[..i].to_vec();
                p.push(ChoicePoint { choice: alt, ..sched.trace[i].clone() });
                stack.push((p, used + 1));
            }
        }
    }
}

/// the behaviours that matter for scheduling (C26 explores the full menu)
fn menu27(sc: &SchemaCx, ty: &refmodel::ast::Ty) -> Vec<Dev> {
    let mut seen_leaf = false;
    exec::deviation_menu(&sc.exec, ty)
        .into_iter()
        .filter(|d| match d {
            Dev::Leaf(Json::Null) | Dev::Error | Dev::List(_) => true,
            Dev::Leaf(_) => !std::mem::replace(&mut seen_leaf, true),
            Dev::Object(t) => t == "Nope" || (sc.name == "S2" && t != "Query"),
        })
        .collect()
}

fn explore_op(cx: &Ctx<'_>, k: usize, st: &mut Stats) {
    let g = &cx.prep.gen;
    for vars in &g.var_maps {
        if explore_request(cx, vars, &[], st).is_none() || k == 0 {
            continue;
        }
        // positions of the default world, from the reference executor
        let req = Request { schema: &cx.sc.exec, operation: &g.operation, fragments: &g.fragments, variables: vars };
        let base = exec::execute(&req, &world(cx.sc, &[]), exec::Params::apollo());
        for (pos, ty) in &base.visited {
            for d in menu27(cx.sc, ty) {
                explore_request(cx, vars, &[(pos.clone(), d)], st);
            }
            // long lists at every list-typed position (run lengths around apollo's and the usual
            // cooperative-yield budgets: 127 | 128 | 129 | 300 items)
            if matches!(ty, refmodel::ast::Ty::List(_)) || matches!(ty, refmodel::ast::Ty::NonNull(inner) if matches!(**inner, refmodel::ast::Ty::List(_))) {
                for n in if cx.max_pending > 1 { LONG_LISTS } else { &LONG_LISTS[2..3] } {
                    explore_request_bounded(cx, vars, &[(pos.clone(), Dev::List(*n))], 1, st);
                }
            }
        }
    }
}

const LONG_LISTS: &[usize] = &[127, 128, 129, 300];

fn replay(case: &Json, st: &mut Stats) {
    let scs = schemas();
    let Some(sc) = scs.iter().find(|s| Some(s.name) == case["schema"].as_str()) else {
        vcore::machinery_error("replay: unknown schema");
    };
    let text = case["document"].as_str().unwrap_or("");
    let (operation, fragments) = parse_case_document(text).unwrap_or_else(|e| vcore::machinery_error(&format!("replay: {e}")));
    let vars = case["coerced_variables"].as_object().cloned().unwrap_or_default();
    let gen = GenOp { schema: 0, family: "replay", operation, fragments, text: text.to_string(), var_maps: vec![vars.clone()] };
    let prep = prepare(sc, gen).unwrap_or_else(|e| vcore::machinery_error(&format!("replay: document invalid: {e}")));
    let devs = devs_from_json(&case["deviations"]);
    let cx = Ctx { sc, prep: &prep, max_pending: case["max_pending"].as_u64().unwrap_or(1) as u8, max_points: usize::MAX };
    match sync_reference(&cx, &vars, &devs) {
        Ok(sref) => {
            let sched = run_schedule(&cx, &vars, &devs, &sref, prefix_from_json(&case["choice_prefix"]), st);
            if let Some(d) = sched.diverged {
                vcore::machinery_error(&format!("replay diverged: {d}"));
            }
        }
        Err(e) => vcore::machinery_error(&format!("replay: no sync response: {e}")),
    }
}

fn main() {
    let mut chk = Check::new("C27");
    vcore::quiet_panics();
    if let Some(case) = chk.replay_case() {
        let mut st = Stats::default();
        replay(&case, &mut st);
        chk.absorb(st);
        chk.finish_replay();
    }
    let tier = chk.tier();
    let scs = schemas();
    // requests: the small operations of the C26 space, default world plus one deviation
    let bounds = GenBounds { max_sel: [0, 3, 3], core_sel: 0, mutation_sel: 3, deco_base_sel: 2, deco_nodes: 1, s1_seq: 2 };
    let (max_pending, max_points, k) = match tier {
        Tier::Quick => (1u8, 6usize, 1usize),
        Tier::Thorough => (2u8, 5usize, 1usize),
    };
    let generated = generate(&scs, &bounds);
    let n_generated = generated.len();
    let mut seen = BTreeSet::new();
    let mut items: Vec<Prepared> = Vec::new();
    for g in generated {
        let si = g.schema;
        if !seen.insert((si, g.text.clone())) {
            continue;
        }
        if let Ok(p) = prepare(&scs[si], g) {
            items.push(p);
        }
    }
    println!("generated {n_generated} candidates, {} distinct valid operations", items.len());
    let stats = vcore::par_items(&items, |p, st| {
        let cx = Ctx { sc: &scs[p.gen.schema], prep: p, max_pending, max_points };
        explore_op(&cx, k, st);
    });
    let diverged = stats.counters.get("MACHINERY diverging replays").copied().unwrap_or(0);
    let schedules = stats.states;
    let requests = stats.counters.get("requests explored").copied().unwrap_or(0);
    let pairs = stats.counters.get("distinct (request, response + call log) pairs").copied().unwrap_or(0);
    let maxp = stats.outcomes.keys().filter_map(|k| k.strip_prefix("max choice points in a schedule of the request = ")).filter_map(|n| n.parse::<u32>().ok()).max().unwrap_or(0);
    chk.absorb(stats);
    if diverged > 0 {
        vcore::machinery_error(&format!("{diverged} replays diverged from their recorded choice prefix (harness nondeterminism)"));
    }
    println!("schedules explored {schedules}, requests {requests}, distinct (request, outcome) pairs {pairs}, max choice points {maxp}");
    chk.bounds = json!({
        "schemas": scs.iter().map(|s| json!({"name": s.name, "sdl": s.text})).collect::<Vec<_>>(),
        "operations": items.len(),
        "operation_bounds": {"S2/S3 selections": 3, "mutation selections": 3, "S1 sequences": 2, "decorated base": 2},
        "worlds": "default world, and every visited position x {null, resolver error, one wrongly-typed leaf, unknown object type (S2: every other object type), lists of length 0/1/3, list for leaf}",
        "per_future_pending_polls": max_pending,
        "choice_menu": ["ready", "pending + wake during the poll", "pending + wake when the executor is idle"],
        "max_futures_and_stream_polls_per_request": max_points,
        "horizon": "10 x (choice points + 1) root polls",
        "long_lists": {"lengths": if max_pending > 1 { LONG_LISTS } else { &LONG_LISTS[2..3] }, "positions": "every list-typed position visited by the default world", "schedules": "all-ready and every single non-default answer (deviation bound 1)"},
        "schedules": schedules,
        "requests": requests,
        "max_choice_points": maxp,
    });
    chk.rule = "for every request within the bound, every assignment of {ready, pending+immediate wake, pending+deferred wake} to every poll of every resolver future and list-stream item with at most per_future_pending_polls pendings per future; \
                non-trivial = schedules with at least one Pending answer"
        .into();
    chk.assumptions = vec![
        "the equivalent synchronous resolvers are the same resolver world served through ObjectValue; the sync response is apollo's own execute_sync (its agreement with the specification is C26)".into(),
        "'completed' for a mutation root field = every resolver future and list stream under it has answered Ready / ended; the event log must not return to an earlier root field".into(),
        "executor model: one task, polled only after its waker was signalled; wake-ups are delivered during the poll or when the executor is idle; no spurious polls".into(),
        "requests with more futures + stream polls than the bound are explored by deviation bound (every schedule with at most 1 | 2 non-default answers) instead of completely".into(),
    ];
    chk.exhaustive = true;
    chk.finish(&|case| {
        let mut st = Stats::default();
        replay(case, &mut st);
        !st.failures.is_empty()
    })
}
