//! development probe: validate argv[2] against schema argv[1]
fn main() {
    let a: Vec<String> = std::env::args().collect();
    let schema = apollo_compiler::Schema::parse_and_validate(a[1].as_str(), "s.graphql").expect("schema");
    match apollo_compiler::ExecutableDocument::parse_and_validate(&schema, a[2].as_str(), "q.graphql") {
        Ok(_) => println!("VALID"),
        Err(e) => println!("INVALID\n{}", e.errors),
    }
}
