//! C10 — names, numbers and type references are well-formed (DESIGN.md §6 C10).
//! E-INPUT, five parts:
//!   name      every string over Σname (and over a second alphabet of the ASCII characters next
//!             to the letter / digit ranges) through every checked `Name` constructor and serde;
//!             accepted ⇔ the hand-written `[_A-Za-z][_0-9A-Za-z]*` matcher;
//!   literal   every string over Σnum through serde deserialisation of `IntValue` / `FloatValue`;
//!             accepted ⇔ the reference lexer munches the whole string as one Int / Float literal;
//!   i32       `IntValue::from(v)`: the text is an IntValue literal, converts back to `v`, and
//!             `{a(b:<text>)}` parses to the same `Value` (quick: a lattice; thorough: all 2^32
//!             values for text + conversion, the lattice for the document parse);
//!   f64       `FloatValue::from(x)` over sign × exponent field × mantissa lattice, likewise, bitwise;
//!   type      every type reference up to a nesting bound: `Type::parse(ty.to_string()) == ty`.

use apollo_compiler::ast::{self, FloatValue, IntValue, Type};
use apollo_compiler::Name;
use refmodel::ast::Ty;
use refmodel::{lex, numlit};
use serde_json::{json, Value};
use std::sync::Arc;
use vcore::{enumerate as en, Check, Stats};

const SIGMA_NAME: &[&str] = &["a", "Z", "_", "0", "é", "-", " "];
/// the ASCII neighbours of `0-9`, `A-Z`, `a-z`, `_`, plus NUL and a non-ASCII letter
const SIGMA_EDGE: &[&str] = &["A", "z", "9", "/", ":", "@", "[", "`", "{", "^", "\u{0}", "ª", "ñ", "²"];
const SIGMA_NUM: &[&str] = &["0", "1", "9", "-", "+", ".", "e", "E", "a", " "];
const TYPE_NAMES: &[&str] = &["a", "Int", "_x1"];

const KF_EMPTY_EXPONENT: &str = "C10-float-empty-exponent";

type Fail = (String, String);
fn fail<T>(sig: &str, detail: String) -> Result<T, Fail> {
    Err((sig.to_string(), detail))
}

// ---------------------------------------------------------------------------------------------
// names
// ---------------------------------------------------------------------------------------------

/// `leaked` is the same text with `'static` lifetime (for `Name::new_static`).
fn eval_name(s: &str, leaked: &'static str) -> Result<&'static str, Fail> {
    let expected = lex::is_name(s);
    let json_text = serde_json::to_string(s).unwrap();
    let from_enum: Option<Name> = serde_json::from_str::<ast::Value>(&format!("{{\"Enum\":{json_text}}}"))
        .ok()
        .and_then(|v| match v {
            ast::Value::Enum(n) => Some(n),
            _ => None,
        });
    let routes: [(&str, Option<Name>); 9] = [
        ("Name::new", Name::new(s).ok()),
        ("Name::new_static", Name::new_static(leaked).ok()),
        ("TryFrom<&str>", Name::try_from(s).ok()),
        ("TryFrom<String>", Name::try_from(s.to_string()).ok()),
        ("TryFrom<&String>", Name::try_from(&s.to_string()).ok()),
        ("TryFrom<Arc<str>>", Name::try_from(Arc::<str>::from(s)).ok()),
        ("serde_json::from_str::<Name>", serde_json::from_str::<Name>(&json_text).ok()),
        ("serde_json::from_value::<Name>", serde_json::from_value::<Name>(Value::String(s.to_string())).ok()),
        ("serde Value::Enum(Name)", from_enum),
    ];
    if Name::is_valid_syntax(s) != expected {
        return fail(
            if expected { "name-rejects-valid" } else { "name-accepts-invalid" },
            format!("Name::is_valid_syntax({s:?}) = {}, the Name grammar says {expected}", !expected),
        );
    }
    for (route, got) in &routes {
        match got {
            Some(n) => {
                if !expected {
                    return fail("name-accepts-invalid", format!("{route} accepted {s:?}, which is not a Name"));
                }
                if n.as_str() != s || n.to_string() != s {
                    return fail("name-text-changed", format!("{route}({s:?}) holds {:?}", n.as_str()));
                }
            }
            None => {
                if expected {
                    return fail("name-rejects-valid", format!("{route} rejected the Name {s:?}"));
                }
            }
        }
    }
    Ok(if expected {
        "name:accepted"
    } else if s.is_empty() {
        "name:rejected:empty"
    } else if !lex::is_name_start(s.chars().next().unwrap()) {
        "name:rejected:bad-first-character"
    } else {
        "name:rejected:bad-later-character"
    })
}

fn check_name(s: &str, leaked: &'static str, st: &mut Stats) {
    st.states += 1;
    st.transitions += 10;
    let case = json!({"part": "name", "input": s});
    match vcore::catch(|| eval_name(s, leaked)) {
        Err(p) => st.fail_simple("panic-name", case, format!("constructing a Name from {s:?} panicked: {p}"), s.len() as u64),
        Ok(Err((sig, d))) => st.fail_simple(&sig, case, d, s.len() as u64),
        Ok(Ok(label)) => {
            if label != "name:accepted" && !s.is_empty() && lex::is_name_start(s.chars().next().unwrap()) {
                st.nontrivial += 1; // a valid prefix followed by an invalid character
            }
            st.outcome(label);
        }
    }
}

// ---------------------------------------------------------------------------------------------
// numeric literal deserialisation
// ---------------------------------------------------------------------------------------------

#[derive(PartialEq)]
enum LitOutcome {
    Plain(&'static str),
    Known,
}

fn eval_literal(s: &str, kf_open: bool) -> Result<LitOutcome, Fail> {
    let json_text = serde_json::to_string(s).unwrap();
    let want_int = lex::is_int_literal(s);
    let want_float = lex::is_float_literal(s);
    // IntValue
    let ints = [
        ("serde_json::from_str::<IntValue>", serde_json::from_str::<IntValue>(&json_text).ok()),
        ("serde_json::from_value::<IntValue>", serde_json::from_value::<IntValue>(Value::String(s.to_string())).ok()),
    ];
    for (route, got) in &ints {
        match got {
            Some(_) if !want_int => {
                return fail("int-accepts-invalid", format!("{route} accepted {s:?}, which is not an IntValue literal"))
            }
            None if want_int => return fail("int-rejects-valid", format!("{route} rejected the IntValue literal {s:?}")),
            Some(v) if v.as_str() != s => {
                return fail("literal-text-changed", format!("{route}({s:?}) holds {:?}", v.as_str()))
            }
            _ => {}
        }
    }
    // FloatValue
    let floats = [
        ("serde_json::from_str::<FloatValue>", serde_json::from_str::<FloatValue>(&json_text).ok()),
        ("serde_json::from_value::<FloatValue>", serde_json::from_value::<FloatValue>(Value::String(s.to_string())).ok()),
    ];
    let mut known = false;
    for (route, got) in &floats {
        match got {
            Some(_) if !want_float => {
                // O(x) = reject, I(x) = accept. Attributable to the known finding only if the
                // matcher with exactly that deviation accepts and the switch is what flipped it.
                let mut used = false;
                let dev = numlit::Deviations { exponent_digits_may_be_empty: true };
                if kf_open && numlit::is_float_dev(s, dev, &mut used) && used {
                    known = true;
                } else {
                    return fail(
                        "float-accepts-invalid",
                        format!("{route} accepted {s:?}, which is not a FloatValue literal"),
                    );
                }
            }
            None if want_float => {
                return fail("float-rejects-valid", format!("{route} rejected the FloatValue literal {s:?}"))
            }
            Some(v) if v.as_str() != s => {
                return fail("literal-text-changed", format!("{route}({s:?}) holds {:?}", v.as_str()))
            }
            _ => {}
        }
    }
    if known {
        return Ok(LitOutcome::Known);
    }
    Ok(LitOutcome::Plain(match (want_int, want_float) {
        (true, _) => "literal:int-accepted",
        (_, true) => "literal:float-accepted",
        _ => "literal:both-rejected",
    }))
}

fn check_literal(s: &str, kf_open: bool, st: &mut Stats) {
    st.states += 1;
    st.transitions += 4;
    let case = json!({"part": "literal", "input": s});
    match vcore::catch(|| eval_literal(s, kf_open)) {
        Err(p) => st.fail_simple("panic-literal", case, format!("deserialising {s:?} panicked: {p}"), s.len() as u64),
        Ok(Err((sig, d))) => st.fail_simple(&sig, case, d, s.len() as u64),
        Ok(Ok(LitOutcome::Known)) => {
            st.known(KF_EMPTY_EXPONENT, s);
            st.outcome("literal:known-finding-empty-exponent");
        }
        Ok(Ok(LitOutcome::Plain(label))) => {
            // non-trivial: rejected although it starts like a number
            if label == "literal:both-rejected" && s.starts_with(|c: char| c == '-' || c.is_ascii_digit()) {
                st.nontrivial += 1;
            }
            st.outcome(label);
        }
    }
}

// ---------------------------------------------------------------------------------------------
// numbers
// ---------------------------------------------------------------------------------------------

/// The value of `b` in `{a(b:<text>)}`.
fn parse_argument_value(text: &str) -> Result<ast::Value, String> {
    let src = format!("{{a(b:{text})}}");
    let doc = ast::Document::parse(src, "c10.graphql").map_err(|e| format!("does not parse: {}", e.errors))?;
    let v = (|| {
        let ast::Definition::OperationDefinition(op) = doc.definitions.first()? else {
            return None;
        };
        let ast::Selection::Field(f) = op.selection_set.first()? else {
            return None;
        };
        Some((*f.arguments.first()?.value).clone())
    })();
    v.ok_or_else(|| "no argument value in the parsed document".to_string())
}

/// Decimal text of an i32, written by hand (so that the comparison does not lean on the same
/// `to_string` the implementation uses).
fn decimal_i32(v: i32) -> String {
    let mut n = (v as i64).unsigned_abs();
    let mut digits = Vec::new();
    loop {
        digits.push(b'0' + (n % 10) as u8);
        n /= 10;
        if n == 0 {
            break;
        }
    }
    if v < 0 {
        digits.push(b'-');
    }
    digits.reverse();
    String::from_utf8(digits).unwrap()
}

/// Text + conversions of one i32 (the cheap half, run on all 2^32 values in the thorough tier).
fn eval_i32_text(v: i32) -> Result<IntValue, Fail> {
    let iv = IntValue::from(v);
    let text = iv.as_str();
    if !lex::is_int_literal(text) {
        return fail("i32-not-a-literal", format!("IntValue::from({v}) is {text:?}, not an IntValue literal"));
    }
    if text != decimal_i32(v) {
        return fail("i32-wrong-text", format!("IntValue::from({v}) is {text:?}"));
    }
    match iv.try_to_i32() {
        Ok(back) if back == v => {}
        other => return fail("i32-converts-back-differently", format!("IntValue::from({v}).try_to_i32() = {other:?}")),
    }
    match iv.try_to_f64() {
        Ok(back) if back == v as f64 => {}
        other => return fail("i32-converts-back-differently", format!("IntValue::from({v}).try_to_f64() = {other:?}")),
    }
    Ok(iv)
}

fn eval_i32_full(v: i32) -> Result<(), Fail> {
    let iv = eval_i32_text(v)?;
    if iv.to_string() != iv.as_str() {
        return fail("i32-wrong-text", format!("Display of IntValue::from({v}) is {:?}", iv.to_string()));
    }
    match parse_argument_value(iv.as_str()) {
        Ok(ast::Value::Int(p)) if p == iv => {}
        other => {
            return fail(
                "i32-document-value-differs",
                format!("{{a(b:{})}} gives {other:?}, expected Value::Int({iv:?})", iv.as_str()),
            )
        }
    }
    let js = serde_json::to_string(&iv).map_err(|e| ("i32-serde".to_string(), e.to_string()))?;
    match serde_json::from_str::<IntValue>(&js) {
        Ok(back) if back == iv => Ok(()),
        other => fail("i32-serde", format!("IntValue::from({v}) serialises to {js} and deserialises to {other:?}")),
    }
}

fn check_i32(v: i32, st: &mut Stats) {
    st.states += 1;
    st.transitions += 6;
    let case = json!({"part": "i32", "value": v});
    match vcore::catch(|| eval_i32_full(v)) {
        Err(p) => st.fail_simple("panic-i32", case, format!("IntValue::from({v}): {p}"), v.unsigned_abs() as u64),
        Ok(Err((sig, d))) => st.fail_simple(&sig, case, d, v.unsigned_abs() as u64),
        Ok(Ok(())) => {
            st.nontrivial += 1;
            st.outcome(if v < 0 { "i32:negative:round-trip" } else { "i32:non-negative:round-trip" });
        }
    }
}

fn i32_lattice() -> Vec<i32> {
    let mut v: Vec<i64> = (-(1i64 << 17)..=(1i64 << 17)).collect();
    for k in 0..=31 {
        for d in [-1i64, 0, 1] {
            v.push((1i64 << k) + d);
            v.push(-(1i64 << k) + d);
        }
    }
    for base in [10i64, 100, 1000, 1_000_000, 1_000_000_000, 999_999_999, 2_147_483_647, 1_234_567_890] {
        v.push(base);
        v.push(-base);
        v.push(base - 1);
        v.push(1 - base);
    }
    v.push(i32::MIN as i64);
    v.push(i32::MAX as i64);
    let mut v: Vec<i32> = v
        .into_iter()
        .filter(|x| *x >= i32::MIN as i64 && *x <= i32::MAX as i64)
        .map(|x| x as i32)
        .collect();
    v.sort();
    v.dedup();
    v
}

fn eval_f64(x: f64) -> Result<&'static str, Fail> {
    let fv = FloatValue::from(x);
    let text = fv.as_str().to_string();
    let bits = x.to_bits();
    if !lex::is_float_literal(&text) {
        return fail(
            "f64-not-a-literal",
            format!("FloatValue::from({x:e} [{bits:#018x}]) is {:?}, not a FloatValue literal", vcore::short(&text)),
        );
    }
    if fv.to_string() != text {
        return fail("f64-wrong-text", format!("Display of FloatValue::from({x:e}) differs from as_str()"));
    }
    match fv.try_to_f64() {
        Ok(back) if back.to_bits() == bits => {}
        other => {
            return fail(
                "f64-converts-back-differently",
                format!("FloatValue::from({x:e} [{bits:#018x}]).try_to_f64() = {other:?}"),
            )
        }
    }
    match parse_argument_value(&text) {
        Ok(ast::Value::Float(p)) if p == fv => {}
        other => {
            return fail(
                "f64-document-value-differs",
                format!("{{a(b:{})}} gives {}", vcore::short(&text), vcore::short(&format!("{other:?}"))),
            )
        }
    }
    let js = serde_json::to_string(&fv).map_err(|e| ("f64-serde".to_string(), e.to_string()))?;
    match serde_json::from_str::<FloatValue>(&js) {
        Ok(back) if back == fv => {}
        other => return fail("f64-serde", format!("FloatValue::from({x:e}) does not survive serde: {other:?}")),
    }
    Ok(if x == 0.0 {
        if x.is_sign_negative() {
            "f64:negative-zero:round-trip"
        } else {
            "f64:zero:round-trip"
        }
    } else if !x.is_normal() {
        "f64:subnormal:round-trip"
    } else if x.fract() == 0.0 {
        "f64:integral:round-trip"
    } else {
        "f64:fractional:round-trip"
    })
}

fn check_f64(bits: u64, st: &mut Stats) {
    st.states += 1;
    st.transitions += 5;
    let x = f64::from_bits(bits);
    let case = json!({"part": "f64", "bits": format!("{bits:#018x}")});
    match vcore::catch(|| eval_f64(x)) {
        Err(p) => st.fail_simple("panic-f64", case, format!("FloatValue::from({x:e} [{bits:#018x}]): {p}"), bits >> 40),
        Ok(Err((sig, d))) => st.fail_simple(&sig, case, d, bits >> 40),
        Ok(Ok(label)) => {
            st.nontrivial += 1;
            st.outcome(label);
        }
    }
}

fn mantissa_lattice() -> Vec<u64> {
    const M: u64 = (1u64 << 52) - 1;
    let mut v = vec![0, 1, M, 0x5_5555_5555_5555, 0xA_AAAA_AAAA_AAAA, 0x9_21FB_5444_2D18, 0x3_3333_3333_3333];
    for k in 0..52 {
        v.push(1u64 << k); // every single bit
        v.push(M >> k); // suffix runs of ones (low bits)
        v.push((M << k) & M); // prefix runs of ones (high bits)
        v.push(M ^ (1u64 << k)); // every single zero
    }
    v.sort();
    v.dedup();
    v
}

fn exponent_fields(thorough: bool) -> Vec<u64> {
    // 0 = zero / subnormals; 1..=2046 normal; 2047 (inf / NaN) is not finite and excluded
    let mut v: Vec<u64> = (0..=2046u64)
        .filter(|e| thorough || e % 8 == 0 || [1, 2, 1021, 1022, 1023, 1024, 1025, 1074, 1075, 1076, 1077, 2045, 2046].contains(e))
        .collect();
    v.dedup();
    v
}

// ---------------------------------------------------------------------------------------------
// type references
// ---------------------------------------------------------------------------------------------

/// All harness type references of list-nesting exactly `depth`.
fn types_at_depth(depth: u32) -> Vec<Ty> {
    if depth == 0 {
        let mut v = Vec::new();
        for n in TYPE_NAMES {
            v.push(Ty::named(n));
            v.push(Ty::named(n).non_null());
        }
        return v;
    }
    let mut v = Vec::new();
    for inner in types_at_depth(depth - 1) {
        v.push(inner.clone().list());
        v.push(inner.list().non_null());
    }
    v
}

fn to_apollo(t: &Ty) -> Type {
    let name = |n: &str| Name::new(n).unwrap_or_else(|_| vcore::machinery_error("harness type name invalid"));
    match t {
        Ty::Named(n) => Type::Named(name(n)),
        Ty::List(inner) => Type::List(Box::new(to_apollo(inner))),
        Ty::NonNull(inner) => match &**inner {
            Ty::Named(n) => Type::NonNullNamed(name(n)),
            Ty::List(item) => Type::NonNullList(Box::new(to_apollo(item))),
            Ty::NonNull(_) => vcore::machinery_error("harness type has NonNull(NonNull)"),
        },
    }
}

fn eval_type(t: &Ty) -> Result<(), Fail> {
    let real = to_apollo(t);
    let want_text = t.to_string();
    let text = real.to_string();
    if text != want_text {
        return fail("type-display", format!("{real:?} prints as {text:?}, the type reference is written {want_text:?}"));
    }
    match Type::parse(text.clone(), "type.graphql") {
        Ok(back) if back == real => {}
        Ok(back) => return fail("type-reparse-differs", format!("{text:?} parses back to {back:?}")),
        Err(e) => return fail("type-reparse-fails", format!("Type::parse({text:?}) fails: {e}")),
    }
    let src = format!("query($v:{text}){{a}}");
    let doc = match ast::Document::parse(src, "c10.graphql") {
        Ok(d) => d,
        Err(e) => return fail("type-reparse-fails", format!("query($v:{text}){{a}} does not parse: {}", e.errors)),
    };
    let got = match doc.definitions.first() {
        Some(ast::Definition::OperationDefinition(op)) => op.variables.first().map(|v| (*v.ty).clone()),
        _ => None,
    };
    if got.as_ref() != Some(&real) {
        return fail("type-reparse-differs", format!("query($v:{text}){{a}} declares $v as {got:?}"));
    }
    Ok(())
}

fn depth_of(t: &Ty) -> u32 {
    match t {
        Ty::Named(_) => 0,
        Ty::List(i) => 1 + depth_of(i),
        Ty::NonNull(i) => depth_of(i),
    }
}

fn check_type(t: &Ty, st: &mut Stats) {
    st.states += 1;
    st.transitions += 3;
    let text = t.to_string();
    let case = json!({"part": "type", "type": text});
    match vcore::catch(|| eval_type(t)) {
        Err(p) => st.fail_simple("panic-type", case, format!("{text}: {p}"), text.len() as u64),
        Ok(Err((sig, d))) => st.fail_simple(&sig, case, d, text.len() as u64),
        Ok(Ok(())) => {
            if depth_of(t) > 0 {
                st.nontrivial += 1;
            }
            st.outcome(&format!("type:nesting-{}:round-trip", depth_of(t)));
        }
    }
}

// ---------------------------------------------------------------------------------------------

fn replay(case: &Value, kf_open: bool, st: &mut Stats) {
    match case["part"].as_str() {
        Some("name") => {
            let s = case["input"].as_str().unwrap_or("").to_string();
            let leaked: &'static str = String::leak(s.clone());
            check_name(&s, leaked, st)
        }
        Some("literal") => check_literal(case["input"].as_str().unwrap_or(""), kf_open, st),
        Some("i32") => check_i32(case["value"].as_i64().unwrap_or(0) as i32, st),
        Some("f64") => {
            let b = case["bits"].as_str().unwrap_or("0x0").trim_start_matches("0x");
            check_f64(u64::from_str_radix(b, 16).unwrap_or(0), st)
        }
        Some("type") => check_type(&Ty::parse(case["type"].as_str().unwrap_or("a")), st),
        _ => vcore::machinery_error("replay case has no known `part`"),
    }
}

fn main() {
    let mut chk = Check::new("C10");
    vcore::quiet_panics();
    let kf_open = chk.known.is_open(KF_EMPTY_EXPONENT);
    if let Some(case) = chk.replay_case() {
        let mut st = Stats::default();
        replay(&case, kf_open, &mut st);
        chk.absorb(st);
        chk.finish_replay();
    }
    let thorough = chk.tier() == vcore::Tier::Thorough;
    let mut bounds = serde_json::Map::new();

    // names: one leaked arena per chunk provides the 'static text for Name::new_static
    const CHUNK: u64 = 8192;
    for (space, alphabet, quick, deep) in [("name", SIGMA_NAME, 6u32, 8u32), ("name_edge", SIGMA_EDGE, 4, 5)] {
        let max_len = chk.tier().pick(quick, deep);
        let k = alphabet.len() as u64;
        let total = en::count_upto(k, max_len);
        let stats = vcore::par_sweep(total.div_ceil(CHUNK), 1, |c, st| {
            let lo = c * CHUNK;
            let hi = (lo + CHUNK).min(total);
            let mut arena = String::new();
            let mut spans = Vec::with_capacity((hi - lo) as usize);
            let mut seq = Vec::new();
            let mut s = String::new();
            for i in lo..hi {
                en::nth_upto(k, i, &mut seq);
                en::render(alphabet, &seq, &mut s);
                spans.push((arena.len(), arena.len() + s.len()));
                arena.push_str(&s);
            }
            let arena: &'static str = String::leak(arena);
            for (n, (a, b)) in spans.into_iter().enumerate() {
                let text = &arena[a..b];
                let i = lo + n as u64;
                if i % (total / 3 + 1) == total / 7 {
                    st.sample(json!({"part": "name", "space": space, "input": text}));
                }
                check_name(text, text, st);
            }
        });
        println!("{space}: max_len {max_len}, {total} strings");
        bounds.insert(space.to_string(), json!({"alphabet": alphabet, "max_len": max_len, "inputs": total}));
        chk.absorb(stats);
    }

    // numeric literal deserialisation
    {
        let max_len = chk.tier().pick(6u32, 8u32);
        let k = SIGMA_NUM.len() as u64;
        let total = en::count_upto(k, max_len);
        let stats = vcore::par_sweep(total, 16384, |i, st| {
            let mut seq = Vec::new();
            let mut s = String::new();
            en::nth_upto(k, i, &mut seq);
            en::render(SIGMA_NUM, &seq, &mut s);
            if i % (total / 3 + 1) == total / 7 {
                st.sample(json!({"part": "literal", "input": s}));
            }
            check_literal(&s, kf_open, st);
        });
        println!("literal: max_len {max_len}, {total} strings");
        bounds.insert("literal".into(), json!({"alphabet": SIGMA_NUM, "max_len": max_len, "inputs": total}));
        chk.absorb(stats);
    }

    // i32
    let lattice = i32_lattice();
    let stats = vcore::par_sweep(lattice.len() as u64, 4096, |i, st| {
        let v = lattice[i as usize];
        if i % 90001 == 17 {
            st.sample(json!({"part": "i32", "value": v}));
        }
        check_i32(v, st)
    });
    println!("i32 lattice: {} values (text, conversions, document parse, serde)", lattice.len());
    chk.absorb(stats);
    let mut i32_bounds = json!({"lattice": lattice.len(), "lattice_rule": "|v| <= 2^17, ±2^k±{0,1}, powers of ten and neighbours, extremes"});
    if thorough {
        // every i32: text is the literal of v, converts back to v (batch statistics)
        let stats = vcore::par_sweep(1 << 16, 16, |hi, st| {
            let mut ok = 0u64;
            for lo in 0..(1u32 << 16) {
                let v = (((hi as u32) << 16) | lo) as i32;
                match vcore::catch(|| eval_i32_text(v)) {
                    Ok(Ok(_)) => ok += 1,
                    Ok(Err((sig, d))) => {
                        st.fail_simple(&sig, json!({"part": "i32", "value": v}), d, v.unsigned_abs() as u64)
                    }
                    Err(p) => st.fail_simple(
                        "panic-i32",
                        json!({"part": "i32", "value": v}),
                        format!("IntValue::from({v}): {p}"),
                        v.unsigned_abs() as u64,
                    ),
                }
            }
            st.states += 1 << 16;
            st.transitions += 3 << 16;
            st.nontrivial += ok;
            *st.outcomes.entry("i32:all-values:text-and-conversion-round-trip".into()).or_insert(0) += ok;
        });
        println!("i32 exhaustive: 2^32 values (text, conversions)");
        chk.absorb(stats);
        i32_bounds["all_values"] = json!(1u64 << 32);
    }
    bounds.insert("i32".into(), i32_bounds);

    // f64
    let mantissas = mantissa_lattice();
    let exponents = exponent_fields(thorough);
    let per_sign = (mantissas.len() * exponents.len()) as u64;
    let stats = vcore::par_sweep(2 * per_sign, 1024, |i, st| {
        let sign = i / per_sign;
        let r = i % per_sign;
        let e = exponents[(r / mantissas.len() as u64) as usize];
        let m = mantissas[(r % mantissas.len() as u64) as usize];
        let bits = (sign << 63) | (e << 52) | m;
        if i % (per_sign / 2 + 1) == 11 {
            st.sample(json!({"part": "f64", "bits": format!("{bits:#018x}"), "value": format!("{:e}", f64::from_bits(bits))}));
        }
        check_f64(bits, st)
    });
    println!("f64 lattice: 2 signs x {} exponent fields x {} mantissas", exponents.len(), mantissas.len());
    bounds.insert(
        "f64".into(),
        json!({"signs": 2, "exponent_fields": exponents.len(), "mantissas": mantissas.len(), "values": 2 * per_sign,
               "mantissa_rule": "0, 1, all ones, every single bit, every single zero, every prefix and suffix run of ones, 0x5.., 0xA.., pi, 0x3.."}),
    );
    chk.absorb(stats);

    // types
    let max_depth = chk.tier().pick(5u32, 9u32);
    let types: Vec<Ty> = (0..=max_depth).flat_map(types_at_depth).collect();
    let stats = vcore::par_sweep(types.len() as u64, 64, |i, st| {
        if i % 97 == 5 {
            st.sample(json!({"part": "type", "type": types[i as usize].to_string()}));
        }
        check_type(&types[i as usize], st)
    });
    println!("types: nesting <= {max_depth} over {TYPE_NAMES:?}, {} type references", types.len());
    bounds.insert("type".into(), json!({"names": TYPE_NAMES, "max_nesting": max_depth, "types": types.len()}));
    chk.absorb(stats);

    chk.bounds = Value::Object(bounds);
    chk.rule = "name/literal: every string over the alphabet up to max_len; i32/f64: the stated lattices (thorough: every i32 \
                for text and conversion); type: every reference up to the nesting bound. non-trivial = name strings with a valid \
                first character that are rejected, literal strings starting like a number that are rejected, every number, every list type"
        .into();
    chk.assumptions = vec![
        "Name grammar and numeric literal grammar as in spec §2.1.9 / §2.9.1 / §2.9.2 (October 2021); the literal oracle is refmodel::lex (maximal munch of the whole string as one token)".into(),
        "the deviation of known finding C10-float-empty-exponent is modelled by refmodel::numlit (unit-tested to agree with the lexer when the switch is off)".into(),
        "`converts back` uses apollo's own try_to_i32 / try_to_f64; Rust's f64 Display/FromStr and serde_json are trusted".into(),
        "thorough tier: the document parse `{a(b:<text>)}` and serde round trip run on the i32 lattice only, text + conversions on all 2^32 values".into(),
        "Name::new_unchecked / new_static_unchecked / from_arc_unchecked and the name!() macro are outside the statement (unchecked by contract / compile-time)".into(),
    ];
    chk.finish(&|case| {
        let mut st = Stats::default();
        replay(case, kf_open, &mut st);
        !st.failures.is_empty()
    })
}
