//! C19 — executable documents and field sets round-trip (DESIGN.md §6 C19).
//! Every pair of the C17 space that apollo validates × {default, `no_indent()`, indent prefix
//! "\t"}: `parse_and_validate(schema, doc.serialize(cfg)) == doc`; the same pair as one mixed
//! text through `Parser::parse_mixed_validate` (serialize both halves, re-run, both halves
//! equal); every field set of ≤ 4 selections over the tiny schema that
//! `FieldSet::parse_and_validate` accepts, through `Display` and the three configurations.

use apollo_compiler::executable::FieldSet;
use apollo_compiler::parser::Parser;
use apollo_compiler::{ExecutableDocument, Name};
use checks::execdocs::{self, Case, SchemaEnv, TinyScope};
use rayon::prelude::*;
use refmodel::ast::{self as mini, Document};
use serde_json::json;
use vcore::{Check, Stats};

type Fail = (String, String);

const CONFIGS: &[&str] = &["default", "no_indent", "tab-prefix"];

fn serialize_doc(doc: &ExecutableDocument, cfg: &str) -> String {
    match cfg {
        "default" => doc.serialize().to_string(),
        "no_indent" => doc.serialize().no_indent().to_string(),
        _ => doc.serialize().indent_prefix("\t").to_string(),
    }
}

fn serialize_fs(fs: &FieldSet, cfg: &str) -> String {
    match cfg {
        "display" => fs.to_string(),
        "default" => fs.serialize().to_string(),
        "no_indent" => fs.serialize().no_indent().to_string(),
        _ => fs.serialize().indent_prefix("\t").to_string(),
    }
}

fn check_doc(env: &SchemaEnv, text: &str, mixed_configs: &[&str], st: &mut Stats) -> Result<&'static str, Fail> {
    st.transitions += 1;
    let doc = match vcore::catch(|| ExecutableDocument::parse_and_validate(&env.apollo, text.to_string(), "q.graphql")) {
        Ok(Ok(d)) => d,
        Ok(Err(_)) => return Ok("invalid:skipped"),
        Err(p) => return Err(("panic".into(), format!("parse_and_validate panicked: {p}"))),
    };
    for cfg in CONFIGS {
        st.transitions += 2;
        let out = vcore::catch(|| serialize_doc(&doc, cfg)).map_err(|p| ("panic".to_string(), format!("serialize({cfg}) panicked: {p}")))?;
        match ExecutableDocument::parse_and_validate(&env.apollo, out.clone(), "rt.graphql") {
            Ok(d2) => {
                if *d2 != *doc {
                    return Err((format!("roundtrip-differs:{cfg}"), format!("serialized ({cfg}) as {out:?}; the re-parsed document is not equal")));
                }
            }
            Err(e) => {
                let first = e.errors.iter().next().map(|d| d.error.to_string()).unwrap_or_default();
                return Err((format!("roundtrip-invalid:{cfg}"), format!("serialized ({cfg}) as {out:?}; re-parsing reports: {first}")));
            }
        }
    }
    // mixed text
    st.transitions += 2;
    let mixed = format!("{}\n{}", env.sdl, text);
    let (s2, d2) = match vcore::catch(|| Parser::new().parse_mixed_validate(mixed.clone(), "mixed.graphql")) {
        Ok(Ok(x)) => x,
        Ok(Err(e)) => {
            let first = e.iter().next().map(|d| d.error.to_string()).unwrap_or_default();
            return Err(("mixed-rejects-valid-pair".into(), format!("parse_mixed_validate rejects schema + document that validate separately: {first}")));
        }
        Err(p) => return Err(("panic".into(), format!("parse_mixed_validate panicked: {p}"))),
    };
    if *d2 != *doc {
        return Err(("mixed-document-differs".into(), "the executable half of the mixed text differs from the separately parsed document".into()));
    }
    for cfg in mixed_configs {
        let t2 = match *cfg {
            "default" => format!("{}\n{}", s2.serialize(), d2.serialize()),
            "no_indent" => format!("{}\n{}", s2.serialize().no_indent(), d2.serialize().no_indent()),
            _ => format!("{}\n{}", s2.serialize().indent_prefix("\t"), d2.serialize().indent_prefix("\t")),
        };
        st.transitions += 1;
        match Parser::new().parse_mixed_validate(t2.clone(), "mixed2.graphql") {
            Ok((s3, d3)) => {
                if *s3 != *s2 {
                    return Err((format!("mixed-roundtrip-schema-differs:{cfg}"), format!("re-parsed schema half differs; text {}", vcore::short(&t2))));
                }
                if *d3 != *d2 {
                    return Err((format!("mixed-roundtrip-document-differs:{cfg}"), format!("re-parsed executable half differs; text {}", vcore::short(&t2))));
                }
            }
            Err(e) => {
                let first = e.iter().next().map(|d| d.error.to_string()).unwrap_or_default();
                return Err((format!("mixed-roundtrip-invalid:{cfg}"), format!("serialized halves do not validate together: {first}; text {}", vcore::short(&t2))));
            }
        }
    }
    Ok("valid:roundtrip-ok")
}

fn check_one(env: &SchemaEnv, text: &str, mixed_configs: &[&str], case: &dyn Fn() -> serde_json::Value, st: &mut Stats) {
    st.states += 1;
    match check_doc(env, text, mixed_configs, st) {
        Ok(label) => {
            if label.starts_with("valid") {
                st.nontrivial += 1;
            }
            st.outcome(label)
        }
        Err((sig, detail)) => st.fail_simple(&sig, case(), format!("{detail}; document: {}", vcore::short(text)), text.len() as u64),
    }
}

fn check_field_set(env: &SchemaEnv, ty: &str, text: &str, st: &mut Stats) {
    st.states += 1;
    st.transitions += 1;
    let case = || json!({"schema": env.sdl, "field_set_type": ty, "field_set": text});
    let name = Name::new(ty).expect("type name");
    let fs = match vcore::catch(|| FieldSet::parse_and_validate(&env.apollo, name.clone(), text.to_string(), "fs.graphql")) {
        Ok(Ok(fs)) => fs,
        Ok(Err(_)) => {
            st.outcome("field-set:invalid-skipped");
            return;
        }
        Err(p) => {
            st.fail_simple("panic", case(), format!("FieldSet::parse_and_validate panicked: {p}"), text.len() as u64);
            return;
        }
    };
    st.nontrivial += 1;
    for cfg in ["display", "default", "no_indent", "tab-prefix"] {
        st.transitions += 2;
        let out = serialize_fs(&fs, cfg);
        match FieldSet::parse_and_validate(&env.apollo, name.clone(), out.clone(), "fs2.graphql") {
            Ok(fs2) => {
                if fs2.selection_set != fs.selection_set {
                    st.fail_simple(&format!("field-set-roundtrip-differs:{cfg}"), case(), format!("`{text}` on {ty} serialized ({cfg}) as {out:?}; re-parsed field set differs"), text.len() as u64);
                    return;
                }
            }
            Err(e) => {
                let first = e.errors.iter().next().map(|d| d.error.to_string()).unwrap_or_default();
                st.fail_simple(&format!("field-set-roundtrip-invalid:{cfg}"), case(), format!("`{text}` on {ty} serialized ({cfg}) as {out:?}: {first}"), text.len() as u64);
                return;
            }
        }
    }
    st.outcome("field-set:roundtrip-ok");
}

// ---- strings family: one valid document with a string at every kind of string site x a string menu ----

const STR_SIGMA: [&str; 10] = ["a", "\"", "\\", " ", "\t", "\n", "\r", "\u{1f}", "\u{85}", "é"];
const STR_LINES: [&str; 7] = ["a", " a", "  a", "\ta", "", " ", "a "];

fn string_menu(max_len: u32, max_lines: u32) -> Vec<String> {
    use vcore::enumerate as en;
    let mut v = Vec::new();
    let k = STR_SIGMA.len() as u64;
    let mut seq = Vec::new();
    for i in 1..en::count_upto(k, max_len) {
        en::nth_upto(k, i, &mut seq);
        let mut s = String::new();
        en::render(&STR_SIGMA, &seq, &mut s);
        v.push(s);
    }
    let k = STR_LINES.len() as u64;
    for n in 2..=max_lines {
        for i in 0..en::count_exact(k, n) {
            en::nth_exact(k, n, i, &mut seq);
            v.push(seq.iter().map(|&x| STR_LINES[x]).collect::<Vec<_>>().join("\n"));
        }
    }
    v
}

/// the string as variable default, String argument, and inside a list and an object of a custom-scalar argument
fn string_document(s: &str) -> String {
    let q = mini::quote(s);
    format!("query Q($v: String = {q}) {{ g(s: {q}) x: g(s: $v) c(s: {{k: [{q}]}}) y: cn(s: {q}) }}")
}

fn run_string(env: &SchemaEnv, s: &str, st: &mut Stats) {
    let text = string_document(s);
    st.count("strings family documents", 1);
    let before = st.outcomes.get("invalid:skipped").copied().unwrap_or(0);
    check_one(env, &text, CONFIGS, &|| json!({"family": "strings", "string": s, "document": text}), st);
    if st.outcomes.get("invalid:skipped").copied().unwrap_or(0) != before {
        vcore::machinery_error(&format!("strings family: the template document is not valid: {text}"));
    }
}

fn run_replay(case: &serde_json::Value, st: &mut Stats) {
    if case["family"].as_str() == Some("strings") {
        let envs = execdocs::schema_envs();
        run_string(&envs[0], case["string"].as_str().unwrap_or(""), st);
        return;
    }
    if let Some(fs) = case["field_set"].as_str() {
        let sdl = case["schema"].as_str().unwrap_or("");
        let env = SchemaEnv::new("replay", sdl).unwrap_or_else(|e| vcore::machinery_error(&e));
        check_field_set(&env, case["field_set_type"].as_str().unwrap_or("I"), fs, st);
        return;
    }
    match execdocs::replay_env_and_doc(case) {
        Ok((env, doc)) => {
            let text = doc.print();
            check_one(&env, &text, CONFIGS, &|| case.clone(), st)
        }
        Err(e) => vcore::machinery_error(&format!("replay case unusable: {e}")),
    }
}

fn main() {
    let mut chk = Check::new("C19");
    vcore::quiet_panics();
    if let Some(case) = chk.replay_case() {
        let mut st = Stats::default();
        run_replay(&case, &mut st);
        chk.absorb(st);
        chk.finish_replay();
    }
    let envs = execdocs::schema_envs();
    let thorough = chk.tier() == vcore::Tier::Thorough;
    let (stats, info) = execdocs::sweep(&envs, chk.tier(), &|c: &Case<'_>, st: &mut Stats| {
        // the mixed text is re-serialized in all three configurations for the base pairs and their
        // mutants; for the (much larger, structurally uniform) tiny scope in the default one
        let mixed: &[&str] = if c.family.starts_with("tiny") && !thorough { &CONFIGS[..1] } else { CONFIGS };
        check_one(c.env, c.text, mixed, &|| execdocs::case_json(c), st);
        st.count(&format!("family:{}", c.family), 1);
        if c.family == "k1" && st.samples.is_empty() && c.text.len() % 13 == 0 {
            st.sample(json!({"base": c.base, "operators": c.operators, "document": c.text}));
        }
    });
    chk.absorb(stats);
    // field sets over the tiny schema, on the interface and on an object type
    let fs_nodes = chk.tier().pick(3, 4);
    let scope = TinyScope::field_sets(fs_nodes);
    let mut lists: Vec<String> = vec![];
    scope.for_each_field_set(&mut |l: &[mini::Selection]| {
        let mut o = String::new();
        mini::print_selection_set(l, &mut o);
        // field-set syntax: without the outer braces
        lists.push(o[1..o.len() - 1].trim().to_string());
    });
    let env = &envs[execdocs::TINY_SCHEMA_INDEX];
    let n_field_sets = lists.len() as u64 * 2;
    for ty in ["I", "T"] {
        let parts: Vec<Stats> = lists
            .par_chunks(4096)
            .map(|chunk| {
                let mut st = Stats::default();
                for t in chunk {
                    check_field_set(env, ty, t, &mut st);
                }
                st
            })
            .collect();
        let merged = parts.into_iter().fold(Stats::default(), Stats::merge);
        chk.absorb(merged);
    }
    let (str_len, str_lines) = (chk.tier().pick(3, 4), chk.tier().pick(3, 4));
    let strings = string_menu(str_len, str_lines);
    let stats = vcore::par_sweep(strings.len() as u64, 32, |i, st| run_string(&envs[0], &strings[i as usize], st));
    chk.absorb(stats);
    let mut bounds = execdocs::bounds_json(&info);
    bounds["strings_family"] = json!({"alphabet": STR_SIGMA, "max_len": str_len, "lines": STR_LINES, "max_lines": str_lines, "strings": strings.len(),
        "template": string_document("S")});
    bounds["field_sets"] = json!({"max_selection_nodes": fs_nodes, "types": ["I", "T"], "explored": n_field_sets, "configs": ["Display", "default", "no_indent", "indent_prefix(\"\\t\")"]});
    bounds["serializer_configs"] = json!(CONFIGS);
    chk.bounds = bounds;
    chk.rule = "every pair of the C17 space, and one fixed valid document with every string of the strings menu at each of its string sites; non-trivial = pairs (and field sets) that apollo validates, i.e. on which the round trips are actually run".into();
    chk.assumptions = vec![
        "equality is apollo's own `PartialEq` on ExecutableDocument / Schema / SelectionSet (sources ignored)".into(),
        "validity is apollo's own verdict; whether it is right is C17".into(),
        "the Document and FieldSet inputs are the harness printer's single-line layout".into(),
    ];
    let _ = Document::default();
    chk.finish(&|case| {
        let mut st = Stats::default();
        run_replay(case, &mut st);
        !st.failures.is_empty()
    })
}
