//! C18 — executable documents are typed consistently with the schema (DESIGN.md §6 C18).
//! Every (schema, document) pair of the C17 space, valid or not, through
//! `ExecutableDocument::parse` (taking the partial document on `Err`):
//!
//! * typing walk: each `Field::definition` equals `schema.type_field(parent, name)` and the
//!   reference schema view's definition (meta-fields included); each `SelectionSet::ty` is the
//!   field's inner named type / the type condition / the parent type;
//! * for documents apollo declares valid: the typed document has exactly the structure of the
//!   mini-AST, every spread resolves, the spread graph is acyclic (harness DFS), every used
//!   variable is defined, composite ⇒ sub-selection, leaf ⇒ none, and
//!   `Operation::root_fields` / `all_fields` yield exactly the reference traversal.

use apollo_compiler::ast as aast;
use apollo_compiler::executable as ex;
use apollo_compiler::ExecutableDocument;
use checks::execdocs::{self, Case, SchemaEnv};
use refmodel::ast::{self as mini, Document};
use refmodel::execval;
use std::collections::BTreeSet;
use vcore::{Check, Stats};

type Fail = (String, String);

fn fail(sig: &str, detail: String) -> Result<(), Fail> {
    Err((sig.to_string(), detail))
}

fn render_def(name: &str, ty: &str, args: &[(String, String)]) -> String {
    let a: Vec<String> = args.iter().map(|(n, t)| format!("{n}: {t}")).collect();
    format!("{name}({}): {ty}", a.join(", "))
}

struct Counts {
    fields: u64,
    meta: u64,
    inline_no_cond: u64,
    inline_cond: u64,
}

/// typing walk over apollo's typed selection set; `expected` is the type the reference says
/// this selection set selects on
fn walk_set(env: &SchemaEnv, set: &ex::SelectionSet, expected: &str, c: &mut Counts) -> Result<(), Fail> {
    if set.ty.as_str() != expected {
        return fail("selection-set-type", format!("selection set typed `{}`, expected `{expected}`", set.ty));
    }
    for sel in &set.selections {
        match sel {
            ex::Selection::Field(f) => {
                c.fields += 1;
                if f.name.starts_with("__") {
                    c.meta += 1;
                }
                // apollo's own lookup
                match env.apollo.type_field(expected, f.name.as_str()) {
                    Ok(def) => {
                        if *def.node != *f.definition {
                            return fail("field-definition-vs-type_field", format!("{expected}.{}: definition differs from schema.type_field", f.name));
                        }
                    }
                    Err(_) => return fail("field-without-definition", format!("{expected}.{} is in the typed document but schema.type_field finds nothing", f.name)),
                }
                // the reference view
                let Some(rdef) = env.view.field(expected, f.name.as_str()) else {
                    return fail("field-not-in-reference-schema", format!("{expected}.{} kept in the typed document, the reference schema has no such field", f.name));
                };
                let got = render_def(
                    f.definition.name.as_str(),
                    &f.definition.ty.to_string(),
                    &f.definition.arguments.iter().map(|a| (a.name.to_string(), a.ty.to_string())).collect::<Vec<_>>(),
                );
                let want = render_def(&rdef.name, &rdef.ty.to_string(), &rdef.args.iter().map(|a| (a.name.clone(), a.ty.to_string())).collect::<Vec<_>>());
                if got != want {
                    return fail("field-definition-vs-reference", format!("{expected}.{}: apollo `{got}`, reference `{want}`", f.name));
                }
                let inner = rdef.ty.inner_name();
                if f.selection_set.ty.as_str() != inner {
                    return fail("field-selection-set-type", format!("{expected}.{}: sub-selection typed `{}`, the field's inner type is `{inner}`", f.name, f.selection_set.ty));
                }
                walk_set(env, &f.selection_set, inner, c)?;
            }
            ex::Selection::InlineFragment(i) => {
                let child = match &i.type_condition {
                    Some(t) => {
                        c.inline_cond += 1;
                        t.as_str()
                    }
                    None => {
                        c.inline_no_cond += 1;
                        expected
                    }
                };
                if i.selection_set.ty.as_str() != child {
                    return fail(
                        "inline-fragment-type",
                        format!("inline fragment (condition {:?}) inside `{expected}` typed `{}`, expected `{child}`", i.type_condition.as_ref().map(|t| t.as_str()), i.selection_set.ty),
                    );
                }
                walk_set(env, &i.selection_set, child, c)?;
            }
            ex::Selection::FragmentSpread(_) => {}
        }
    }
    Ok(())
}

fn op_kind(t: aast::OperationType) -> mini::OpKind {
    match t {
        aast::OperationType::Query => mini::OpKind::Query,
        aast::OperationType::Mutation => mini::OpKind::Mutation,
        aast::OperationType::Subscription => mini::OpKind::Subscription,
    }
}

fn to_mini_value(v: &aast::Value) -> mini::Value {
    match v {
        aast::Value::Null => mini::Value::Null,
        aast::Value::Enum(n) => mini::Value::Enum(n.to_string()),
        aast::Value::Variable(n) => mini::Value::Var(n.to_string()),
        aast::Value::String(s) => mini::Value::Str(s.clone()),
        aast::Value::Float(f) => mini::Value::Float(f.as_str().to_string()),
        aast::Value::Int(i) => mini::Value::Int(i.as_str().to_string()),
        aast::Value::Boolean(b) => mini::Value::Bool(*b),
        aast::Value::List(l) => mini::Value::List(l.iter().map(|x| to_mini_value(x)).collect()),
        aast::Value::Object(o) => mini::Value::Object(o.iter().map(|(k, x)| (k.to_string(), to_mini_value(x))).collect()),
    }
}

fn to_mini_directives(d: &aast::DirectiveList) -> Vec<mini::Directive> {
    d.iter()
        .map(|d| mini::Directive { name: d.name.to_string(), args: d.arguments.iter().map(|a| (a.name.to_string(), to_mini_value(&a.value))).collect() })
        .collect()
}

/// apollo's typed selection set projected back to the mini-AST
fn to_mini_selection(set: &ex::SelectionSet) -> Vec<mini::Selection> {
    set.selections
        .iter()
        .map(|s| match s {
            ex::Selection::Field(f) => mini::Selection::Field(mini::Field {
                alias: f.alias.as_ref().map(|a| a.to_string()),
                name: f.name.to_string(),
                args: f.arguments.iter().map(|a| (a.name.to_string(), to_mini_value(&a.value))).collect(),
                directives: to_mini_directives(&f.directives),
                selection: to_mini_selection(&f.selection_set),
            }),
            ex::Selection::FragmentSpread(sp) => mini::Selection::Spread { name: sp.fragment_name.to_string(), directives: to_mini_directives(&sp.directives) },
            ex::Selection::InlineFragment(i) => mini::Selection::Inline {
                on: i.type_condition.as_ref().map(|t| t.to_string()),
                directives: to_mini_directives(&i.directives),
                selection: to_mini_selection(&i.selection_set),
            },
        })
        .collect()
}

fn variables_in(v: &aast::Value, out: &mut BTreeSet<String>) {
    match v {
        aast::Value::Variable(n) => {
            out.insert(n.to_string());
        }
        aast::Value::List(l) => l.iter().for_each(|x| variables_in(x, out)),
        aast::Value::Object(o) => o.iter().for_each(|(_, x)| variables_in(x, out)),
        _ => {}
    }
}

fn variables_in_directives(d: &aast::DirectiveList, out: &mut BTreeSet<String>) {
    for d in d.iter() {
        for a in &d.arguments {
            variables_in(&a.value, out);
        }
    }
}

/// harness DFS over apollo's document: spreads resolve, no cycle, variables used, leaf/composite
fn validity_guarantees(env: &SchemaEnv, doc: &ExecutableDocument) -> Result<(), Fail> {
    // spread graph
    fn spreads_of(set: &ex::SelectionSet, out: &mut Vec<String>) {
        for s in &set.selections {
            match s {
                ex::Selection::Field(f) => spreads_of(&f.selection_set, out),
                ex::Selection::InlineFragment(i) => spreads_of(&i.selection_set, out),
                ex::Selection::FragmentSpread(sp) => out.push(sp.fragment_name.to_string()),
            }
        }
    }
    let mut roots: Vec<(String, &ex::SelectionSet)> = doc.operations.iter().map(|o| (format!("operation {:?}", o.name.as_ref().map(|n| n.as_str())), &o.selection_set)).collect();
    roots.extend(doc.fragments.values().map(|f| (format!("fragment {}", f.name), &f.selection_set)));
    for (label, set) in &roots {
        let mut sp = vec![];
        spreads_of(set, &mut sp);
        for n in sp {
            if !doc.fragments.contains_key(n.as_str()) {
                return fail("valid-but-unresolved-spread", format!("{label} spreads undefined fragment {n}"));
            }
        }
    }
    // cycles: colour DFS over fragment names
    fn visit(doc: &ExecutableDocument, name: &str, stack: &mut Vec<String>, done: &mut BTreeSet<String>) -> Result<(), Fail> {
        if stack.iter().any(|s| s == name) {
            return fail("valid-but-cyclic-fragments", format!("cycle through fragment {name}: {stack:?}"));
        }
        if done.contains(name) {
            return Ok(());
        }
        stack.push(name.to_string());
        if let Some(f) = doc.fragments.get(name) {
            let mut sp = vec![];
            spreads_of(&f.selection_set, &mut sp);
            for n in sp {
                visit(doc, &n, stack, done)?;
            }
        }
        stack.pop();
        done.insert(name.to_string());
        Ok(())
    }
    let mut done = BTreeSet::new();
    for name in doc.fragments.keys() {
        visit(doc, name.as_str(), &mut vec![], &mut done)?;
    }
    // leaf / composite and variable definitions
    fn walk(env: &SchemaEnv, doc: &ExecutableDocument, set: &ex::SelectionSet, seen: &mut BTreeSet<String>, used: &mut BTreeSet<String>) -> Result<(), Fail> {
        for s in &set.selections {
            match s {
                ex::Selection::Field(f) => {
                    for a in &f.arguments {
                        variables_in(&a.value, used);
                    }
                    variables_in_directives(&f.directives, used);
                    let inner = f.definition.ty.inner_named_type().as_str();
                    let composite = env.view.is_composite(inner);
                    if composite && f.selection_set.selections.is_empty() {
                        return fail("valid-but-composite-without-selection", format!("field {} of composite type {inner} has no sub-selection", f.name));
                    }
                    if !composite && !f.selection_set.selections.is_empty() {
                        return fail("valid-but-leaf-with-selection", format!("field {} of leaf type {inner} has a sub-selection", f.name));
                    }
                    walk(env, doc, &f.selection_set, seen, used)?;
                }
                ex::Selection::InlineFragment(i) => {
                    variables_in_directives(&i.directives, used);
                    walk(env, doc, &i.selection_set, seen, used)?;
                }
                ex::Selection::FragmentSpread(sp) => {
                    variables_in_directives(&sp.directives, used);
                    if seen.insert(sp.fragment_name.to_string()) {
                        if let Some(f) = doc.fragments.get(&sp.fragment_name) {
                            variables_in_directives(&f.directives, used);
                            walk(env, doc, &f.selection_set, seen, used)?;
                        }
                    }
                }
            }
        }
        Ok(())
    }
    for op in doc.operations.iter() {
        let mut used = BTreeSet::new();
        variables_in_directives(&op.directives, &mut used);
        walk(env, doc, &op.selection_set, &mut BTreeSet::new(), &mut used)?;
        let defined: BTreeSet<String> = op.variables.iter().map(|v| v.name.to_string()).collect();
        for u in &used {
            if !defined.contains(u) {
                return fail("valid-but-undefined-variable", format!("${u} is used but not defined in operation {:?}", op.name.as_ref().map(|n| n.as_str())));
            }
        }
    }
    Ok(())
}

fn keys(fs: &[&mini::Field]) -> Vec<String> {
    fs.iter().map(|f| format!("{}:{}", f.alias.as_deref().unwrap_or(""), f.name)).collect()
}

fn check_doc(env: &SchemaEnv, doc: &Document, text: &str, st: &mut Stats) -> Result<&'static str, Fail> {
    st.transitions += 2;
    let parsed = vcore::catch(|| ExecutableDocument::parse(&env.apollo, text.to_string(), "q.graphql")).map_err(|p| ("panic".to_string(), format!("ExecutableDocument::parse panicked: {p}")))?;
    let (edoc, build_ok) = match parsed {
        Ok(d) => (d, true),
        Err(e) => (e.partial, false),
    };
    // typing walk, valid or not
    let mut c = Counts { fields: 0, meta: 0, inline_no_cond: 0, inline_cond: 0 };
    for op in edoc.operations.iter() {
        let Some(root) = env.view.root(op_kind(op.operation_type)) else {
            return Err(("operation-without-root-type".into(), format!("operation {:?} kept although the schema has no {} root type", op.name, op.operation_type)));
        };
        walk_set(env, &op.selection_set, root, &mut c)?;
    }
    for (name, fr) in &edoc.fragments {
        // several source fragments may share the name (an invalid document): which of them apollo
        // keeps is its choice (it skips one whose type condition is undefined); the kept one must be
        // typed by the condition of ONE of them
        let same_name: Vec<_> = doc.fragments().filter(|f| f.name == name.as_str()).collect();
        if same_name.is_empty() {
            return Err(("fragment-not-in-source".into(), format!("fragment {name} is not in the source document")));
        }
        let mf = same_name.iter().find(|f| f.on == fr.selection_set.ty.as_str()).unwrap_or(&same_name[0]);
        walk_set(env, &fr.selection_set, &mf.on, &mut c)?;
    }
    st.count("fields-typed", c.fields);
    st.count("meta-fields-typed", c.meta);
    st.count("inline-fragments-without-condition-typed", c.inline_no_cond);
    st.count("inline-fragments-with-condition-typed", c.inline_cond);
    // validity as apollo declares it
    let valid = match vcore::catch(|| edoc.clone().validate(&env.apollo)) {
        Ok(r) => build_ok && r.is_ok(),
        Err(p) => return Err(("panic".into(), format!("validate panicked: {p}"))),
    };
    if !valid {
        let total_fields: usize = doc.operations().map(|o| execval::all_fields(doc, o).len()).sum();
        return Ok(if c.fields as usize >= total_fields { "invalid:typed-complete" } else { "invalid:typed-partial" });
    }
    // valid: same structure as the mini-AST
    let mut rebuilt = Document::default();
    for d in &doc.defs {
        match d {
            mini::Definition::Operation(mo) => {
                let found = match &mo.name {
                    Some(n) => edoc.operations.named.get(n.as_str()),
                    None => edoc.operations.anonymous.as_ref(),
                };
                let Some(o) = found else {
                    return Err(("valid-but-operation-missing".into(), format!("operation {:?} is not in the typed document", mo.name)));
                };
                rebuilt.defs.push(mini::Definition::Operation(mini::Operation {
                    kind: op_kind(o.operation_type),
                    name: o.name.as_ref().map(|n| n.to_string()),
                    vars: o
                        .variables
                        .iter()
                        .map(|v| mini::VarDef {
                            name: v.name.to_string(),
                            ty: mini::Ty::parse(&v.ty.to_string()),
                            default: v.default_value.as_ref().map(|d| to_mini_value(d)),
                            directives: to_mini_directives(&v.directives),
                        })
                        .collect(),
                    directives: to_mini_directives(&o.directives),
                    selection: to_mini_selection(&o.selection_set),
                    shorthand: mo.shorthand,
                }));
            }
            mini::Definition::Fragment(mf) => {
                let Some(f) = edoc.fragments.get(mf.name.as_str()) else {
                    return Err(("valid-but-fragment-missing".into(), format!("fragment {} is not in the typed document", mf.name)));
                };
                rebuilt.defs.push(mini::Definition::Fragment(mini::Fragment {
                    name: f.name.to_string(),
                    on: f.type_condition().to_string(),
                    directives: to_mini_directives(&f.directives),
                    selection: to_mini_selection(&f.selection_set),
                }));
            }
            other => rebuilt.defs.push(other.clone()),
        }
    }
    if rebuilt != *doc {
        return Err(("valid-but-structure-differs".into(), format!("typed document projects to `{}`", vcore::short(&rebuilt.print()))));
    }
    validity_guarantees(env, &edoc)?;
    // iterators against the reference traversal
    for mo in doc.operations() {
        let o = match &mo.name {
            Some(n) => edoc.operations.named.get(n.as_str()),
            None => edoc.operations.anonymous.as_ref(),
        }
        .expect("checked above");
        let got_root: Vec<String> = o.root_fields(&edoc).map(|f| format!("{}:{}", f.alias.as_ref().map(|a| a.as_str()).unwrap_or(""), f.name)).collect();
        let want_root = keys(&execval::root_fields(doc, mo));
        if got_root != want_root {
            return Err(("root-fields".into(), format!("root_fields yields {got_root:?}, reference traversal {want_root:?}")));
        }
        let got_all: Vec<String> = o.all_fields(&edoc).map(|f| format!("{}:{}", f.alias.as_ref().map(|a| a.as_str()).unwrap_or(""), f.name)).collect();
        let want_all = keys(&execval::all_fields(doc, mo));
        if got_all != want_all {
            return Err(("all-fields".into(), format!("all_fields yields {got_all:?}, reference traversal {want_all:?}")));
        }
        st.count("iterator-fields-compared", (got_root.len() + got_all.len()) as u64);
    }
    if !execval::spreads_acyclic(doc) {
        return Err(("valid-but-cyclic-fragments".into(), "the source document's spread graph has a cycle".into()));
    }
    Ok(if doc.fragments().next().is_some() { "valid:with-fragments" } else { "valid:no-fragments" })
}

/// Known findings of C18: the two C17 defects that let a document with an undefined variable
/// validate. Predictive classifier: the reference validator reports `NoUndefinedVariables` on
/// the document, and no longer does with exactly the corresponding deviation switch on (i.e.
/// every undefined variable sits in a later duplicate of an input-object field / inside an
/// object literal given for a custom scalar).
const KF_C18: &[(&str, u32)] = &[
    ("C18-undefined-variable-in-duplicate-input-field", execval::DEV_DUP_INPUT_FIELDS),
    ("C18-undefined-variable-in-custom-scalar-object", execval::DEV_SCALAR_OBJECT_VARIABLE),
];

fn check_one(env: &SchemaEnv, doc: &Document, text: &str, case: &dyn Fn() -> serde_json::Value, open: u32, st: &mut Stats) {
    st.states += 1;
    match check_doc(env, doc, text, st) {
        Ok(label) => {
            if label.starts_with("invalid") {
                st.nontrivial += 1;
            }
            st.outcome(label)
        }
        Err((sig, _)) if sig == "valid-but-undefined-variable" && open != 0 && {
            let strict = execval::validate_with(&env.view, doc, &execval::Params::default());
            let dev = execval::validate_with(&env.view, doc, &execval::Params::with_deviations(open));
            strict.rules().contains(&"NoUndefinedVariables") && !dev.rules().contains(&"NoUndefinedVariables") && dev.fired != 0
        } =>
        {
            let dev = execval::validate_with(&env.view, doc, &execval::Params::with_deviations(open));
            let mut ids = vec![];
            for (id, bit) in KF_C18 {
                if dev.fired & bit != 0 {
                    st.known(id, text);
                    ids.push(*id);
                }
            }
            st.outcome(&format!("known-finding:{}", ids.join("+")));
        }
        Err((sig, detail)) => st.fail_simple(&sig, case(), format!("{detail}; document: {}", vcore::short(text)), text.len() as u64),
    }
}

fn run_replay(case: &serde_json::Value, open: u32, st: &mut Stats) {
    match execdocs::replay_env_and_doc(case) {
        Ok((env, doc)) => {
            let text = doc.print();
            check_one(&env, &doc, &text, &|| case.clone(), open, st)
        }
        Err(e) => vcore::machinery_error(&format!("replay case unusable: {e}")),
    }
}

fn main() {
    let mut chk = Check::new("C18");
    vcore::quiet_panics();
    let open: u32 = KF_C18.iter().filter(|(id, _)| chk.known.is_open(id)).map(|(_, b)| *b).sum();
    if let Some(case) = chk.replay_case() {
        let mut st = Stats::default();
        run_replay(&case, open, &mut st);
        chk.absorb(st);
        chk.finish_replay();
    }
    let envs = execdocs::schema_envs();
    let (stats, info) = execdocs::sweep(&envs, chk.tier(), &|c: &Case<'_>, st: &mut Stats| {
        check_one(c.env, c.doc, c.text, &|| execdocs::case_json(c), open, st);
        st.count(&format!("family:{}", c.family), 1);
        if c.family == "k1" && st.samples.is_empty() && c.text.len() % 11 == 0 {
            st.sample(serde_json::json!({"base": c.base, "operators": c.operators, "document": c.text}));
        }
    });
    chk.absorb(stats);
    chk.bounds = execdocs::bounds_json(&info);
    chk.rule = "every pair of the C17 space (bases, k mutations, tiny scope), valid or not; non-trivial = pairs apollo declares invalid \
                (typing is checked on the partial document)"
        .into();
    chk.assumptions = vec![
        "the reference schema view (refmodel::execval::SchemaView: extensions merged, meta-fields, root types) is correct; unit-tested".into(),
        "for invalid documents only the annotations of what apollo kept are checked (which parts are dropped is apollo's choice)".into(),
        "validity is apollo's own verdict (parse + validate); whether that verdict is right is C17".into(),
    ];
    chk.finish(&|case| {
        let mut st = Stats::default();
        run_replay(case, open, &mut st);
        !st.failures.is_empty()
    })
}
