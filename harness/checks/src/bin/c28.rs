//! C28 — variable coercion follows the specification (DESIGN.md §6 C28).
//! E-INPUT: the full product declared named type × wrapper × default value × JSON value, for
//! operations with one variable (with and without an undeclared extra key in the variables
//! map) and with two variables (every single-variable case × a menu of second variables × both
//! declaration orders). Real `apollo_compiler::request::coerce_variable_values` on a valid
//! schema + operation against `refmodel::coerce` (`CoerceVariableValues`).

use apollo_compiler::validation::Valid;
use apollo_compiler::{ExecutableDocument, Schema};
use refmodel::ast::{
    Definition, Document, EnumValueDef, Field, FieldDef, InputValueDef, Operation, Ty, TypeDef, TypeKind,
    Value as Lit, VarDef,
};
use refmodel::coerce::{self, CoerceError, Deviations, InputSchema};
use serde_json::{json, Map, Value};
use std::sync::OnceLock;
use vcore::{Check, Stats, Tier};

const KF_DEFAULT: &str = "C28-default-value-not-coerced";
const KF_FIELD_DEFAULT: &str = "C28-input-field-default-not-coerced";

// ---------------------------------------------------------------------------------
// The alphabet
// ---------------------------------------------------------------------------------

const NAMED: [&str; 9] = ["Int", "Float", "String", "Boolean", "ID", "E", "In", "In3", "S"];
/// wrappers around the named type `T`
const WRAPPERS: [&str; 8] = ["T", "T!", "[T]", "[T!]", "[T]!", "[T!]!", "[[T]]", "[[T!]]!"];

fn wrap_ty(named: &str, wrapper: &str) -> Ty {
    Ty::parse(&wrapper.replace('T', named))
}

fn list_depth(t: &Ty) -> usize {
    match t {
        Ty::Named(_) => 0,
        Ty::NonNull(i) => list_depth(i),
        Ty::List(i) => 1 + list_depth(i),
    }
}

/// The schema every case runs against: one `Query` field per (named, wrapper) whose single
/// argument has exactly that type, so that `query($v: VT) { fK(x: $v) }` is valid.
fn schema_document() -> Document {
    let mut q = TypeDef::new(TypeKind::Object, "Query");
    for (n, named) in NAMED.iter().enumerate() {
        for (w, wrapper) in WRAPPERS.iter().enumerate() {
            let mut f = FieldDef::new(&format!("f{}", n * WRAPPERS.len() + w), Ty::named("Int"));
            f.args.push(InputValueDef::new("x", wrap_ty(named, wrapper)));
            q.fields.push(f);
        }
    }
    let mut e = TypeDef::new(TypeKind::Enum, "E");
    for v in ["A", "C"] {
        e.values.push(EnumValueDef { description: None, name: v.into(), directives: vec![] });
    }
    // input In { a: Int!  b: Int = 1  c: In2  d: [Int] }
    let mut i = TypeDef::new(TypeKind::Input, "In");
    i.input_fields.push(InputValueDef::new("a", Ty::parse("Int!")));
    let mut b = InputValueDef::new("b", Ty::named("Int"));
    b.default = Some(Lit::int(1));
    i.input_fields.push(b);
    i.input_fields.push(InputValueDef::new("c", Ty::named("In2")));
    i.input_fields.push(InputValueDef::new("d", Ty::parse("[Int]")));
    // input In2 { x: Int  y: Int = 7 }
    let mut i2 = TypeDef::new(TypeKind::Input, "In2");
    i2.input_fields.push(InputValueDef::new("x", Ty::named("Int")));
    let mut y = InputValueDef::new("y", Ty::named("Int"));
    y.default = Some(Lit::int(7));
    i2.input_fields.push(y);
    // input In3 { e: [Int] = 1  g: In2 = {x: 1} }   (field defaults that need coercion)
    let mut i3 = TypeDef::new(TypeKind::Input, "In3");
    let mut fe = InputValueDef::new("e", Ty::parse("[Int]"));
    fe.default = Some(Lit::int(1));
    i3.input_fields.push(fe);
    let mut fg = InputValueDef::new("g", Ty::named("In2"));
    fg.default = Some(Lit::obj(&[("x", Lit::int(1))]));
    i3.input_fields.push(fg);
    let s = TypeDef::new(TypeKind::Scalar, "S");
    Document { defs: [q, e, i, i2, i3, s].into_iter().map(Definition::Type).collect() }
}

/// literals that are valid values of the *named* type
fn base_literals(named: &str) -> Vec<Lit> {
    match named {
        "Int" => vec![Lit::int(1)],
        "Float" => vec![Lit::Float("1.5".into()), Lit::int(2)],
        "String" => vec![Lit::str("a")],
        "Boolean" => vec![Lit::Bool(true)],
        "ID" => vec![Lit::str("x"), Lit::int(3)],
        "E" => vec![Lit::en("A")],
        "In" => vec![
            Lit::obj(&[("a", Lit::int(1))]),
            Lit::obj(&[
                ("a", Lit::int(1)),
                ("b", Lit::Null),
                ("c", Lit::obj(&[("x", Lit::int(1))])),
                ("d", Lit::int(2)),
            ]),
        ],
        "In3" => vec![Lit::obj(&[]), Lit::obj(&[("e", Lit::List(vec![Lit::int(2)]))])],
        "S" => vec![
            Lit::obj(&[("k", Lit::List(vec![Lit::int(1), Lit::en("A")]))]),
            Lit::Float("1.5".into()),
        ],
        _ => unreachable!(),
    }
}

/// Default values that validation accepts for (named, wrapper): none; every base literal wrapped
/// in 0..=depth list levels (fewer levels than the type has = the "single value for a list
/// type" forms); `null` if the type is nullable; `[]`; `[null]` where items are nullable.
fn defaults_for(named: &str, wrapper: &str) -> Vec<Option<Lit>> {
    let ty = wrap_ty(named, wrapper);
    let depth = list_depth(&ty);
    let mut out = vec![None];
    for l in base_literals(named) {
        let mut v = l;
        for k in 0..=depth {
            if k > 0 {
                v = Lit::List(vec![v]);
            }
            out.push(Some(v.clone()));
        }
    }
    if !ty.is_non_null() {
        out.push(Some(Lit::Null));
    }
    if depth >= 1 {
        out.push(Some(Lit::List(vec![])));
        if !ty.item().unwrap().is_non_null() {
            out.push(Some(Lit::List(vec![Lit::Null])));
        }
    }
    out
}

/// The JSON value menu (`None` = the variable is absent from the variables map).
fn json_menu() -> Vec<Option<Value>> {
    let mut m: Vec<Option<Value>> = vec![None];
    let vals = [
        json!(null),
        json!(true),
        json!(1),
        json!(-1),
        json!(2147483647i64),
        json!(-2147483648i64),
        json!(2147483648i64),
        json!(-2147483649i64),
        json!(1.5),
        json!(9007199254740990i64),  // 2^53 - 2
        json!(-9007199254740990i64), // -(2^53 - 2)
        json!(9007199254740993i64),  // 2^53 + 1: not an f64
        json!(i64::MAX),
        json!("a"),
        json!("1"),
        json!("1.5"),
        json!("true"),
        json!("A"),
        json!("B"),
        json!([]),
        json!([1]),
        json!([null]),
        json!([[1]]),
        json!([[1], 2]),
        json!([[null]]),
        json!([[[1]]]),
        json!([1, "a"]),
        json!(["A", "C"]),
        json!({}),
        json!({"a": 1}),
        json!({"a": null}),
        json!({"a": "x"}),
        json!({"a": 2147483648i64}),
        json!({"a": 1, "zz": 1}),
        json!({"a": 1, "b": null}),
        json!({"a": 1, "b": 2}),
        json!({"a": 1, "c": {"x": 1}}),
        json!({"a": 1, "c": {"zz": 1}}),
        json!({"a": 1, "c": {"x": "s"}}),
        json!({"a": 1, "c": null}),
        json!({"c": {"x": 1}}),
        json!({"a": 1, "d": 1}),
        json!({"a": 1, "d": [1, null]}),
        json!({"a": 1, "d": [[1]]}),
        json!([{"a": 1}]),
        json!([{"a": 1}, null]),
        json!([{}]),
        json!({"e": 5}),
        json!({"e": null, "g": {}}),
        json!({"g": {"y": null}}),
    ];
    m.extend(vals.into_iter().map(Some));
    m
}

// ---------------------------------------------------------------------------------
// Cases
// ---------------------------------------------------------------------------------

#[derive(Clone, Debug)]
struct VarCase {
    named: usize,
    wrapper: usize,
    default: Option<Lit>,
    provided: Option<Value>,
}

#[derive(Clone, Debug)]
struct Case {
    /// in declaration order, named `v`, `w`
    vars: Vec<VarCase>,
    /// an undeclared key `zz` is present in the variables map
    extra: bool,
}

fn lit_to_tagged(l: &Lit) -> Value {
    match l {
        Lit::Null => json!("null"),
        Lit::Bool(b) => json!({ "bool": b }),
        Lit::Int(s) => json!({ "int": s }),
        Lit::Float(s) => json!({ "float": s }),
        Lit::Str(s) => json!({ "str": s }),
        Lit::Enum(s) => json!({ "enum": s }),
        Lit::Var(s) => json!({ "var": s }),
        Lit::List(items) => json!({ "list": items.iter().map(lit_to_tagged).collect::<Vec<_>>() }),
        Lit::Object(fs) => json!({ "object": fs.iter().map(|(k, v)| json!([k, lit_to_tagged(v)])).collect::<Vec<_>>() }),
    }
}

fn lit_from_tagged(v: &Value) -> Lit {
    if v.as_str() == Some("null") {
        return Lit::Null;
    }
    let o = v.as_object().expect("tagged literal");
    let (k, x) = o.iter().next().expect("tagged literal");
    let s = || x.as_str().expect("tagged literal text").to_string();
    match k.as_str() {
        "bool" => Lit::Bool(x.as_bool().unwrap()),
        "int" => Lit::Int(s()),
        "float" => Lit::Float(s()),
        "str" => Lit::Str(s()),
        "enum" => Lit::Enum(s()),
        "var" => Lit::Var(s()),
        "list" => Lit::List(x.as_array().unwrap().iter().map(lit_from_tagged).collect()),
        "object" => Lit::Object(
            x.as_array()
                .unwrap()
                .iter()
                .map(|p| (p[0].as_str().unwrap().to_string(), lit_from_tagged(&p[1])))
                .collect(),
        ),
        other => panic!("unknown literal tag {other}"),
    }
}

impl Case {
    fn to_json(&self) -> Value {
        let (doc, provided) = self.render();
        json!({
            "vars": self.vars.iter().map(|v| json!({
                "named": NAMED[v.named],
                "wrapper": WRAPPERS[v.wrapper],
                "default": v.default.as_ref().map(lit_to_tagged),
                "provided": v.provided.as_ref().map(|p| json!({"value": p})),
            })).collect::<Vec<_>>(),
            "extra": self.extra,
            "document": doc.print(),
            "variables": Value::Object(provided),
        })
    }
    fn from_json(v: &Value) -> Case {
        let vars = v["vars"]
            .as_array()
            .expect("vars")
            .iter()
            .map(|x| VarCase {
                named: NAMED.iter().position(|n| Some(*n) == x["named"].as_str()).expect("named"),
                wrapper: WRAPPERS.iter().position(|n| Some(*n) == x["wrapper"].as_str()).expect("wrapper"),
                default: if x["default"].is_null() { None } else { Some(lit_from_tagged(&x["default"])) },
                provided: if x["provided"].is_null() { None } else { Some(x["provided"]["value"].clone()) },
            })
            .collect();
        Case { vars, extra: v["extra"].as_bool().unwrap_or(false) }
    }
    fn var_defs(&self) -> Vec<VarDef> {
        self.vars
            .iter()
            .enumerate()
            .map(|(i, v)| VarDef {
                name: ["v", "w"][i].to_string(),
                ty: wrap_ty(NAMED[v.named], WRAPPERS[v.wrapper]),
                default: v.default.clone(),
                directives: vec![],
            })
            .collect()
    }
    /// the operation document and the variables map
    fn render(&self) -> (Document, Map<String, Value>) {
        let defs = self.var_defs();
        let mut op = Operation::query(vec![]);
        let mut provided = Map::new();
        for (i, v) in self.vars.iter().enumerate() {
            let fname = format!("f{}", v.named * WRAPPERS.len() + v.wrapper);
            op.selection
                .push(Field::new(&fname).alias(["a", "b"][i]).arg("x", Lit::var(&defs[i].name)).into());
            if let Some(p) = &v.provided {
                provided.insert(defs[i].name.clone(), p.clone());
            }
        }
        op.vars = defs;
        if self.extra {
            provided.insert("zz".to_string(), json!(1));
        }
        (Document { defs: vec![Definition::Operation(op)] }, provided)
    }
    fn size(&self) -> u64 {
        let (d, p) = self.render();
        (self.vars.len() * 1000 + d.print().len() + Value::Object(p).to_string().len()) as u64
    }
}

// ---------------------------------------------------------------------------------
// One case
// ---------------------------------------------------------------------------------

struct World {
    sdl: String,
    real: Valid<Schema>,
    model: InputSchema,
}

static WORLD: OnceLock<World> = OnceLock::new();

fn world() -> &'static World {
    WORLD.get_or_init(|| {
        let doc = schema_document();
        let sdl = doc.print();
        let real = match Schema::parse_and_validate(&sdl, "schema.graphql") {
            Ok(s) => s,
            Err(e) => vcore::machinery_error(&format!("the C28 schema does not validate: {}", e.errors)),
        };
        World { sdl, real, model: InputSchema::from_document(&doc) }
    })
}

#[derive(Clone, Copy)]
struct Open {
    default: bool,
    field_default: bool,
}

fn to_bytes(m: &Map<String, Value>) -> apollo_compiler::response::JsonMap {
    let v = serde_json_bytes::to_value(m).expect("json conversion");
    match v {
        serde_json_bytes::Value::Object(o) => o,
        _ => unreachable!(),
    }
}

fn from_bytes(m: &apollo_compiler::response::JsonMap) -> Map<String, Value> {
    match serde_json::to_value(m).expect("json conversion") {
        Value::Object(o) => o,
        _ => unreachable!(),
    }
}

fn agree(real: &Result<Map<String, Value>, String>, model: &coerce::CoerceResult) -> bool {
    match (real, model) {
        (Err(_), Err(_)) => true,
        (Ok(a), Ok(b)) => coerce::json_equiv(&Value::Object(a.clone()), &Value::Object(b.clone())),
        _ => false,
    }
}

fn err_label(e: &CoerceError) -> &'static str {
    match e {
        CoerceError::MissingNonNullVariable(_) => "err:non-null-variable-missing-or-null",
        CoerceError::NullForNonNull(_) => "err:null-inside-non-null",
        CoerceError::WrongType { .. } => "err:wrong-type",
        CoerceError::UnknownInputField { .. } => "err:unknown-input-field",
        CoerceError::MissingNonNullInputField { .. } => "err:missing-non-null-input-field",
        CoerceError::Invalid(_) => "err:invalid-setup",
    }
}

fn run_case(case: &Case, open: Open, st: &mut Stats) {
    st.states += 1;
    let w = world();
    let (doc, provided) = case.render();
    let text = doc.print();
    let defs = case.var_defs();
    let fail = |st: &mut Stats, sig: &str, detail: String| {
        st.fail_simple(sig, case.to_json(), detail, case.size());
    };

    // ---- reference
    let strict = coerce::coerce_variable_values(&w.model, &defs, &provided, Deviations::default());
    if let Err(CoerceError::Invalid(m)) = &strict.result {
        fail(st, "setup-model-invalid", format!("the reference model calls the case invalid: {m}"));
        return;
    }

    // ---- real
    st.transitions += 1;
    let exec = match vcore::catch(|| ExecutableDocument::parse_and_validate(&w.real, &text, "op.graphql")) {
        Ok(Ok(d)) => d,
        Ok(Err(e)) => {
            fail(
                st,
                "setup-document-rejected",
                format!("the operation is valid by construction but validation reports: {}", vcore::short(&e.errors.to_string())),
            );
            return;
        }
        Err(p) => {
            fail(st, "panic", format!("validation panicked: {p}"));
            return;
        }
    };
    let Some(op) = exec.operations.anonymous.as_ref() else {
        fail(st, "setup-document-rejected", "no anonymous operation".into());
        return;
    };
    let values = to_bytes(&provided);
    let real: Result<Map<String, Value>, String> =
        match vcore::catch(|| apollo_compiler::request::coerce_variable_values(&w.real, op, &values)) {
            Ok(Ok(m)) => Ok(from_bytes(&m)),
            Ok(Err(e)) => Err(e.message().to_string()),
            Err(p) => {
                fail(st, "panic", format!("coerce_variable_values panicked: {p}"));
                return;
            }
        };

    // ---- compare
    if agree(&real, &strict.result) {
        // every result value conforms to its declared type (direct statement of the property)
        if let Ok(m) = &real {
            for (k, v) in m {
                let Some(d) = defs.iter().find(|d| d.name == *k) else {
                    fail(st, "key-set", format!("result contains the undeclared variable {k}"));
                    return;
                };
                if !coerce::conforms(&w.model, &d.ty, v) {
                    fail(st, "nonconforming-value", format!("${k}: {} = {v} does not conform to its type", d.ty));
                    return;
                }
            }
        }
        label(case, &strict.result, &defs, st);
        return;
    }
    // Known findings: the reference with the listed deviation switches on. Both listed findings
    // first; then each one alone, so that repairing one of the two sites does not turn the
    // cases of the other, still listed, one into violations. A case is attributed only if the
    // prediction is exact and a switch of that very combination changed a sub-decision.
    for (a, b) in [(true, true), (true, false), (false, true)] {
        if (a && !open.default) || (b && !open.field_default) {
            continue;
        }
        let dev = Deviations { default_value_not_coerced: a, input_field_default_not_coerced: b };
        let d = coerce::coerce_variable_values(&w.model, &defs, &provided, dev);
        if agree(&real, &d.result) && (d.fired.default_value_not_coerced || d.fired.input_field_default_not_coerced) {
            let witness = format!("{text}  variables {}", Value::Object(provided.clone()));
            if d.fired.default_value_not_coerced {
                st.known(KF_DEFAULT, &witness);
            }
            if d.fired.input_field_default_not_coerced {
                st.known(KF_FIELD_DEFAULT, &witness);
            }
            st.nontrivial += 1;
            st.outcome("known-finding");
            return;
        }
    }
    let show = |r: &Result<Map<String, Value>, String>| match r {
        Ok(m) => format!("Ok({})", Value::Object(m.clone())),
        Err(e) => format!("Err({e})"),
    };
    let show_model = |r: &coerce::CoerceResult| match r {
        Ok(m) => format!("Ok({})", Value::Object(m.clone())),
        Err(e) => format!("Err({e:?})"),
    };
    let sig = match (&real, &strict.result) {
        (Ok(_), Err(_)) => "accepts-what-the-spec-rejects",
        (Err(_), Ok(_)) => "rejects-what-the-spec-accepts",
        (Ok(a), Ok(b)) => {
            if a.keys().collect::<std::collections::BTreeSet<_>>() != b.keys().collect::<std::collections::BTreeSet<_>>() {
                "key-set"
            } else {
                "value"
            }
        }
        _ => unreachable!(),
    };
    fail(
        st,
        sig,
        format!(
            "{text}  variables {}  apollo {}  reference {}",
            Value::Object(provided.clone()),
            show(&real),
            show_model(&strict.result)
        ),
    );
}

/// Outcome label and the non-triviality rule, from the reference result.
fn label(case: &Case, strict: &coerce::CoerceResult, defs: &[VarDef], st: &mut Stats) {
    match strict {
        Err(e) => {
            if !matches!(e, CoerceError::WrongType { .. }) {
                st.nontrivial += 1;
            }
            st.outcome(err_label(e));
        }
        Ok(m) => {
            let mut changed = false;
            let mut parts: Vec<&str> = Vec::new();
            for (d, vc) in defs.iter().zip(&case.vars) {
                match (&vc.provided, &vc.default, m.get(&d.name)) {
                    (None, None, None) => parts.push("omitted"),
                    (None, Some(l), Some(r)) => {
                        let verbatim = coerce::literal_to_json(l).unwrap_or(Value::Null);
                        if coerce::json_equiv(&verbatim, r) {
                            parts.push("default")
                        } else {
                            changed = true;
                            parts.push("default-coerced")
                        }
                    }
                    (Some(Value::Null), _, Some(_)) => parts.push("null"),
                    (Some(p), _, Some(r)) => {
                        if coerce::json_equiv(p, r) {
                            parts.push("value")
                        } else {
                            changed = true;
                            parts.push("value-coerced")
                        }
                    }
                    _ => parts.push("?"),
                }
            }
            if changed {
                st.nontrivial += 1;
            }
            st.outcome(&format!("ok:{}", parts.join("+")));
        }
    }
}

// ---------------------------------------------------------------------------------
// Enumeration
// ---------------------------------------------------------------------------------

/// every (named, wrapper, default, JSON value)
fn single_cases() -> Vec<VarCase> {
    let menu = json_menu();
    let mut out = Vec::new();
    for (n, named) in NAMED.iter().enumerate() {
        for (w, wrapper) in WRAPPERS.iter().enumerate() {
            for d in defaults_for(named, wrapper) {
                for p in &menu {
                    out.push(VarCase { named: n, wrapper: w, default: d.clone(), provided: p.clone() });
                }
            }
        }
    }
    out
}

/// the second variable of the two-variable products
fn second_cases(tier: Tier) -> Vec<VarCase> {
    let idx = |s: &str| NAMED.iter().position(|n| *n == s).unwrap();
    let widx = |s: &str| WRAPPERS.iter().position(|n| *n == s).unwrap();
    let mk = |n: &str, w: &str, d: Option<Lit>, p: Option<Value>| VarCase {
        named: idx(n),
        wrapper: widx(w),
        default: d,
        provided: p,
    };
    let mut v = vec![
        mk("Int", "T", None, None),                  // omitted
        mk("Int", "T!", None, None),                 // error: missing
        mk("Int", "T", None, Some(json!("1"))),      // error: wrong type
        mk("Int", "[T]", Some(Lit::int(1)), None),   // default that needs wrapping
        mk("In", "T", None, Some(json!({"a": 1}))),  // provided, defaults filled
        mk("E", "T!", None, Some(json!("A"))),       // provided, unchanged
    ];
    if tier == Tier::Thorough {
        v.extend([
            mk("Int", "T", None, Some(json!(null))),
            mk("Int", "T!", None, Some(json!(null))),
            mk("Int", "T!", Some(Lit::int(1)), None),
            mk("Int", "T", Some(Lit::Null), None),
            mk("Int", "[[T]]", None, Some(json!(1))),
            mk("Int", "[T!]", None, Some(json!([1, null]))),
            mk("Float", "T", None, Some(json!(i64::MAX))),
            mk("Float", "T", None, Some(json!(3))),
            mk("ID", "T", None, Some(json!(1.5))),
            mk("String", "[T]!", None, Some(json!("a"))),
            mk("Boolean", "T", None, Some(json!(1))),
            mk("E", "T", None, Some(json!("B"))),
            mk("In", "T", None, Some(json!({"a": 1, "zz": 1}))),
            mk("In", "T", None, Some(json!({}))),
            mk("In", "T", Some(Lit::obj(&[("a", Lit::int(2))])), None),
            mk("In", "[T]", None, Some(json!({"a": 1, "c": {"x": 1}, "d": 1}))),
            mk("In3", "T", None, Some(json!({}))),
            mk("S", "T", None, Some(json!({"any": [1, "x", null]}))),
            mk("S", "T!", None, Some(json!(null))),
            mk("S", "[T]", Some(Lit::int(1)), None),
        ]);
    }
    v
}

struct Space {
    singles: Vec<VarCase>,
    seconds: Vec<VarCase>,
}

impl Space {
    fn total(&self) -> u64 {
        let s = self.singles.len() as u64;
        2 * s + s * self.seconds.len() as u64 * 2
    }
    fn nth(&self, i: u64) -> Case {
        let s = self.singles.len() as u64;
        if i < s {
            return Case { vars: vec![self.singles[i as usize].clone()], extra: false };
        }
        if i < 2 * s {
            return Case { vars: vec![self.singles[(i - s) as usize].clone()], extra: true };
        }
        let j = i - 2 * s;
        let first = &self.singles[(j / (2 * self.seconds.len() as u64)) as usize];
        let r = j % (2 * self.seconds.len() as u64);
        let second = &self.seconds[(r / 2) as usize];
        let vars = if r % 2 == 0 { vec![first.clone(), second.clone()] } else { vec![second.clone(), first.clone()] };
        Case { vars, extra: false }
    }
}

fn main() {
    let mut chk = Check::new("C28");
    vcore::quiet_panics();
    let open = Open { default: chk.known.is_open(KF_DEFAULT), field_default: chk.known.is_open(KF_FIELD_DEFAULT) };
    if let Some(case) = chk.replay_case() {
        let mut st = Stats::default();
        run_case(&Case::from_json(&case), open, &mut st);
        chk.absorb(st);
        chk.finish_replay();
    }
    let _ = world();
    // the alphabet contains none of the integers that are ambiguous for Float (DESIGN C28)
    for v in json_menu().into_iter().flatten() {
        fn walk(v: &Value) {
            match v {
                Value::Number(n) => {
                    if let Some(i) = n.as_i64() {
                        if coerce::float_integer_is_ambiguous(i) {
                            vcore::machinery_error(&format!("ambiguous integer {i} in the JSON menu"));
                        }
                    } else if !n.is_f64() {
                        vcore::machinery_error("u64 beyond i64 in the JSON menu");
                    }
                }
                Value::Array(a) => a.iter().for_each(walk),
                Value::Object(o) => o.values().for_each(walk),
                _ => {}
            }
        }
        walk(&v);
    }
    let space = Space { singles: single_cases(), seconds: second_cases(chk.tier()) };
    let total = space.total();
    println!(
        "single-variable configurations {} second-variable menu {} total cases {}",
        space.singles.len(),
        space.seconds.len(),
        total
    );
    let stats = vcore::par_sweep(total, 2048, |i, st| {
        let case = space.nth(i);
        if i % (total / 9 + 1) == total / 23 {
            let (d, p) = case.render();
            st.sample(json!({"document": d.print(), "variables": Value::Object(p)}));
        }
        run_case(&case, open, st);
    });
    chk.absorb(stats);
    chk.bounds = json!({
        "schema": world().sdl,
        "named_types": NAMED,
        "wrappers": WRAPPERS,
        "defaults": "none | each base literal of the named type wrapped in 0..=depth list levels | null if nullable | [] | [null] if items nullable",
        "json_menu": json_menu().into_iter().map(|v| v.unwrap_or(json!("<absent>"))).collect::<Vec<_>>(),
        "single_variable_configurations": space.singles.len(),
        "second_variable_menu": space.seconds.len(),
        "cases": total,
        "shape": "one variable; one variable + undeclared key zz; two variables (first × second menu × both orders)",
    });
    chk.rule = "full product named type × wrapper × default × JSON value (and the two-variable products); \
                non-trivial = the reference result is a request error other than a plain kind mismatch \
                (missing / null non-null variable, null inside non-null, unknown or missing input field), or a \
                coerced value differs from the provided JSON value / the verbatim default literal (list wrapped, \
                input-object default filled)"
        .into();
    chk.assumptions = vec![
        "reference model refmodel::coerce transcribes CoerceVariableValues (spec §6.1.2) and the input coercion rules of §3 with the statement's scalar rules; unit tests are the spec's coercion tables".into(),
        "recursive single-value-to-list wrapping follows the prose of §3.11 (and graphql-js); the October 2021 table row `[[Int]] [1,2,3] -> Error`, corrected in the current draft, is not followed".into(),
        "Float accepts JSON integers of magnitude < 2^53-1 and rejects integers f64 cannot represent exactly; exactly representable integers >= 2^53-1 (2^53-1, 2^53, ...) are ambiguous between 'finite numbers' and the pinned unit tests and are not in the alphabet; neither are u64 values above i64::MAX nor floats with an integral value for Int/ID".into(),
        "numbers are compared by numeric value (1 == 1.0); that an Int result is a JSON integer is checked by the conformance predicate".into(),
        "only success/failure of a request error is compared, not its message".into(),
    ];
    chk.exhaustive = true;
    chk.finish(&|case| {
        let mut st = Stats::default();
        run_case(&Case::from_json(case), open, &mut st);
        !st.failures.is_empty()
    })
}
