//! C22 — outputs are deterministic across processes (DESIGN.md §6 C22, revised: see below).
//!
//! E-CHOICE over the one source of nondeterminism apollo-rs consumes here: the keys of its hash
//! collections. All of `apollo_compiler::collections::{HashMap, HashSet, IndexMap, IndexSet}` are
//! keyed by `ahash::RandomState::new()`, which draws one seed per *instance* from ahash's global
//! `RandomSource`. The harness installs its own `RandomSource` (ahash's documented seam,
//! `ahash::random_state::set_random_source`) before the first collection exists, so the seed of
//! every hash collection created during a workload is an answer the explorer chooses. The
//! explorer enumerates every seed schedule in a stated finite set (constant schedules `s` for
//! s in 0..N, and per-instance-varying schedules `s + i·stride`) and runs every workload to
//! completion under each; the outputs must be byte-identical to those under schedule 0.
//! A self-test measures, per run, that the schedules really permute hash iteration (every one
//! of the k! iteration orders of probe sets of k = 2,3,4 names is witnessed) — otherwise the
//! run is not reported as exhaustive.
//!
//! Second part (the literal statement, "in every process"): the same workloads are run in K
//! fresh child processes that use ahash's and std's *natural* per-process seeds; their output
//! digests must be identical. This also covers apollo-smith's `std::collections::HashMap`s,
//! which the ahash seam does not reach. K is a bound on processes, not a sample of inputs.

use apollo_compiler::collections::HashSet as ApolloHashSet;
use apollo_compiler::validation::Valid;
use apollo_compiler::{ExecutableDocument, Name, Schema};
use serde_json::{json, Value};
use std::collections::BTreeMap;
use std::collections::BTreeSet;
use std::sync::atomic::{AtomicUsize, Ordering};
use vcore::{Check, Stats};

// ---------------------------------------------------------------------------------------------
// The seam: ahash RandomSource owned by the explorer
// ---------------------------------------------------------------------------------------------

// The schedule is per thread (a hash collection draws its seed on the thread that creates it), so
// that the sweeps can run in parallel and every case still sees exactly the seeds of its schedule.
thread_local! {
    static BASE: std::cell::Cell<usize> = const { std::cell::Cell::new(0) };
    static STRIDE: std::cell::Cell<usize> = const { std::cell::Cell::new(0) };
    static COUNTER: std::cell::Cell<usize> = const { std::cell::Cell::new(0) };
}
static SEAM_CALLS: AtomicUsize = AtomicUsize::new(0);

struct Seam;
impl ahash::random_state::RandomSource for Seam {
    fn gen_hasher_seed(&self) -> usize {
        SEAM_CALLS.fetch_add(1, Ordering::Relaxed);
        let i = COUNTER.with(|c| {
            let i = c.get();
            c.set(i + 1);
            i
        });
        BASE.with(|b| b.get()).wrapping_add(i.wrapping_mul(STRIDE.with(|s| s.get())))
    }
}

#[derive(Clone, Copy, Debug, PartialEq, Eq, PartialOrd, Ord)]
struct Schedule {
    base: usize,
    stride: usize,
}

fn set_schedule(s: Schedule) {
    BASE.with(|b| b.set(s.base));
    STRIDE.with(|b| b.set(s.stride));
    COUNTER.with(|b| b.set(0));
}

// ---------------------------------------------------------------------------------------------
// Workloads: (name, fn() -> output text). Each drives a path that iterates or could iterate a
// hash collection, and renders everything a user can observe.
// ---------------------------------------------------------------------------------------------

const INTROSPECTION_QUERY: &str = r#"
query IntrospectionQuery {
  __schema {
    description
    queryType { name } mutationType { name } subscriptionType { name }
    types { ...FullType }
    directives { name description isRepeatable locations args(includeDeprecated: true) { ...InputValue } }
  }
}
fragment FullType on __Type {
  kind name description specifiedByURL
  fields(includeDeprecated: true) { name description args(includeDeprecated: true) { ...InputValue } type { ...TypeRef } isDeprecated deprecationReason }
  inputFields(includeDeprecated: true) { ...InputValue }
  interfaces { ...TypeRef }
  enumValues(includeDeprecated: true) { name description isDeprecated deprecationReason }
  possibleTypes { ...TypeRef }
}
fragment InputValue on __InputValue { name description type { ...TypeRef } defaultValue isDeprecated deprecationReason }
fragment TypeRef on __Type { kind name ofType { kind name ofType { kind name ofType { kind name } } } }
"#;

fn introspect(schema: &Valid<Schema>) -> String {
    let doc = match ExecutableDocument::parse_and_validate(schema, INTROSPECTION_QUERY, "i.graphql")
    {
        Ok(d) => d,
        Err(e) => return format!("introspection query invalid: {}", e.errors),
    };
    let op = doc.operations.get(None).unwrap();
    let vars = apollo_compiler::request::coerce_variable_values(
        schema,
        op,
        &apollo_compiler::response::JsonMap::default(),
    )
    .unwrap();
    match apollo_compiler::introspection::partial_execute(
        schema,
        &schema.implementers_map(),
        &doc,
        op,
        &vars,
    ) {
        Ok(r) => serde_json::to_string(&r).unwrap(),
        Err(e) => format!("introspection error: {}", e.message()),
    }
}

fn types_order(schema: &Schema) -> String {
    schema
        .types
        .keys()
        .map(|k| k.as_str())
        .collect::<Vec<_>>()
        .join(",")
}

fn render_schema(schema: &Valid<Schema>) -> String {
    format!(
        "TYPES {}\nDIRECTIVES {}\nSDL\n{}\nINTROSPECTION {}\n",
        types_order(schema),
        schema
            .directive_definitions
            .keys()
            .map(|k| k.as_str())
            .collect::<Vec<_>>()
            .join(","),
        schema,
        introspect(schema)
    )
}

fn add_field(schema: &mut Schema, ty: &str, field: &str, field_ty: &str) {
    use apollo_compiler::schema::{Component, ExtendedType, FieldDefinition};
    let fd = FieldDefinition {
        description: None,
        name: Name::new(field).unwrap(),
        arguments: vec![],
        ty: apollo_compiler::ast::Type::parse(field_ty, "t").unwrap(),
        directives: Default::default(),
    };
    match schema.types.get_mut(ty).unwrap() {
        ExtendedType::Object(o) => {
            o.make_mut()
                .fields
                .insert(Name::new(field).unwrap(), Component::new(fd));
        }
        ExtendedType::Interface(o) => {
            o.make_mut()
                .fields
                .insert(Name::new(field).unwrap(), Component::new(fd));
        }
        _ => panic!("not an object"),
    }
}

/// w1: validate → into_inner → add fields referencing pruned built-in scalars → validate.
fn w1_readd(scalars: &[&str]) -> String {
    let schema = Schema::parse_and_validate("type Query { q: T } type T { t: T }", "w1.graphql")
        .expect("w1 base schema");
    let mut out = format!("FIRST {}\n", types_order(&schema));
    let mut inner = schema.into_inner();
    for (i, s) in scalars.iter().enumerate() {
        add_field(&mut inner, "T", &format!("f{i}"), s);
    }
    match inner.validate() {
        Ok(v) => {
            out.push_str(&render_schema(&v));
            // and once more: idempotent, same order
            match v.into_inner().validate() {
                Ok(v2) => out.push_str(&format!("AGAIN {}\n", types_order(&v2))),
                Err(e) => out.push_str(&format!("AGAIN-ERR {}\n", e.errors)),
            }
        }
        Err(e) => out.push_str(&format!("ERR {}\n", e.errors)),
    }
    out
}

const SCHEMA_RICH: &str = r#"
"The schema" schema { query: Query mutation: Mut subscription: Sub }
directive @d(a: Int = 1, b: [String!], c: In) repeatable on OBJECT | FIELD_DEFINITION | INTERFACE | ENUM | SCALAR | UNION | INPUT_OBJECT | ARGUMENT_DEFINITION | ENUM_VALUE | INPUT_FIELD_DEFINITION | FIELD | QUERY
directive @e on FIELD | FRAGMENT_SPREAD | INLINE_FRAGMENT | VARIABLE_DEFINITION
interface Node { id: ID! }
interface Named implements Node { id: ID! name(upper: Boolean = false): String }
type A implements Node & Named @d(a: 2) { id: ID! name(upper: Boolean = false): String a: Float other: B u: U }
type B implements Node & Named { id: ID! name(upper: Boolean = false): String b: [Int!]! e: E }
type C implements Node { id: ID! c: S }
type D implements Node { id: ID! d(i: In = {x: 1, y: [2, 3]}): Int @deprecated(reason: "no") }
union U @d = A | B | C | D
enum E { X Y @deprecated Z }
scalar S @specifiedBy(url: "https://example.com/s")
input In { x: Int! = 3 y: [Int] z: In2 }
input In2 { k: E = X }
type Query { node(id: ID!): Node named: [Named] u: [U!] e(v: E = Y): E s(in: In): S }
type Mut { set(x: Int): Int }
type Sub { tick: Int }
"#;

/// apollo-smith's `with_document` supports object, interface and enum field types only.
const SCHEMA_SMITH: &str = r#"
schema { query: Query mutation: Mut }
interface Node { id: ID! }
type A implements Node { id: ID! a(x: Int = 1, e: E): Float other: B }
type B implements Node { id: ID! b: [Int!]! e: E node: Node }
enum E { X Y Z }
input In { x: Int! = 3 y: [Int] }
type Query { node(id: ID!): Node a(i: In): A bs: [B] e(v: E = Y): E }
type Mut { set(x: Int): Int }
"#;

fn w3_rich_schema() -> String {
    match Schema::parse_and_validate(SCHEMA_RICH, "rich.graphql") {
        Ok(v) => render_schema(&v),
        Err(e) => format!("ERR {}", e.errors),
    }
}

fn diag_render(errors: &apollo_compiler::validation::DiagnosticList) -> String {
    let mut out = String::new();
    out.push_str(&format!("DISPLAY\n{errors}\n"));
    for d in errors.iter() {
        out.push_str(&format!(
            "JSON {}\n",
            serde_json::to_string(&d.to_json()).unwrap()
        ));
    }
    out
}

/// w2: executable documents with many independent problems (unused variables, unused and
/// undefined fragments, duplicate names, conflicting fields, wrong arguments).
fn w2_exec_diagnostics() -> String {
    let schema = Schema::parse_and_validate(SCHEMA_RICH, "rich.graphql").expect("rich schema");
    let docs = [
        "query Q($a: Int, $b: Int, $c: Int, $d: String, $e: [Int]) { named { id } }\n\
         fragment F1 on A { id } fragment F2 on B { id } fragment F3 on C { id } fragment F4 on D { id }",
        "query Q { named { id ...U1 ...U2 ...U3 } node(id: 1) { ... on A { x: a } ... on B { x: b } ... on C { x: c } ... on D { x: d } } }",
        "query Q($v: Int) { e(v: $u1) s(in: {x: $u2, y: [$u3], q: 1, r: 2}) node(id: $v, zz: 1, yy: 2) { id @nope @nada @d(q: 1, r: 2) } }",
        "query A { named { id } } query A { named { id } } query B { u { __typename } } query B { u { __typename } }\n\
         fragment X on A { id } fragment X on B { id } fragment Y on Nope { id } fragment Z on Nada { id }",
        "subscription S { tick t2: tick t3: tick } mutation M { set(x: \"s\") set2: set(x: 1.5) nope }",
    ];
    let mut out = String::new();
    for (i, d) in docs.iter().enumerate() {
        match ExecutableDocument::parse_and_validate(&schema, *d, format!("d{i}.graphql")) {
            Ok(doc) => out.push_str(&format!("VALID {i}\n{doc}\n")),
            Err(e) => {
                out.push_str(&format!("INVALID {i}\n{}", diag_render(&e.errors)));
                out.push_str(&format!("PARTIAL\n{}\n", e.partial));
            }
        }
        // standalone validation of the same text
        let ast = apollo_compiler::ast::Document::parse(*d, format!("a{i}.graphql"));
        match ast {
            Ok(a) => match a.validate_standalone_executable() {
                Ok(()) => out.push_str("STANDALONE ok\n"),
                Err(e) => out.push_str(&format!("STANDALONE\n{}", diag_render(&e))),
            },
            Err(e) => out.push_str(&format!("AST-ERR {}\n", e.errors)),
        }
    }
    out
}

/// w4: schemas with many independent errors.
fn w4_schema_diagnostics() -> String {
    let schemas = [
        "type Query { a: Nope b: Nada c: Nix d(x: Nul, y: Nil): Int } type A { x: Int } type A { y: Int } type B { x: Int } type B { y: Int }\n\
         enum E { A A B B } input I { a: I! b: Int b: Int } union U = Query | Nope | Nada | E interface N { id: ID } type T implements N & M & O { z: Int }",
        "directive @a on OBJECT directive @a on OBJECT directive @b on OBJECT directive @b on OBJECT\n\
         type Query @a @a @b @b @c @d { __x: Int __y: Int f(__a: Int, __b: Int): Int } extend type Nope { a: Int } extend type Nada { a: Int } extend enum Query { A }\n\
         schema { query: Query } schema { query: Query } extend schema { query: Query mutation: Nope subscription: Nada }",
        "input A { b: B! } input B { c: C! } input C { a: A! d: D! } input D { d: D! } type Query { f(a: A, b: B, c: C, d: D): Int }\n\
         interface I1 implements I2 { x: Int } interface I2 implements I3 { x: Int } interface I3 implements I1 { x: Int }",
    ];
    let mut out = String::new();
    for (i, s) in schemas.iter().enumerate() {
        match Schema::parse_and_validate(*s, format!("s{i}.graphql")) {
            Ok(v) => out.push_str(&format!("VALID {i}\n{}", render_schema(&v))),
            Err(e) => {
                out.push_str(&format!("INVALID {i}\n{}", diag_render(&e.errors)));
                out.push_str(&format!("PARTIAL {}\n{}\n", types_order(&e.partial), e.partial));
            }
        }
    }
    out
}

/// w6: a valid document exercising field merging (hash-consed caches), fragments, variables;
/// serialized in three configurations, plus iterators.
fn w6_valid_exec() -> String {
    let schema = Schema::parse_and_validate(SCHEMA_RICH, "rich.graphql").expect("rich schema");
    let text = "query Q($id: ID!, $up: Boolean = true, $v: E) @d { node(id: $id) { id ...FA ...FB ... on C { c } ... on D { d(i: {x: 2}) } } \
                named { id name(upper: $up) ... on A { a other { b e } } ... on B { b e } } e(v: $v) u { __typename ...FA ...FB } }\n\
                fragment FA on A { id name(upper: $up) a u { ... on A { a } ... on B { b } } } fragment FB on B { id name(upper: $up) b e }";
    let mut out = String::new();
    match ExecutableDocument::parse_and_validate(&schema, text, "v.graphql") {
        Ok(doc) => {
            out.push_str(&format!("{doc}\n"));
            out.push_str(&format!("{}\n", doc.serialize().no_indent()));
            for op in doc.operations.iter() {
                let roots: Vec<String> = op
                    .root_fields(&doc)
                    .map(|f| f.response_key().to_string())
                    .collect();
                let all: Vec<String> = op
                    .all_fields(&doc)
                    .map(|f| f.response_key().to_string())
                    .collect();
                out.push_str(&format!("ROOT {roots:?}\nALL {all:?}\n"));
            }
            let names: Vec<&str> = doc.fragments.keys().map(|k| k.as_str()).collect();
            out.push_str(&format!("FRAGMENTS {names:?}\n"));
        }
        Err(e) => out.push_str(&format!("UNEXPECTED-INVALID\n{}", diag_render(&e.errors))),
    }
    // mixed document through parse_mixed_validate
    let mixed = format!("{SCHEMA_RICH}\n{text}");
    match apollo_compiler::parser::Parser::new().parse_mixed_validate(&mixed, "m.graphql") {
        Ok((s, d)) => out.push_str(&format!("MIXED {}\n{}\n{}\n", types_order(&s), s, d)),
        Err(e) => out.push_str(&format!("MIXED-ERR\n{}", diag_render(&e))),
    }
    out
}

/// w7: multi-file build (file ids differ between runs; they must not leak into any output).
fn w7_multi_source() -> String {
    let mut b = Schema::builder();
    for (i, part) in [
        "type Query { a: A b: B }",
        "type A { x: Int y: Nope }",
        "extend type A { z: Float z2: Nada }",
        "type B { s: String } extend type B @nodir { t: ID }",
        "extend type Missing { q: Int } extend type Missing2 { q: Int }",
    ]
    .iter()
    .enumerate()
    {
        b = b.parse(*part, format!("p{i}.graphql"));
    }
    match b.build() {
        Ok(s) => match s.validate() {
            Ok(v) => format!("VALID\n{}", render_schema(&v)),
            Err(e) => format!("INVALID\n{}PARTIAL {}\n", diag_render(&e.errors), types_order(&e.partial)),
        },
        Err(e) => {
            let mut out = format!("BUILD-ERR\n{}PARTIAL {}\n", diag_render(&e.errors), types_order(&e.partial));
            if let Err(e2) = e.partial.validate() {
                out.push_str(&format!("THEN-VALIDATE\n{}", diag_render(&e2.errors)));
            }
            out
        }
    }
}

/// w8: `adopt_orphan_extensions()`: extensions of types that are never defined become
/// definitions at build time, in the order of an internal queue.
fn w8_adopt_orphans() -> String {
    let mut b = Schema::builder().adopt_orphan_extensions();
    for (i, part) in [
        "type Query { a: Int }",
        "extend type Zeta { z: Int } extend type Alpha { a: Int } extend enum Mid { M }",
        "extend input Inp { i: Int } extend type Beta @nodir { b: Int } extend interface Ifc { i: Int }",
        "type Alpha2 { x: Int } extend union Uni = Alpha2 extend scalar Sc @specifiedBy(url: \"u\")",
    ]
    .iter()
    .enumerate()
    {
        b = b.parse(*part, format!("o{i}.graphql"));
    }
    match b.build() {
        Ok(s) => format!("BUILT {}\n{}\n", types_order(&s), s),
        Err(e) => format!("BUILD-ERR\n{}PARTIAL {}\n{}\n", diag_render(&e.errors), types_order(&e.partial), e.partial),
    }
}

/// w9: several diagnostics at one location (field merging across type conditions of an abstract
/// parent, repeated for three and four object types), where only labels and notes differ.
fn w9_same_location_diagnostics() -> String {
    let schema = Schema::parse_and_validate(
        "interface Pet { name: String } type Cat implements Pet { name: String catName: String } \
         type Dog implements Pet { name: String dogName: String } type Owl implements Pet { name: String owlName: String } \
         type Eel implements Pet { name: String eelName: String } type Query { pet: Pet pets: [Pet] }",
        "pets.graphql",
    )
    .expect("pets schema");
    let docs = [
        "{ pet { ... on Cat { name: catName } ... on Dog { name: dogName } name } }",
        "{ pet { name ... on Cat { name: catName } ... on Dog { name: dogName } ... on Owl { name: owlName } } }",
        "{ pets { ... on Eel { n: eelName } ... on Cat { n: catName } ... on Dog { n: dogName } ... on Owl { n: owlName } n: name } \
           pet { ... on Cat { x: catName } ... on Dog { x: dogName } x: name } }",
    ];
    let mut out = String::new();
    for (i, d) in docs.iter().enumerate() {
        match ExecutableDocument::parse_and_validate(&schema, *d, format!("p{i}.graphql")) {
            Ok(doc) => out.push_str(&format!("VALID {i}\n{doc}\n")),
            Err(e) => out.push_str(&format!("INVALID {i}\n{}", diag_render(&e.errors))),
        }
    }
    out
}

/// w10: sizes above the small-collection thresholds (std's sort switches algorithm above 20
/// elements, apollo's argument lookup switches to a hash map above 20 arguments): many diagnostics
/// with several at the same offset, and field merging over a field with 24 arguments.
fn w10_above_thresholds() -> String {
    let n = 24;
    let args_def: String = (0..n).map(|i| format!("a{i}: Int")).collect::<Vec<_>>().join(", ");
    let schema_text = format!("type Query {{ f({args_def}): Int g: Int }}");
    let schema = Schema::parse_and_validate(schema_text.as_str(), "wide.graphql").expect("wide schema");
    // every variable is unused AND of an undefined type (two diagnostics per variable definition)
    let vars: String = (0..n).map(|i| format!("$v{i}: Nope{i}")).collect::<Vec<_>>().join(", ");
    let all1: String = (0..n).map(|i| format!("a{i}: 1")).collect::<Vec<_>>().join(", ");
    let all2: String = (0..n).map(|i| format!("a{i}: {}", if i % 3 == 0 { 1 } else { 2 })).collect::<Vec<_>>().join(", ");
    let docs = [
        format!("query Q({vars}) {{ g }}"),
        format!("{{ f({all1}) f({all2}) }}"),
        format!("query Q({vars}) {{ x: f({all1}) x: f({all2}) y: f({all2}) y: f({all1}) nope1 nope2 nope3 }}"),
    ];
    let mut out = String::new();
    for (i, d) in docs.iter().enumerate() {
        match ExecutableDocument::parse_and_validate(&schema, d.as_str(), format!("t{i}.graphql")) {
            Ok(doc) => out.push_str(&format!("VALID {i}\n{doc}\n")),
            Err(e) => out.push_str(&format!("INVALID {i} ({} diagnostics)\n{}", e.errors.len(), diag_render(&e.errors))),
        }
    }
    out
}

/// w5: apollo-smith, bytes → document text (uses std HashMap internally: covered by the
/// cross-process part; here it rides along).
fn w5_smith() -> String {
    use apollo_smith::DocumentBuilder;
    use arbitrary::Unstructured;
    let mut out = String::new();
    let mut inputs: Vec<Vec<u8>> = Vec::new();
    for b in [0u8, 1, 2, 7, 0x7f, 0xff] {
        inputs.push(vec![b]);
        inputs.push(vec![b; 64]);
        for c in [0u8, 3, 0x55, 0xfe] {
            inputs.push([b, c].repeat(48));
            inputs.push([c, b, 9, 200].repeat(64));
        }
    }
    for (i, bytes) in inputs.iter().enumerate() {
        let mut u = Unstructured::new(bytes);
        match DocumentBuilder::new(&mut u).build() {
            Ok(doc) => out.push_str(&format!("SMITH {i}\n{}\n", String::from(doc))),
            Err(e) => out.push_str(&format!("SMITH {i} ERR {e}\n")),
        }
    }
    // operations against a parsed schema
    let parsed = apollo_parser::Parser::new(SCHEMA_SMITH).parse();
    for (i, bytes) in inputs.iter().enumerate() {
        let mut u = Unstructured::new(bytes);
        let Ok(document) = apollo_smith::Document::try_from(parsed.document()) else {
            out.push_str("SMITH-DOC conversion failed\n");
            break;
        };
        match DocumentBuilder::with_document(&mut u, document) {
            Ok(mut b) => match b.operation_definition() {
                Ok(Some(op)) => out.push_str(&format!("SMITH-OP {i}\n{}\n", String::from(op))),
                Ok(None) => out.push_str(&format!("SMITH-OP {i} none\n")),
                Err(e) => out.push_str(&format!("SMITH-OP {i} ERR {e}\n")),
            },
            Err(e) => out.push_str(&format!("SMITH-OP {i} ERR {e}\n")),
        }
    }
    out
}

type Workload = (&'static str, Box<dyn Fn() -> String + Sync + Send>);

fn workloads() -> Vec<Workload> {
    let mut w: Vec<Workload> = Vec::new();
    let scalars = ["Int", "Float", "String", "Boolean", "ID"];
    // every ordered selection of 2 and 3 distinct built-in scalars, and all five
    for a in 0..5 {
        for b in 0..5 {
            if a == b {
                continue;
            }
            let (sa, sb) = (scalars[a], scalars[b]);
            w.push(("w1-readd-2", Box::new(move || w1_readd(&[sa, sb]))));
        }
    }
    for perm in vcore::enumerate::permutations(3) {
        let pick = [scalars[perm[0]], scalars[perm[1] + 0], scalars[perm[2]]];
        w.push(("w1-readd-3", Box::new(move || w1_readd(&pick))));
    }
    w.push(("w1-readd-5", Box::new(move || w1_readd(&["ID", "[Boolean!]", "String!", "[[Float]]", "Int"]))));
    w.push(("w2-exec-diagnostics", Box::new(w2_exec_diagnostics)));
    w.push(("w3-rich-schema", Box::new(w3_rich_schema)));
    w.push(("w4-schema-diagnostics", Box::new(w4_schema_diagnostics)));
    w.push(("w5-smith", Box::new(w5_smith)));
    w.push(("w6-valid-exec", Box::new(w6_valid_exec)));
    w.push(("w7-multi-source", Box::new(w7_multi_source)));
    w.push(("w8-adopt-orphan-extensions", Box::new(w8_adopt_orphans)));
    w.push(("w9-same-location-diagnostics", Box::new(w9_same_location_diagnostics)));
    w.push(("w10-above-collection-thresholds", Box::new(w10_above_thresholds)));
    w
}

// ---------------------------------------------------------------------------------------------
// Sweeps: the schema space of C14 and the (schema, document) space of C17 as workloads. Every
// case is validated under each schedule of a short list and everything observable is compared.
// ---------------------------------------------------------------------------------------------

fn sweep_schedules(n: usize) -> Vec<Schedule> {
    let mut v = vec![Schedule { base: 0, stride: 0 }];
    for i in 1..n {
        v.push(if i % 2 == 1 {
            Schedule { base: i * 7919, stride: 0x9E37_79B9 }
        } else {
            Schedule { base: i, stride: 0 }
        });
    }
    v
}

fn observe_schema(text: &str) -> String {
    match Schema::parse_and_validate(text, "s.graphql") {
        Ok(v) => format!("VALID {}\n{}", types_order(&v), v),
        Err(e) => format!("INVALID\n{}PARTIAL {}\n{}", diag_render(&e.errors), types_order(&e.partial), e.partial),
    }
}

fn observe_exec(schema: &Valid<Schema>, text: &str) -> String {
    match ExecutableDocument::parse_and_validate(schema, text, "q.graphql") {
        Ok(doc) => format!("VALID\n{doc}"),
        Err(e) => format!("INVALID\n{}PARTIAL\n{}", diag_render(&e.errors), e.partial),
    }
}

/// Runs `obs` under every schedule; reports a difference from the first schedule's output.
fn under_schedules(scheds: &[Schedule], case: &dyn Fn(Schedule) -> Value, sig: &str, size: u64, obs: &dyn Fn() -> String, st: &mut Stats) {
    st.states += 1;
    set_schedule(scheds[0]);
    let reference = match vcore::catch(obs) {
        Ok(r) => r,
        Err(p) => {
            st.fail_simple(&format!("panic:{sig}"), case(scheds[0]), format!("panicked: {p}"), size);
            return;
        }
    };
    st.transitions += 1;
    if reference.starts_with("INVALID") {
        st.nontrivial += 1;
    }
    for s in &scheds[1..] {
        set_schedule(*s);
        st.transitions += 1;
        let out = vcore::catch(obs).unwrap_or_else(|p| format!("PANIC {p}"));
        if out != reference {
            st.fail_simple(
                &format!("output-depends-on-hash-seed:{sig}"),
                case(*s),
                format!("output under seed schedule base={} stride={} differs from schedule 0: {}", s.base, s.stride, first_diff(&reference, &out)),
                size,
            );
            st.outcome(&format!("{sig}: seed-dependent"));
            set_schedule(scheds[0]);
            return;
        }
    }
    set_schedule(scheds[0]);
    st.outcome(&format!("{sig}: identical under all schedules ({})", if reference.starts_with("INVALID") { "diagnostics" } else { "valid" }));
}

fn run_sweeps(tier: vcore::Tier, st_out: &mut Stats) -> Value {
    let scheds = sweep_schedules(tier.pick(5, 9));
    // schema space (C14's): all tiers use the quick space, the thorough tier its k = 2 space too
    // (the k = 2 schema space is not used here: 9 schedules x that space takes over an hour)
    let (st, sb) = checks::schemas::sweep(vcore::Tier::Quick, |c, st| {
        let text = c.text.to_string();
        under_schedules(
            &scheds,
            &|s| json!({"part": "schema-sweep", "text": text, "schedule": {"base": s.base, "stride": s.stride}}),
            "schema-sweep",
            text.len() as u64,
            &|| observe_schema(&text),
            st,
        );
    });
    let cur = std::mem::take(st_out);
    *st_out = cur.merge(st);
    // executable space (C17's): bases and mutants; the tiny scope in the thorough tier only
    let envs = checks::execdocs::schema_envs();
    let tiny_scheds = sweep_schedules(3);
    let thorough = tier == vcore::Tier::Thorough;
    let (st, info) = checks::execdocs::sweep(&envs, vcore::Tier::Quick, &|c, st| {
        let tiny = c.family == "tiny";
        if tiny && !thorough {
            return;
        }
        let text = c.text.to_string();
        let env_name = c.env.name.clone();
        under_schedules(
            if tiny { &tiny_scheds } else { &scheds },
            &|s| json!({"part": "exec-sweep", "schema": env_name, "text": text, "schedule": {"base": s.base, "stride": s.stride}}),
            "exec-sweep",
            text.len() as u64,
            &|| observe_exec(&c.env.apollo, &text),
            st,
        );
    });
    let cur = std::mem::take(st_out);
    *st_out = cur.merge(st);
    json!({"schedules": scheds.len(), "schema_space": sb, "executable_space": checks::execdocs::bounds_json(&info),
           "executable_tiny_scope": if thorough { "included, 3 schedules" } else { "not included in the quick tier" }})
}

fn run_workload(f: &(dyn Fn() -> String + Sync + Send)) -> String {
    match vcore::catch(f) {
        Ok(s) => s,
        Err(p) => format!("PANIC {p}"),
    }
}

fn fnv(s: &str) -> u64 {
    let mut h = 0xcbf29ce484222325u64;
    for b in s.bytes() {
        h ^= b as u64;
        h = h.wrapping_mul(0x100000001b3);
    }
    h
}

fn first_diff(a: &str, b: &str) -> String {
    let la: Vec<&str> = a.lines().collect();
    let lb: Vec<&str> = b.lines().collect();
    for i in 0..la.len().max(lb.len()) {
        let (x, y) = (la.get(i).copied().unwrap_or("<eof>"), lb.get(i).copied().unwrap_or("<eof>"));
        if x != y {
            return format!("line {}: {:?} vs {:?}", i + 1, vcore::short(x), vcore::short(y));
        }
    }
    "no line differs (length?)".into()
}

/// Self-test of the seam: over the schedules used, which iteration orders of a probe set of
/// `k` names (built with apollo's own `collections::HashSet`) are witnessed?
fn probe_orders(schedules: &[Schedule], k: usize) -> usize {
    let names = ["Int", "Float", "String", "Boolean", "ID"];
    let mut seen = BTreeSet::new();
    for s in schedules {
        set_schedule(*s);
        let mut set: ApolloHashSet<Name> = ApolloHashSet::default();
        for n in &names[..k] {
            set.insert(Name::new(n).unwrap());
        }
        let order: Vec<String> = set.iter().map(|n| n.to_string()).collect();
        seen.insert(order);
    }
    seen.len()
}

fn schedules(tier: vcore::Tier) -> Vec<Schedule> {
    let n = tier.pick(48usize, 512usize);
    let mut v = Vec::new();
    for base in 0..n {
        v.push(Schedule { base, stride: 0 });
    }
    // per-instance varying seeds (what ahash does naturally)
    for base in 0..n / 2 {
        v.push(Schedule { base: base * 7919, stride: 0x9E37_79B9 });
    }
    v
}

fn replay_sweep_case(case: &Value, st: &mut Stats) {
    let text = case["text"].as_str().unwrap_or("").to_string();
    let scheds = sweep_schedules(9);
    let c2 = case.clone();
    match case["part"].as_str() {
        Some("schema-sweep") => under_schedules(&scheds, &|_| c2.clone(), "schema-sweep", text.len() as u64, &|| observe_schema(&text), st),
        Some("exec-sweep") => {
            let envs = checks::execdocs::schema_envs();
            let Some(env) = envs.iter().find(|e| Some(e.name.as_str()) == case["schema"].as_str()) else {
                vcore::machinery_error("replay: unknown schema environment")
            };
            under_schedules(&scheds, &|_| c2.clone(), "exec-sweep", text.len() as u64, &|| observe_exec(&env.apollo, &text), st)
        }
        _ => vcore::machinery_error("replay: unknown part"),
    }
}

fn child_main() -> ! {
    // natural seeds: the seam is NOT installed
    let ws = workloads();
    for (i, (name, f)) in ws.iter().enumerate() {
        let out = run_workload(f.as_ref());
        println!("DIGEST {i} {name} {:016x} {}", fnv(&out), out.len());
    }
    // the sweep spaces under this process's natural seeds: one digest per case, folded in order
    let digest = std::sync::Mutex::new(std::collections::BTreeMap::<String, u64>::new());
    let _ = checks::schemas::sweep(vcore::Tier::Quick, |c, _st| {
        let out = vcore::catch(|| observe_schema(c.text)).unwrap_or_else(|p| format!("PANIC {p}"));
        digest.lock().unwrap().insert(format!("s:{}", c.text), fnv(&out));
    });
    let envs = checks::execdocs::schema_envs();
    let _ = checks::execdocs::sweep(&envs, vcore::Tier::Quick, &|c, _st| {
        if c.family == "tiny" {
            return;
        }
        let out = vcore::catch(|| observe_exec(&c.env.apollo, c.text)).unwrap_or_else(|p| format!("PANIC {p}"));
        digest.lock().unwrap().insert(format!("e:{}:{}", c.env.name, c.text), fnv(&out));
    });
    let d = digest.into_inner().unwrap();
    let mut h = 0xcbf29ce484222325u64;
    for (k, v) in &d {
        h = (h ^ fnv(k) ^ v.rotate_left(17)).wrapping_mul(0x100000001b3);
    }
    println!("DIGEST {} sweep-spaces {:016x} {}", ws.len(), h, d.len());
    std::process::exit(0)
}

fn main() {
    if std::env::args().any(|a| a == "--child-natural") {
        child_main();
    }
    // Install the seam before any ahash RandomState exists.
    if ahash::random_state::set_random_source(Seam).is_err() {
        vcore::machinery_error("could not install the ahash RandomSource seam (a RandomState already exists)");
    }
    let mut chk = Check::new("C22");
    vcore::quiet_panics();
    let tier = chk.tier();
    let ws = workloads();
    let scheds = schedules(tier);

    if let Some(c) = chk.replay_case() {
        if c.get("part").is_some() {
            let mut st = Stats::default();
            replay_sweep_case(&c, &mut st);
            chk.absorb(st);
            chk.finish_replay();
        }
    }
    let replay_filter: Option<String> = chk
        .replay_case()
        .map(|c| c["workload_index"].as_u64().unwrap_or(0).to_string());

    // self-test
    let mut probe = BTreeMap::new();
    let mut seam_ok = true;
    for k in 2..=4usize {
        let got = probe_orders(&scheds, k);
        let want: usize = (1..=k).product();
        probe.insert(format!("k{k}"), json!({"orders_witnessed": got, "of": want}));
        // k = 4 needs ~100 schedules for all 24 orders; demand completeness for k <= 3 in quick
        if got < want && (k <= 3 || tier == vcore::Tier::Thorough) {
            seam_ok = false;
        }
    }

    let mut st = Stats::default();
    let mut run_one = |wi: usize, st: &mut Stats| -> bool {
        let (name, f) = &ws[wi];
        set_schedule(scheds[0]);
        let reference = run_workload(f.as_ref());
        st.states += 1;
        st.transitions += 1;
        let mut distinct = BTreeSet::new();
        distinct.insert(fnv(&reference));
        let mut failed = false;
        if reference.starts_with("PANIC") {
            st.fail_simple(
                &format!("panic:{name}"),
                json!({"workload": name, "workload_index": wi}),
                format!("workload panicked: {}", vcore::short(&reference)),
                wi as u64,
            );
            return true;
        }
        for s in &scheds[1..] {
            set_schedule(*s);
            let out = run_workload(f.as_ref());
            st.states += 1;
            st.transitions += 1;
            distinct.insert(fnv(&out));
            if out != reference && !failed {
                failed = true;
                st.fail_simple(
                    &format!("output-depends-on-hash-seed:{name}"),
                    json!({"workload": name, "workload_index": wi, "schedule": {"base": s.base, "stride": s.stride}}),
                    format!(
                        "output under seed schedule base={} stride={} differs from schedule 0: {}",
                        s.base,
                        s.stride,
                        first_diff(&reference, &out)
                    ),
                    wi as u64,
                );
            }
        }
        if reference.contains("INVALID") || reference.contains("ERR") {
            st.nontrivial += 1;
        }
        st.outcome(if failed { "seed-dependent" } else { "identical-under-all-schedules" });
        if wi % 7 == 0 || ws.len() - wi <= 6 {
            st.sample(json!({"workload": name, "output_bytes": reference.len(), "output_head": vcore::short(&reference)}));
        }
        failed
    };

    if let Some(wi) = replay_filter {
        let wi: usize = wi.parse().unwrap_or(0);
        run_one(wi.min(ws.len() - 1), &mut st);
        chk.absorb(st);
        chk.finish_replay();
    }

    for wi in 0..ws.len() {
        run_one(wi, &mut st);
    }
    let sweep_bounds = run_sweeps(tier, &mut st);

    // cross-process part: natural seeds
    let k = tier.pick(4usize, 16usize);
    let exe = std::env::current_exe().unwrap();
    let mut digests: Vec<Vec<String>> = Vec::new();
    let children: Vec<_> = (0..k)
        .map(|_| {
            std::process::Command::new(&exe)
                .arg("--child-natural")
                .stdout(std::process::Stdio::piped())
                .stderr(std::process::Stdio::null())
                .spawn()
        })
        .collect();
    for c in children {
        match c.and_then(|c| c.wait_with_output()) {
            Ok(o) if o.status.success() => {
                let text = String::from_utf8_lossy(&o.stdout).to_string();
                digests.push(text.lines().filter(|l| l.starts_with("DIGEST")).map(|l| l.to_string()).collect());
            }
            other => vcore::machinery_error(&format!("child process failed: {other:?}")),
        }
    }
    for (ci, d) in digests.iter().enumerate().skip(1) {
        st.states += 1;
        st.transitions += ws.len() as u64;
        if d.len() != digests[0].len() {
            vcore::machinery_error("child processes ran different workload lists");
        }
        for (line_a, line_b) in digests[0].iter().zip(d.iter()) {
            if line_a != line_b {
                let wi: usize = line_a.split(' ').nth(1).and_then(|x| x.parse().ok()).unwrap_or(0);
                let wname = ws.get(wi).map(|w| w.0).unwrap_or("sweep-spaces");
                st.fail_simple(
                    &format!("output-differs-between-processes:{wname}"),
                    json!({"workload": wname, "workload_index": wi, "processes": [0, ci]}),
                    format!("two fresh processes with natural hash seeds produced different output: {line_a} vs {line_b}"),
                    wi as u64,
                );
            }
        }
    }
    st.outcome("cross-process-compared");
    st.count("child_processes", k as u64);
    st.count("seed_schedules", scheds.len() as u64);
    st.count("workloads", ws.len() as u64);
    chk.absorb(st);
    chk.exhaustive = seam_ok;
    if !seam_ok {
        chk.note("seam self-test incomplete: not every iteration order of the probe sets was witnessed under the schedules used");
    }
    chk.bounds = json!({
        "seed_schedules": scheds.len(),
        "schedule_family": "constant seeds 0..N and per-instance seeds base+i*0x9E3779B9",
        "workloads": ws.iter().map(|w| w.0).collect::<Vec<_>>(),
        "seam_self_test": probe,
        "fresh_processes_with_natural_seeds": k,
        "sweeps": sweep_bounds,
    });
    chk.rule = "state = (workload, hash-seed schedule); every workload is run to completion under every schedule of the family and its complete observable output (type-map order, SDL, introspection JSON, diagnostics as text and JSON, smith text) compared byte-for-byte with schedule 0; plus K fresh processes with natural seeds compared by digest; non-trivial = workloads whose output contains diagnostics".into();
    chk.assumptions = vec![
        "every hash collection of apollo-compiler draws its keys from ahash::RandomState::new(), whose per-instance seed comes from the RandomSource the harness installs (checked by the seam self-test); ahash's process-wide fixed keys stay random, so which seed yields which order differs between runs while the verdict does not".into(),
        "apollo-smith's std::collections::HashMap keys are only varied by the cross-process part".into(),
    ];
    let ws2 = workloads();
    let scheds2 = scheds.clone();
    chk.finish(&move |case| {
        if case.get("part").is_some() {
            let mut st = Stats::default();
            replay_sweep_case(case, &mut st);
            return !st.failures.is_empty();
        }
        let wi = case["workload_index"].as_u64().unwrap_or(0) as usize;
        let (_, f) = &ws2[wi.min(ws2.len() - 1)];
        if case.get("processes").is_some() {
            return true; // cross-process differences are re-checked by the replay command
        }
        set_schedule(scheds2[0]);
        let reference = run_workload(f.as_ref());
        scheds2[1..].iter().any(|s| {
            set_schedule(*s);
            run_workload(f.as_ref()) != reference
        }) || reference.starts_with("PANIC")
    })
}
