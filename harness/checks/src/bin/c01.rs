//! C01 — parsing never panics, hangs or overflows the stack (DESIGN.md §6 C01, §2.4).
//!
//! E-INPUT in **child processes**: the parent cuts every space into fixed units and re-executes
//! this binary with `--child <space> <lo> <hi>`; a child runs its cases on a thread with a 2 MiB
//! stack, each execution under `catch_unwind`; the parent has a wall-clock watchdog and notices
//! children killed by SIGSEGV/SIGABRT (stack overflow aborts), bisects a dead unit to the single
//! input and then to the single (entry point, limits) execution, which becomes the replay file.
//!
//! Spaces: (a) every string over Σlex up to the bound × the three apollo-parser entry points ×
//! the (token_limit, recursion_limit) grid; (b) every token sequence over T∪{é} up to the bound ×
//! the three entry points; (c) the compiler's parse entry points on the same spaces one symbol
//! shorter; (d) the nesting family (every nesting construct, depth up to 100 000, closed /
//! truncated / wrong bracket, recursion limits 0, 1, default, and user limits above the default
//! for depth ≤ 500) and the repetition ("wide") family; (e) every single-token edit of the
//! production documents.
//! Oracle: every execution returns (no panic, no abort, no timeout).

use apollo_compiler::executable::FieldSet;
use apollo_compiler::parser::Parser as CParser;
use apollo_compiler::validation::Valid;
use apollo_compiler::{name, ExecutableDocument, Schema};
use apollo_parser::Parser;
use checks::childproc::{self, Unit};
use checks::parsing::{self, SIGMA_LEX, TX};
use refmodel::lex;
use serde_json::{json, Value};
use std::cell::RefCell;
use std::sync::OnceLock;
use std::time::Duration;
use vcore::{enumerate as en, Check, Stats, Tier};

const KF_BUILDER: &str = "C01-standalone-unbalanced-builder";

// ---------------------------------------------------------------------------------
// Entry points and configurations
// ---------------------------------------------------------------------------------

#[derive(Clone, Copy, PartialEq, Eq, Debug)]
enum Entry {
    PParse,
    PSelectionSet,
    PType,
    CDocument,
    CSchema,
    CExecutable,
    CType,
    CFieldSet,
    CMixedValidate,
}

const PARSER_ENTRIES: [Entry; 3] = [Entry::PParse, Entry::PSelectionSet, Entry::PType];
const COMPILER_ENTRIES: [Entry; 6] = [
    Entry::CDocument,
    Entry::CSchema,
    Entry::CExecutable,
    Entry::CType,
    Entry::CFieldSet,
    Entry::CMixedValidate,
];
const ALL_ENTRIES: [Entry; 9] = [
    Entry::PParse,
    Entry::PSelectionSet,
    Entry::PType,
    Entry::CDocument,
    Entry::CSchema,
    Entry::CExecutable,
    Entry::CType,
    Entry::CFieldSet,
    Entry::CMixedValidate,
];

impl Entry {
    fn label(self) -> &'static str {
        match self {
            Entry::PParse => "Parser::parse",
            Entry::PSelectionSet => "Parser::parse_selection_set",
            Entry::PType => "Parser::parse_type",
            Entry::CDocument => "ast::Document::parse",
            Entry::CSchema => "Schema::parse",
            Entry::CExecutable => "ExecutableDocument::parse",
            Entry::CType => "ast::Type::parse",
            Entry::CFieldSet => "FieldSet::parse",
            Entry::CMixedValidate => "Parser::parse_mixed_validate",
        }
    }
    fn from_label(s: &str) -> Option<Entry> {
        ALL_ENTRIES.into_iter().find(|e| e.label() == s)
    }
    fn is_standalone_type(self) -> bool {
        matches!(self, Entry::PType | Entry::CType)
    }
    fn is_standalone_selection_set(self) -> bool {
        matches!(self, Entry::PSelectionSet | Entry::CFieldSet)
    }
}

#[derive(Clone, Copy, PartialEq, Eq, Debug)]
struct Cfg {
    token_limit: Option<usize>,
    recursion_limit: Option<usize>,
}

const DEFAULT_CFG: Cfg = Cfg { token_limit: None, recursion_limit: None };

fn fixture_schema() -> &'static Valid<Schema> {
    static S: OnceLock<Valid<Schema>> = OnceLock::new();
    S.get_or_init(|| {
        Schema::parse_and_validate(
            "type Query { a(a: Int, x: I): Query e: Int n: [Query] u: U f: Query }\n\
             union U = Query\ninput I { k: I a: Int }\n\
             directive @a(a: Int, x: I) repeatable on FIELD | FRAGMENT_SPREAD | INLINE_FRAGMENT | QUERY",
            "c01-schema.graphql",
        )
        .unwrap_or_else(|e| vcore::machinery_error(&format!("C01 fixture schema invalid: {}", e.errors)))
    })
}

/// What one execution did when it returned.
#[derive(Clone, Copy, PartialEq, Eq, Debug)]
enum Returned {
    Clean,
    WithErrors,
    WithLimitError,
}

fn run_entry(entry: Entry, cfg: Cfg, s: &str) -> Returned {
    fn classify<'a>(mut errs: impl Iterator<Item = &'a apollo_parser::Error>) -> Returned {
        let mut any = false;
        let mut limit = false;
        for e in &mut errs {
            any = true;
            limit |= e.is_limit();
        }
        match (any, limit) {
            (_, true) => Returned::WithLimitError,
            (true, false) => Returned::WithErrors,
            _ => Returned::Clean,
        }
    }
    let pp = || {
        let mut p = Parser::new(s);
        if let Some(n) = cfg.token_limit {
            p = p.token_limit(n);
        }
        if let Some(r) = cfg.recursion_limit {
            p = p.recursion_limit(r);
        }
        p
    };
    let cp = || {
        let mut p = CParser::new();
        if let Some(n) = cfg.token_limit {
            p = p.token_limit(n);
        }
        if let Some(r) = cfg.recursion_limit {
            p = p.recursion_limit(r);
        }
        p
    };
    let ok = |b: bool| if b { Returned::Clean } else { Returned::WithErrors };
    match entry {
        Entry::PParse => {
            let t = pp().parse();
            let _ = t.document();
            classify(t.errors())
        }
        Entry::PSelectionSet => {
            let t = pp().parse_selection_set();
            let _ = t.field_set();
            classify(t.errors())
        }
        Entry::PType => {
            let t = pp().parse_type();
            let _ = t.ty();
            classify(t.errors())
        }
        Entry::CDocument => {
            if cfg == DEFAULT_CFG {
                ok(apollo_compiler::ast::Document::parse(s, "d.graphql").is_ok())
            } else {
                ok(cp().parse_ast(s, "d.graphql").is_ok())
            }
        }
        Entry::CSchema => {
            if cfg == DEFAULT_CFG {
                ok(Schema::parse(s, "s.graphql").is_ok())
            } else {
                ok(cp().parse_schema(s, "s.graphql").is_ok())
            }
        }
        Entry::CExecutable => {
            if cfg == DEFAULT_CFG {
                ok(ExecutableDocument::parse(fixture_schema(), s, "e.graphql").is_ok())
            } else {
                ok(cp().parse_executable(fixture_schema(), s, "e.graphql").is_ok())
            }
        }
        Entry::CType => {
            if cfg == DEFAULT_CFG {
                ok(apollo_compiler::ast::Type::parse(s, "t.graphql").is_ok())
            } else {
                ok(cp().parse_type(s, "t.graphql").is_ok())
            }
        }
        Entry::CFieldSet => {
            if cfg == DEFAULT_CFG {
                ok(FieldSet::parse(fixture_schema(), name!("Query"), s, "f.graphql").is_ok())
            } else {
                ok(cp().parse_field_set(fixture_schema(), name!("Query"), s, "f.graphql").is_ok())
            }
        }
        Entry::CMixedValidate => ok(cp().parse_mixed_validate(s, "m.graphql").is_ok()),
    }
}

// ---------------------------------------------------------------------------------
// Panic capture (message + location)
// ---------------------------------------------------------------------------------

thread_local! {
    static LAST_PANIC: RefCell<Option<(String, String)>> = const { RefCell::new(None) };
}

fn install_hook() {
    std::panic::set_hook(Box::new(|info| {
        let msg = if let Some(s) = info.payload().downcast_ref::<&str>() {
            s.to_string()
        } else if let Some(s) = info.payload().downcast_ref::<String>() {
            s.clone()
        } else {
            "non-string panic payload".to_string()
        };
        let loc = info
            .location()
            .map(|l| format!("{}:{}", l.file(), l.line()))
            .unwrap_or_default();
        LAST_PANIC.with(|l| *l.borrow_mut() = Some((msg, loc)));
    }));
}

/// Err((message, location)) if the execution panicked.
fn guarded(entry: Entry, cfg: Cfg, s: &str) -> Result<Returned, (String, String)> {
    LAST_PANIC.with(|l| *l.borrow_mut() = None);
    match std::panic::catch_unwind(std::panic::AssertUnwindSafe(|| run_entry(entry, cfg, s))) {
        Ok(r) => Ok(r),
        Err(_) => Err(LAST_PANIC
            .with(|l| l.borrow_mut().take())
            .unwrap_or_else(|| ("panic (hook did not run)".into(), String::new()))),
    }
}

/// `…/rowan-0.16.1/src/green/builder.rs:125` → `rowan/src/green/builder.rs`
fn short_location(loc: &str) -> String {
    let file = loc.rsplit_once(':').map(|(f, _)| f).unwrap_or(loc);
    if let Some(i) = file.find("/rowan-") {
        let rest = &file[i + 1..];
        let after = rest.split_once('/').map(|(_, r)| r).unwrap_or(rest);
        return format!("rowan/{after}");
    }
    if let Some(i) = file.find("crates/") {
        return file[i..].to_string();
    }
    file.to_string()
}

/// Predictive classifier of known finding C01-standalone-unbalanced-builder (DESIGN §2.2):
/// same entry points, same panic (rowan `GreenNodeBuilder::finish`'s "exactly one root"
/// assertion), and the input has the shape the defect needs — for the type entry point: no
/// first token at all (`token_limit` 0) or the first lexical token at offset 0 is not `[` or a
/// Name (empty input, leading ignored token, any other token, a lexical error); for the
/// selection-set entry point: the input starts with a lexical error. Any other panic of these
/// entry points, and this panic on any other input shape, stays a violation.
fn is_known_builder_panic(entry: Entry, cfg: Cfg, s: &str, msg: &str, loc: &str) -> bool {
    if short_location(loc) != "rowan/src/green/builder.rs" {
        return false;
    }
    if !(msg.starts_with("assertion `left == right` failed") && msg.trim_end().ends_with("right: 1")) {
        return false;
    }
    let first = lex::munch(s, 0, lex::Params::default());
    if entry.is_standalone_type() {
        cfg.token_limit == Some(0)
            || match first {
                Some((lex::Kind::Name, _)) => false,
                Some((lex::Kind::Punct, 1)) => !s.starts_with('['),
                _ => true,
            }
    } else if entry.is_standalone_selection_set() {
        !s.is_empty() && first.is_none() && cfg.token_limit != Some(0)
    } else {
        false
    }
}

// ---------------------------------------------------------------------------------
// Inputs: literal, or generated (the deep / wide families are described, not stored)
// ---------------------------------------------------------------------------------

#[derive(Clone, Debug)]
enum Input {
    Text(String),
    Nest { construct: usize, depth: usize, shape: usize },
    Wide { construct: usize, width: usize },
}

impl Input {
    fn to_json(&self) -> Value {
        match self {
            Input::Text(s) => json!({"input": s}),
            Input::Nest { construct, depth, shape } => json!({
                "nest": {"construct": NEST[*construct].name, "depth": depth, "shape": SHAPES[*shape]}
            }),
            Input::Wide { construct, width } => json!({"wide": {"construct": WIDE[*construct].0, "width": width}}),
        }
    }
    fn from_json(v: &Value) -> Option<Input> {
        if let Some(s) = v["input"].as_str() {
            return Some(Input::Text(s.to_string()));
        }
        if let Some(n) = v.get("nest") {
            return Some(Input::Nest {
                construct: NEST.iter().position(|c| Some(c.name) == n["construct"].as_str())?,
                depth: n["depth"].as_u64()? as usize,
                shape: SHAPES.iter().position(|s| Some(*s) == n["shape"].as_str())?,
            });
        }
        if let Some(n) = v.get("wide") {
            return Some(Input::Wide {
                construct: WIDE.iter().position(|c| Some(c.0) == n["construct"].as_str())?,
                width: n["width"].as_u64()? as usize,
            });
        }
        None
    }
    fn text(&self) -> String {
        match self {
            Input::Text(s) => s.clone(),
            Input::Nest { construct, depth, shape } => NEST[*construct].render(*depth, *shape),
            Input::Wide { construct, width } => {
                let (_, pre, rep, post) = WIDE[*construct];
                format!("{pre}{}{post}", rep.repeat(*width))
            }
        }
    }
    fn size(&self) -> u64 {
        match self {
            Input::Text(s) => s.len() as u64,
            Input::Nest { depth, .. } => 1_000_000 + *depth as u64,
            Input::Wide { width, .. } => 1_000_000 + *width as u64,
        }
    }
}

/// A nesting construct: head, the opener repeated `depth` times, the innermost text, the closer
/// repeated `depth` times, tail.
struct Nest {
    name: &'static str,
    head: &'static str,
    open: &'static str,
    core: &'static str,
    close: &'static str,
    tail: &'static str,
}

const SHAPES: [&str; 3] = ["closed", "truncated", "wrong-bracket"];

impl Nest {
    fn render(&self, depth: usize, shape: usize) -> String {
        let mut s = String::with_capacity(self.head.len() + depth * (self.open.len() + self.close.len()) + 16);
        s.push_str(self.head);
        for _ in 0..depth {
            s.push_str(self.open);
        }
        s.push_str(self.core);
        match shape {
            0 => {
                for _ in 0..depth {
                    s.push_str(self.close);
                }
                s.push_str(self.tail);
            }
            1 => {}
            _ => {
                let wrong: String = self
                    .close
                    .chars()
                    .map(|c| match c {
                        '}' => ']',
                        ']' => '}',
                        c => c,
                    })
                    .collect();
                for _ in 0..depth {
                    s.push_str(&wrong);
                }
                s.push_str(self.tail);
            }
        }
        s
    }
}

const NEST: &[Nest] = &[
    Nest { name: "selection-set", head: "query { ", open: "a { ", core: "a ", close: "} ", tail: "}" },
    Nest { name: "selection-set-shorthand", head: "", open: "{ a ", core: "", close: "} ", tail: "" },
    Nest { name: "inline-fragment", head: "{ ", open: "... { ", core: "a ", close: "} ", tail: "}" },
    Nest { name: "inline-fragment-on", head: "fragment F on T { ", open: "... on T @a { ", core: "a ", close: "} ", tail: "}" },
    Nest { name: "field-set", head: "", open: "a { ", core: "a ", close: "} ", tail: "" },
    Nest { name: "list-value-argument", head: "{ a(x: ", open: "[", core: "1", close: "]", tail: ") }" },
    Nest { name: "object-value-argument", head: "{ a(x: ", open: "{k: ", core: "1", close: "}", tail: ") }" },
    Nest { name: "list-object-alternation-directive", head: "{ a @a(x: ", open: "[{k: ", core: "1", close: "}]", tail: ") }" },
    Nest { name: "list-value-variable-default", head: "query($v: T = ", open: "[", core: "1", close: "]", tail: ") { a }" },
    Nest { name: "object-value-type-directive", head: "scalar S @a(x: ", open: "{k: ", core: "1", close: "}", tail: ")" },
    Nest { name: "list-value-input-default", head: "input I { f: T = ", open: "[", core: "1", close: "]", tail: " }" },
    Nest { name: "object-list-alternation-argument-default", head: "type T { f(x: I = ", open: "{k: [", core: "1", close: "]}", tail: "): Int }" },
    Nest { name: "list-type-field", head: "type T { f: ", open: "[", core: "Int", close: "]", tail: " }" },
    Nest { name: "list-type-non-null-variable", head: "query($v: ", open: "[", core: "Int", close: "]!", tail: ") { a }" },
    Nest { name: "list-type-argument-definition", head: "type T { f(x: ", open: "[", core: "Int", close: "]", tail: "): Int }" },
    Nest { name: "standalone-list-type", head: "", open: "[", core: "Int", close: "]", tail: "" },
    Nest { name: "selection-set-with-list-argument", head: "{ ", open: "a(x: [[1]]) { ", core: "a ", close: "} ", tail: "}" },
    Nest { name: "field-set-with-object-argument", head: "", open: "a(x: {k: {k: 1}}) { ", core: "a ", close: "} ", tail: "" },
];

const DEPTHS: [usize; 9] = [1, 2, 3, 499, 500, 501, 1000, 5000, 100_000];

/// Repetition without nesting: (name, head, repeated part, tail).
const WIDE: &[(&str, &str, &str, &str)] = &[
    ("definitions", "", "directive @d on FIELD ", ""),
    ("directive-applications", "scalar Url", " @d", ""),
    ("root-operations", "schema {", " query: Q", " }"),
    ("implements", "type O implements", " & I", ""),
    ("object-fields", "type O {", " f: T", "}"),
    ("enum-values", "enum E {", " V", "}"),
    ("union-members", "union U = ", " | T", ""),
    ("input-fields", "input In {", " f: T", "}"),
    ("object-value-fields", "type O { field(arg: T = {", " f: 0", " }): Int }"),
    ("list-value-items", "type O { field(arg: T = [", " 0,", " ]): Int }"),
    ("argument-definitions", "type O { field(", "a: T ", "): Int }"),
    ("field-selections", "query {", " a", " }"),
    ("field-arguments", "query { a(", " a: 0", ") }"),
    ("variable-definitions", "query Q(", " $v: Int", " ) { a }"),
    ("field-set-selections", "", "a ", ""),
    ("lexer-errors", "{ a ", "é ", "}"),
    ("unexpected-tokens", "", ") ", ""),
    ("open-braces-without-fields", "", "{ ", ""),
];
const WIDTHS: [usize; 3] = [2, 1000, 100_000];

// ---------------------------------------------------------------------------------
// One execution, one input
// ---------------------------------------------------------------------------------

fn case_json(entry: Entry, cfg: Cfg, input: &Input) -> Value {
    let mut v = input.to_json();
    v["entry"] = json!(entry.label());
    v["token_limit"] = json!(cfg.token_limit);
    v["recursion_limit"] = json!(cfg.recursion_limit);
    v
}

fn exec(entry: Entry, cfg: Cfg, input: &Input, text: &str, kf_open: bool, st: &mut Stats) -> bool {
    st.transitions += 1;
    // development aid: VERIF_C01_PROFILE=1 adds per-entry-point milliseconds to the counters
    let t0 = std::env::var_os("VERIF_C01_PROFILE").map(|_| std::time::Instant::now());
    let r = guarded(entry, cfg, text);
    if let Some(t0) = t0 {
        st.count(&format!("profile µs {} size {}", entry.label(), if input.size() > 1_001_000 { "big" } else { "small" }), t0.elapsed().as_micros() as u64);
    }
    match r {
        Ok(r) => {
            st.outcome(&format!(
                "{}: {}",
                entry.label(),
                match r {
                    Returned::Clean => "returned, no errors",
                    Returned::WithErrors => "returned with errors",
                    Returned::WithLimitError => "returned with a limit error",
                }
            ));
            r != Returned::Clean
        }
        Err((msg, loc)) => {
            if kf_open && is_known_builder_panic(entry, cfg, text, &msg, &loc) {
                st.known(KF_BUILDER, &format!("{}({:?})", entry.label(), vcore::short(text)));
                st.outcome(&format!("{}: known-finding panic (unbalanced builder)", entry.label()));
                return true;
            }
            st.fail_simple(
                &format!("panic/{}/{}", entry.label(), short_location(&loc)),
                case_json(entry, cfg, input),
                format!(
                    "{} panicked at {}: {} (token_limit {:?}, recursion_limit {:?})",
                    entry.label(),
                    loc,
                    vcore::short(&msg),
                    cfg.token_limit,
                    cfg.recursion_limit
                ),
                input.size(),
            );
            true
        }
    }
}

// ---------------------------------------------------------------------------------
// Spaces
// ---------------------------------------------------------------------------------

fn grid_full() -> Vec<Cfg> {
    let mut v = Vec::new();
    for t in [None, Some(0), Some(1), Some(2), Some(3), Some(5)] {
        for r in [None, Some(0), Some(1), Some(2)] {
            v.push(Cfg { token_limit: t, recursion_limit: r });
        }
    }
    v
}

fn grid_reduced() -> Vec<Cfg> {
    vec![
        DEFAULT_CFG,
        Cfg { token_limit: Some(1), recursion_limit: None },
        Cfg { token_limit: Some(2), recursion_limit: Some(1) },
        Cfg { token_limit: Some(3), recursion_limit: Some(0) },
        Cfg { token_limit: Some(5), recursion_limit: Some(2) },
        Cfg { token_limit: None, recursion_limit: Some(0) },
    ]
}

/// Limit configurations for the compiler's document entry point (truncated trees reach `from_cst`).
fn grid_compiler() -> Vec<Cfg> {
    vec![
        Cfg { token_limit: Some(1), recursion_limit: None },
        Cfg { token_limit: Some(3), recursion_limit: Some(1) },
        Cfg { token_limit: None, recursion_limit: Some(0) },
    ]
}

struct Bounds {
    str_len: u32,
    /// strings of exactly this length get the reduced grid (0 = never)
    str_reduced_at: u32,
    tok_len: u32,
    cstr_len: u32,
    ctok_len: u32,
}

fn bounds_for(tier: Tier) -> Bounds {
    tier.pick(
        Bounds { str_len: 4, str_reduced_at: 0, tok_len: 3, cstr_len: 3, ctok_len: 2 },
        Bounds { str_len: 6, str_reduced_at: 6, tok_len: 4, cstr_len: 4, ctok_len: 3 },
    )
}

/// (input, configurations) of the nesting + wide family, in a fixed order.
fn family_cases(tier: Tier) -> Vec<(Input, Vec<Cfg>)> {
    let mut v = Vec::new();
    for (ci, _) in NEST.iter().enumerate() {
        for &d in &DEPTHS {
            if tier == Tier::Quick && d == 5000 {
                continue;
            }
            for shape in 0..SHAPES.len() {
                let mut cfgs = vec![
                    DEFAULT_CFG,
                    Cfg { token_limit: None, recursion_limit: Some(0) },
                    Cfg { token_limit: None, recursion_limit: Some(1) },
                ];
                if d <= 500 {
                    // user limits above the default: only where the nesting itself stays ≤ 500
                    cfgs.push(Cfg { token_limit: None, recursion_limit: Some(501) });
                    cfgs.push(Cfg { token_limit: None, recursion_limit: Some(100_000) });
                }
                if d >= 499 {
                    cfgs.push(Cfg { token_limit: Some(700), recursion_limit: None });
                }
                v.push((Input::Nest { construct: ci, depth: d, shape }, cfgs));
            }
        }
    }
    for (ci, _) in WIDE.iter().enumerate() {
        for &w in &WIDTHS {
            // second configuration: a recursion limit of 0 (for the big widths, quick tier: parser entry points only)
            v.push((Input::Wide { construct: ci, width: w }, vec![DEFAULT_CFG, Cfg { token_limit: None, recursion_limit: Some(0) }, Cfg { token_limit: Some(1500), recursion_limit: None }]));
        }
    }
    v
}

/// Which entry points a family input is *meant* for.
#[derive(Clone, Copy, PartialEq, Eq)]
enum Kind {
    Document,
    Type,
    FieldSet,
    /// error-path stress (lexer errors, unexpected tokens): every front end
    Any,
}

fn kind_of(input: &Input) -> Kind {
    let name = match input {
        Input::Nest { construct, .. } => NEST[*construct].name,
        Input::Wide { construct, .. } => WIDE[*construct].0,
        Input::Text(_) => return Kind::Any,
    };
    match name {
        "standalone-list-type" => Kind::Type,
        "field-set" | "field-set-with-object-argument" | "field-set-selections" => Kind::FieldSet,
        "lexer-errors" | "unexpected-tokens" | "open-braces-without-fields" => Kind::Any,
        _ => Kind::Document,
    }
}

/// Executions of one family input. Up to size 1000 every input goes through **every** entry
/// point with every configuration (any string is an input of any entry point). Inputs beyond
/// size 1000 are up to a megabyte of text that yields up to 10^5 errors per run; the quick tier
/// runs them through the entry points they are meant for (document constructs: `Parser::parse`,
/// `ast::Document::parse`, `Schema::parse`, `ExecutableDocument::parse`; type constructs:
/// `parse_type`, `Type::parse`; field-set constructs: `parse_selection_set`, `FieldSet::parse`;
/// error-path stress: all of these) with the default limits, and through the apollo-parser entry
/// point(s) with recursion limit 0. The thorough tier runs every configuration through every
/// entry point. `parse_mixed_validate` is never run beyond size 1000 (the cost of *validating*
/// a 100 000-element document is C21's subject).
fn family_plan(tier: Tier, input: &Input, cfgs: &[Cfg]) -> Vec<(Entry, Cfg)> {
    let big = match input {
        Input::Nest { depth, .. } => *depth > 1000,
        Input::Wide { width, .. } => *width > 1000,
        _ => false,
    };
    let kind = kind_of(input);
    let meant = |e: Entry| match kind {
        Kind::Any => true,
        Kind::Document => matches!(e, Entry::PParse | Entry::CDocument | Entry::CSchema | Entry::CExecutable),
        Kind::Type => matches!(e, Entry::PType | Entry::CType),
        Kind::FieldSet => matches!(e, Entry::PSelectionSet | Entry::CFieldSet),
    };
    let mut ex = Vec::new();
    for (n, c) in cfgs.iter().enumerate() {
        if big && tier == Tier::Quick && n >= 2 {
            continue;
        }
        for e in ALL_ENTRIES {
            if big && e == Entry::CMixedValidate {
                continue;
            }
            if big && tier == Tier::Quick {
                if !meant(e) {
                    continue;
                }
                if n == 1 && !PARSER_ENTRIES.contains(&e) {
                    continue;
                }
            }
            ex.push((e, *c));
        }
    }
    ex
}

fn edit_cases() -> Vec<String> {
    let mut v = Vec::new();
    for d in parsing::PRODUCTION_DOCS {
        let base = parsing::tokens_of(d);
        v.push(parsing::join(&base));
        v.extend(parsing::single_edits(&base, TX));
    }
    v
}

struct Spaces {
    tier: Tier,
    b: Bounds,
    family: Vec<(Input, Vec<Cfg>)>,
    edits: Vec<String>,
}

const SPACE_NAMES: [&str; 6] = ["family", "strings", "tokens", "compiler-strings", "compiler-tokens", "edits"];

impl Spaces {
    /// `only`: build the (costly to enumerate) tables of that space only — a child works on one space.
    fn new(tier: Tier, only: Option<&str>) -> Spaces {
        let want = |s: &str| only.is_none() || only == Some(s);
        Spaces {
            tier,
            b: bounds_for(tier),
            family: if want("family") { family_cases(tier) } else { Vec::new() },
            edits: if want("edits") { edit_cases() } else { Vec::new() },
        }
    }
    fn total(&self, space: &str) -> u64 {
        match space {
            "strings" => en::count_upto(SIGMA_LEX.len() as u64, self.b.str_len),
            "tokens" => en::count_upto(TX.len() as u64, self.b.tok_len),
            "compiler-strings" => en::count_upto(SIGMA_LEX.len() as u64, self.b.cstr_len),
            "compiler-tokens" => en::count_upto(TX.len() as u64, self.b.ctok_len),
            "family" => self.family.len() as u64,
            "edits" => self.edits.len() as u64,
            _ => vcore::machinery_error(&format!("unknown space {space}")),
        }
    }
    fn unit_size(&self, space: &str) -> u64 {
        match space {
            "strings" => self.tier.pick(4096, 65_536),
            "tokens" => self.tier.pick(8192, 65_536),
            "compiler-strings" => 2048,
            "compiler-tokens" => 2048,
            "family" => 3,
            "edits" => 2048,
            _ => 1024,
        }
    }
    /// The executions of one input index: (input, [(entry, cfg)]).
    fn plan(&self, space: &str, idx: u64) -> (Input, Vec<(Entry, Cfg)>) {
        let mut seq = Vec::new();
        let mut s = String::new();
        match space {
            "strings" => {
                en::nth_upto(SIGMA_LEX.len() as u64, idx, &mut seq);
                en::render(SIGMA_LEX, &seq, &mut s);
                let grid = if self.b.str_reduced_at != 0 && seq.len() as u32 >= self.b.str_reduced_at {
                    grid_reduced()
                } else {
                    grid_full()
                };
                let mut ex = Vec::new();
                for c in grid {
                    for e in PARSER_ENTRIES {
                        ex.push((e, c));
                    }
                }
                (Input::Text(s), ex)
            }
            "tokens" => {
                en::nth_upto(TX.len() as u64, idx, &mut seq);
                en::render_sep(TX, &seq, " ", &mut s);
                let mut ex = Vec::new();
                for c in [DEFAULT_CFG, Cfg { token_limit: Some(3), recursion_limit: Some(1) }] {
                    for e in PARSER_ENTRIES {
                        ex.push((e, c));
                    }
                }
                (Input::Text(s), ex)
            }
            "compiler-strings" | "compiler-tokens" => {
                if space == "compiler-strings" {
                    en::nth_upto(SIGMA_LEX.len() as u64, idx, &mut seq);
                    en::render(SIGMA_LEX, &seq, &mut s);
                } else {
                    en::nth_upto(TX.len() as u64, idx, &mut seq);
                    en::render_sep(TX, &seq, " ", &mut s);
                }
                let mut ex: Vec<(Entry, Cfg)> = COMPILER_ENTRIES.iter().map(|e| (*e, DEFAULT_CFG)).collect();
                for c in grid_compiler() {
                    ex.push((Entry::CDocument, c));
                    ex.push((Entry::CFieldSet, c));
                    ex.push((Entry::CType, c));
                }
                (Input::Text(s), ex)
            }
            "family" => {
                let (input, cfgs) = &self.family[idx as usize];
                (input.clone(), family_plan(self.tier, input, cfgs))
            }
            "edits" => {
                let s = self.edits[idx as usize].clone();
                let mut ex = Vec::new();
                for e in [Entry::PParse, Entry::CDocument, Entry::CSchema, Entry::CExecutable, Entry::CMixedValidate, Entry::PSelectionSet, Entry::PType] {
                    ex.push((e, DEFAULT_CFG));
                }
                ex.push((Entry::PParse, Cfg { token_limit: Some(6), recursion_limit: Some(1) }));
                ex.push((Entry::CDocument, Cfg { token_limit: Some(6), recursion_limit: Some(1) }));
                (Input::Text(s), ex)
            }
            _ => vcore::machinery_error(&format!("unknown space {space}")),
        }
    }
    fn run_index(&self, space: &str, idx: u64, kf_open: bool, st: &mut Stats) {
        let (input, ex) = self.plan(space, idx);
        let text = input.text();
        st.states += 1;
        let mut any_error = false;
        for (e, c) in ex {
            any_error |= exec(e, c, &input, &text, kf_open, st);
        }
        if any_error {
            st.nontrivial += 1;
        }
        let total = self.total(space);
        if idx % (total / 2 + 1) == total / 5 {
            st.sample(json!({"space": space, "index": idx, "case": input.to_json()}));
        }
    }
}

// ---------------------------------------------------------------------------------
// Single executions in a child (replay, confirmation, isolating the execution of a dead input)
// ---------------------------------------------------------------------------------

enum Single {
    Returned,
    Known,
    Panicked(String),
    Died(String),
    TimedOut,
}

fn parse_case(case: &Value) -> (Entry, Cfg, Input) {
    let entry = Entry::from_label(case["entry"].as_str().unwrap_or(""))
        .unwrap_or_else(|| vcore::machinery_error("replay case has no valid entry"));
    let cfg = Cfg {
        token_limit: case["token_limit"].as_u64().map(|n| n as usize),
        recursion_limit: case["recursion_limit"].as_u64().map(|n| n as usize),
    };
    let input = Input::from_json(case).unwrap_or_else(|| vcore::machinery_error("replay case has no input"));
    (entry, cfg, input)
}

fn run_single_in_child(case: &Value, tier: &str, timeout: Duration) -> Single {
    let exe = std::env::current_exe().expect("current_exe");
    let mut child = std::process::Command::new(exe)
        .args(["--tier", tier, "--child-case", &case.to_string()])
        .stdin(std::process::Stdio::null())
        .stdout(std::process::Stdio::piped())
        .stderr(std::process::Stdio::null())
        .spawn()
        .unwrap_or_else(|e| vcore::machinery_error(&format!("cannot spawn child: {e}")));
    let mut out = child.stdout.take().unwrap();
    let reader = std::thread::spawn(move || {
        let mut s = String::new();
        let _ = std::io::Read::read_to_string(&mut out, &mut s);
        s
    });
    let start = std::time::Instant::now();
    let status = loop {
        match child.try_wait() {
            Ok(Some(s)) => break Some(s),
            Ok(None) => {
                if start.elapsed() > timeout {
                    let _ = child.kill();
                    let _ = child.wait();
                    break None;
                }
                std::thread::sleep(Duration::from_millis(3));
            }
            Err(e) => vcore::machinery_error(&format!("wait failed: {e}")),
        }
    };
    let stdout = reader.join().unwrap_or_default();
    let Some(status) = status else { return Single::TimedOut };
    if status.success() {
        let st = stdout
            .lines()
            .last()
            .and_then(|l| serde_json::from_str::<Value>(l).ok())
            .and_then(|v| childproc::stats_from_json(&v))
            .unwrap_or_else(|| vcore::machinery_error("child-case output does not parse"));
        if let Some((_, (_, f))) = st.failures.iter().next() {
            return Single::Panicked(f.detail.clone());
        }
        if !st.known.is_empty() {
            return Single::Known;
        }
        return Single::Returned;
    }
    use std::os::unix::process::ExitStatusExt;
    Single::Died(match (status.signal(), status.code()) {
        (Some(sig), _) => format!("child killed by signal {sig} (stack overflow / abort)"),
        (_, Some(c)) => format!("child exited with status {c}"),
        _ => "child died".into(),
    })
}

fn main() {
    let mut chk = Check::new("C01");
    install_hook();
    let kf_open = chk.known.is_open(KF_BUILDER);
    let tier = chk.tier();
    let rest = chk.args.rest.clone();

    // ---- child modes
    if rest.first().map(|s| s.as_str()) == Some("--child") {
        let space = rest[1].clone();
        let lo: u64 = rest[2].parse().expect("lo");
        let hi: u64 = rest[3].parse().expect("hi");
        childproc::child_main(move |st| {
            let spaces = Spaces::new(tier, Some(&space));
            for i in lo..hi.min(spaces.total(&space)) {
                spaces.run_index(&space, i, kf_open, st);
            }
        });
    }
    if rest.first().map(|s| s.as_str()) == Some("--child-case") {
        let case: Value = serde_json::from_str(&rest[1]).expect("case json");
        childproc::child_main(move |st| {
            let (entry, cfg, input) = parse_case(&case);
            let text = input.text();
            exec(entry, cfg, &input, &text, kf_open, st);
        });
    }

    let single_timeout = Duration::from_secs(60);
    // ---- replay: run exactly that execution, in a child
    if let Some(case) = chk.replay_case() {
        let mut st = Stats::default();
        st.states = 1;
        st.transitions = 1;
        match run_single_in_child(&case, tier.name(), single_timeout) {
            Single::Returned => {}
            Single::Known => st.known(KF_BUILDER, "replayed case"),
            Single::Panicked(d) => st.fail_simple("panic", case.clone(), d, 0),
            Single::Died(d) => st.fail_simple("abort", case.clone(), d, 0),
            Single::TimedOut => st.fail_simple("timeout", case.clone(), "no result within the watchdog time".into(), 0),
        }
        chk.absorb(st);
        chk.finish_replay();
    }

    // ---- parent: all units of all spaces
    let spaces = Spaces::new(tier, None);
    let mut units: Vec<Unit> = Vec::new();
    let mut bounds = serde_json::Map::new();
    for sp in SPACE_NAMES {
        let total = spaces.total(sp);
        units.extend(childproc::units_for(sp, total, spaces.unit_size(sp)));
        bounds.insert(sp.to_string(), json!({"inputs": total}));
        println!("space {sp}: {total} inputs");
    }
    let jobs = std::thread::available_parallelism().map(|n| n.get()).unwrap_or(8).min(16);
    let unit_timeout = Duration::from_secs(tier.pick(600, 1800));
    // a sub-unit is at most half a unit; units take about a second
    let bisect_timeout = Duration::from_secs(tier.pick(40, 240));
    let result = childproc::run_units(&units, tier.name(), unit_timeout, bisect_timeout, jobs);
    chk.absorb(result.stats);
    println!("units {} (children), jobs {}", result.units, jobs);

    // every dead input: find the execution that kills
    let mut machinery: Vec<String> = result.unreproduced.clone();
    for (space, idx, what) in &result.dead_cases {
        let (input, ex) = spaces.plan(space, *idx);
        let mut found = false;
        for (e, c) in ex {
            let case = case_json(e, c, &input);
            let r = run_single_in_child(&case, tier.name(), single_timeout);
            let (sig, detail) = match r {
                Single::Died(d) => (format!("abort/{}", e.label()), d),
                Single::TimedOut => (format!("timeout/{}", e.label()), format!("no result within {} s", single_timeout.as_secs())),
                _ => continue,
            };
            found = true;
            chk.stats.fail_simple(
                &sig,
                case,
                format!("{} did not return: {detail} (token_limit {:?}, recursion_limit {:?}; unit failure: {what})", e.label(), c.token_limit, c.recursion_limit),
                input.size(),
            );
            break;
        }
        if !found {
            machinery.push(format!("input {idx} of space {space} killed its unit ({what}) but no single execution of it reproduces"));
        }
    }
    if !result.unbisected.is_empty() {
        chk.exhaustive = false;
        chk.note(format!(
            "{} further units died and were not bisected (dead-case cap reached): {}",
            result.unbisected.len(),
            vcore::short(&result.unbisected.join("; "))
        ));
    }

    let (bad, missing) = parsing::production_coverage();
    if !bad.is_empty() || !missing.is_empty() {
        chk.note(format!("production documents with errors {bad:?}; node kinds never produced {missing:?}"));
    }
    bounds.insert("strings_detail".into(), json!({"alphabet": SIGMA_LEX, "max_len": spaces.b.str_len,
        "entries": PARSER_ENTRIES.map(|e| e.label()), "grid": "token_limit {none,0,1,2,3,5} × recursion_limit {default,0,1,2}",
        "reduced_grid_from_len": spaces.b.str_reduced_at}));
    bounds.insert("tokens_detail".into(), json!({"alphabet": TX, "max_len": spaces.b.tok_len, "configs": "default; (3,1)"}));
    bounds.insert("compiler_detail".into(), json!({"strings_max_len": spaces.b.cstr_len, "tokens_max_len": spaces.b.ctok_len,
        "entries": COMPILER_ENTRIES.map(|e| e.label())}));
    bounds.insert("family_detail".into(), json!({
        "nesting_constructs": NEST.iter().map(|n| n.name).collect::<Vec<_>>(), "depths": DEPTHS, "quick_tier_skips_depth": 5000, "shapes": SHAPES,
        "recursion_limits": "default, 0, 1; 501 and 100000 only for depth ≤ 500; token_limit 700 for depth ≥ 499",
        "wide_constructs": WIDE.iter().map(|w| w.0).collect::<Vec<_>>(), "widths": WIDTHS,
        "stack_bytes": childproc::CHILD_STACK}));
    bounds.insert("edits_detail".into(), json!({"documents": parsing::PRODUCTION_DOCS.len(), "edit_alphabet": TX}));
    chk.bounds = Value::Object(bounds);
    chk.rule = "one state per input; every input is run through every listed (entry point, limits) execution; \
                non-trivial = inputs for which at least one execution reported an error (or panicked)"
        .into();
    chk.assumptions = vec![
        "stack safety is demanded on a 2 MiB thread stack in the optimised build with debug assertions (the harness profile); the opt-level 0 run of DESIGN §2.4 is not part of this binary".into(),
        "user recursion limits above the default are only combined with nesting ≤ 500 (the crate documents the limit as the caller's stack-safety knob)".into(),
        "parse_mixed_validate runs on the family only up to size 1000: the cost of *validating* huge documents is C21's subject".into(),
        "the watchdog is wall-clock; a timeout or abort that does not reproduce on the single execution is a machinery error, not a verdict".into(),
    ];
    if !machinery.is_empty() {
        vcore::machinery_error(&format!("child failures that do not reproduce: {}", vcore::short(&machinery.join("; "))));
    }
    let tier_name = tier.name();
    chk.finish(&|case| {
        !matches!(
            run_single_in_child(case, tier_name, single_timeout),
            Single::Returned | Single::Known
        )
    })
}
