//! C17 — executable validation agrees with the specification (DESIGN.md §6 C17, A.4).
//! E-INPUT: base pairs × mutation operators at every site (k = 1 | k ≤ 2) + the tiny-scope
//! exhaustive operations; verdict of the reference validator `refmodel::execval` against
//! `ExecutableDocument::parse_and_validate(..).is_ok()`.

use apollo_compiler::ExecutableDocument;
use checks::execdocs::{self, Case, SchemaEnv};
use refmodel::ast::Document;
use refmodel::execval::{self, Params, ALL_DEVIATIONS, RULES, RULE_SUBSCRIPTION_CONDITIONAL, RULE_UNDEFINED_ROOT};
use serde_json::json;
use vcore::{Check, Stats};

fn open_mask(chk: &Check) -> u32 {
    ALL_DEVIATIONS.iter().filter(|(_, id)| chk.known.is_open(id)).map(|(b, _)| *b).sum()
}

fn id_of(bit: u32) -> &'static str {
    ALL_DEVIATIONS.iter().find(|(b, _)| *b == bit).map(|(_, id)| *id).unwrap_or("?")
}

fn check_one(env: &SchemaEnv, doc: &Document, text: &str, case: &dyn Fn() -> serde_json::Value, open: u32, st: &mut Stats) {
    st.states += 1;
    st.transitions += 1;
    let size = text.len() as u64;
    let apollo = match vcore::catch(|| ExecutableDocument::parse_and_validate(&env.apollo, text.to_string(), "q.graphql")) {
        Ok(r) => r,
        Err(p) => {
            st.fail_simple("panic", case(), format!("parse_and_validate panicked: {p}"), size);
            return;
        }
    };
    let i_valid = apollo.is_ok();
    let strict = execval::validate_with(&env.view, doc, &Params::default());
    let o_valid = strict.is_valid();
    let rules = strict.rules();
    for r in &rules {
        st.count(&format!("rule:{r}"), 1);
    }
    if !o_valid {
        st.nontrivial += 1;
    }
    if i_valid == o_valid {
        if o_valid {
            st.outcome("valid");
        } else if rules.len() <= 2 {
            st.outcome(&format!("invalid:{}", rules.join("+")));
        } else {
            st.outcome(&format!("invalid:{}-rules", rules.len()));
        }
        return;
    }
    // disagreement: explained by exactly the open deviation switches?
    let dev = execval::validate_with(&env.view, doc, &Params::with_deviations(open));
    if open != 0 && dev.is_valid() == i_valid && dev.fired != 0 {
        // attribute to the switches that are necessary for the deviating verdict
        let fired: Vec<u32> = ALL_DEVIATIONS.iter().map(|(b, _)| *b).filter(|b| dev.fired & b != 0).collect();
        let mut necessary: Vec<u32> = fired
            .iter()
            .copied()
            .filter(|b| execval::validate_with(&env.view, doc, &Params::with_deviations(open & !b)).is_valid() != i_valid)
            .collect();
        if necessary.is_empty() {
            necessary = fired;
        }
        let mut ids = vec![];
        for b in necessary {
            st.known(id_of(b), text);
            ids.push(id_of(b));
        }
        st.outcome(&format!("known-finding:{}", ids.join("+")));
        return;
    }
    let errors: Vec<String> = match &apollo {
        Ok(_) => vec![],
        Err(e) => e.errors.iter().take(3).map(|d| d.error.to_string()).collect(),
    };
    let sig = if i_valid {
        format!("accepts-invalid:{}", rules.join("+"))
    } else {
        let name = match &apollo {
            Err(e) => e.errors.iter().next().map(|d| d.error.unstable_error_name().unwrap_or("build-error").to_string()).unwrap_or_default(),
            Ok(_) => String::new(),
        };
        format!("rejects-valid:{name}")
    };
    st.fail_simple(
        &sig,
        case(),
        format!(
            "apollo valid={i_valid}, reference valid={o_valid}; reference violations {:?}; apollo errors {:?}; with open deviation switches: valid={} fired={:#x}; document: {}",
            strict.violations.iter().take(4).collect::<Vec<_>>(),
            errors,
            dev.is_valid(),
            dev.fired,
            vcore::short(text)
        ),
        size,
    );
}

fn run_replay(case: &serde_json::Value, open: u32, st: &mut Stats) {
    match execdocs::replay_env_and_doc(case) {
        Ok((env, doc)) => {
            let text = doc.print();
            check_one(&env, &doc, &text, &|| case.clone(), open, st)
        }
        Err(e) => vcore::machinery_error(&format!("replay case unusable: {e}")),
    }
}

fn main() {
    let mut chk = Check::new("C17");
    vcore::quiet_panics();
    let open = open_mask(&chk);
    if let Some(case) = chk.replay_case() {
        let mut st = Stats::default();
        run_replay(&case, open, &mut st);
        chk.absorb(st);
        chk.finish_replay();
    }
    let envs = execdocs::schema_envs();
    let (stats, info) = execdocs::sweep(&envs, chk.tier(), &|c: &Case<'_>, st: &mut Stats| {
        let before = st.states;
        check_one(c.env, c.doc, c.text, &|| execdocs::case_json(c), open, st);
        st.count(&format!("family:{}", c.family), st.states - before);
        if c.family == "k1" && st.samples.is_empty() && c.text.len() % 7 == 0 {
            st.sample(json!({"base": c.base, "operators": c.operators, "document": c.text}));
        }
    });
    chk.absorb(stats);
    chk.bounds = execdocs::bounds_json(&info);
    chk.rule = "every base pair, every single mutation (operator × site × variant) of it, in the thorough tier every pair of \
                mutations, and every operation of the tiny scope; non-trivial = documents the reference validator rejects"
        .into();
    chk.assumptions = vec![
        "the reference validator refmodel::execval transcribes spec §5 (October 2021) / graphql-js v16 specifiedRules correctly; unit-tested on the spec's examples and on the 135-row calibration table".into(),
        "verdict only (valid / invalid); which diagnostics apollo prints is not compared".into(),
        "documented apollo differences are parameters of the oracle: an operation whose root type is undefined is an error; @skip/@include on a subscription root selection is an error".into(),
        "out of the alphabet: @defer/@stream, variables or positions typed with a built-in scalar the schema does not reference, documents without any definition, Int literals for Float beyond f64, redefinition of built-in directives".into(),
        "a failing case is attributed to a known finding only if apollo's verdict equals the reference verdict with exactly the open deviation switches on and a switch changed a sub-decision on that document".into(),
    ];
    // vacuity: every rule of the oracle must have been violated by some explored document
    let mut never = vec![];
    for r in RULES.iter().chain([RULE_UNDEFINED_ROOT, RULE_SUBSCRIPTION_CONDITIONAL].iter()) {
        if !chk.stats.counters.contains_key(&format!("rule:{r}")) {
            never.push(*r);
        }
    }
    chk.stats.counters.insert("rules-never-violated".into(), never.len() as u64);
    if !never.is_empty() {
        chk.exhaustive = false;
        chk.note(format!("rules never violated by any explored document (the exploration is vacuous for them): {never:?}"));
    }
    let vacuous = !never.is_empty();
    if vacuous {
        vcore::machinery_error(&format!("rules never violated by any explored document: {never:?}"));
    }
    chk.finish(&|case| {
        let mut st = Stats::default();
        run_replay(case, open, &mut st);
        !st.failures.is_empty()
    })
}
