//! C12 — schema serialization round-trips and preserves order (DESIGN.md §6 C12).
//! E-HIST: every history (sequence of definition / extension source texts from a 22-item menu
//! chosen to collide) up to the depth bound is replayed on a fresh `Schema::builder()`; for every
//! error-free built schema the serialize → parse identity is evaluated, order included.

use apollo_compiler::Schema;
use checks::hist::{self, Role, C12_MENU, MENU};
use serde_json::{json, Value};
use std::collections::BTreeSet;
use vcore::{Check, Stats};

const KF_EXT_ORDER: &str = "C12-extension-order";

fn case_json(h: &[usize]) -> Value {
    json!({ "history": h, "text": hist::render_history(MENU, h) })
}

fn history_of(case: &Value) -> Vec<usize> {
    case["history"]
        .as_array()
        .map(|a| a.iter().filter_map(|v| v.as_u64()).map(|v| v as usize).collect())
        .unwrap_or_default()
}

/// Evaluate one history. Returns the canonical state (fingerprint hash) if it built cleanly.
fn run_case(h: &[usize], kf_open: bool, st: &mut Stats) -> Option<u128> {
    st.states += 1;
    let size = (h.len() as u64) << 32 | h.iter().fold(0u64, |a, &i| (a * 32 + i as u64) & 0xffff_ffff);
    let fail = |st: &mut Stats, sig: &str, detail: String| {
        st.fail_simple(sig, case_json(h), detail, size);
    };
    let text = hist::render_history(MENU, h);
    st.transitions += 1;
    let built = match vcore::catch(|| hist::build_sources(&[text.as_str()])) {
        Ok(b) => b,
        Err(p) => {
            fail(st, "panic-build", format!("building panicked: {p}"));
            return None;
        }
    };
    if !built.ok() {
        st.outcome("build-error (leaf)");
        return None;
    }
    let s = built.schema;
    let n_ext = h
        .iter()
        .filter(|&&i| MENU[i].role == Role::Ext)
        .count();
    if n_ext > 0 {
        st.nontrivial += 1;
    }
    let r = vcore::catch(|| {
        // serialize, re-parse, re-serialize, validate both
        let t = s.to_string();
        let fp = hist::fingerprint(&s, false);
        let (s2, errs2) = match Schema::parse(t.as_str(), "roundtrip.graphql") {
            Ok(s2) => (s2, Vec::new()),
            Err(e) => {
                let msgs: Vec<String> = e.errors.iter().map(|d| d.error.to_string()).collect();
                (e.partial, msgs)
            }
        };
        let t2 = s2.to_string();
        let fp2 = hist::fingerprint(&s2, false);
        let equal = s2 == s;
        let v1 = s.clone().validate().is_ok();
        let v2 = s2.clone().validate().is_ok();
        (t, fp, errs2, t2, fp2, equal, v1, v2)
    });
    st.transitions += 5;
    let (t, fp, errs2, t2, fp2, equal, v1, v2) = match r {
        Ok(x) => x,
        Err(p) => {
            fail(st, "panic-roundtrip", format!("serialize/parse/validate panicked: {p}"));
            return None;
        }
    };
    let canon = fp.hash();
    // the oracle, part by part
    let mut broken: Vec<(&str, String)> = Vec::new();
    if !errs2.is_empty() {
        broken.push(("reparse-errors", format!("serialized form {:?} re-parses with build errors {errs2:?}", vcore::short(&t))));
    }
    if !equal {
        broken.push(("not-equal", format!("re-parsed schema != original; serialized form {:?}", vcore::short(&t))));
    }
    if fp2 != fp {
        broken.push((
            "order",
            format!(
                "order fingerprint differs after the round-trip: {} (serialized form {:?})",
                fp.first_difference(&fp2),
                vcore::short(&t)
            ),
        ));
    }
    if t2 != t {
        broken.push(("text-drift", format!("second serialization differs: {:?} then {:?}", vcore::short(&t), vcore::short(&t2))));
    }
    if v1 && !v2 {
        broken.push(("validity-lost", format!("schema was valid, its round-trip is not; serialized form {:?}", vcore::short(&t))));
    }
    if broken.is_empty() {
        let exts = match n_ext {
            0 => "no extension",
            1 => "1 extension",
            _ => "2+ extensions",
        };
        // an extension placed before the definition of its own target (or extending the implicit
        // schema definition, which has no item of its own)
        let orphan_first = h.iter().enumerate().any(|(p, &i)| {
            MENU[i].role == Role::Ext
                && h.iter()
                    .position(|&j| MENU[j].role == Role::Def && MENU[j].target == MENU[i].target)
                    .map_or(true, |d| p < d)
        });
        st.outcome(&format!(
            "round-trip ok, {}, {exts}{}",
            if v1 { "valid" } else { "invalid" },
            if orphan_first { ", extension before definition" } else { "" }
        ));
        return Some(canon);
    }
    // Known finding: predictive classifier. Attribute only if the order part is the only broken
    // part and the re-parsed order is exactly the one the recorded defect produces.
    if kf_open && broken.len() == 1 && broken[0].0 == "order" {
        if let Some(pred) = hist::predict_discovery_order_roundtrip(MENU, h, &fp) {
            if pred == fp2 && pred != fp {
                st.known(KF_EXT_ORDER, &hist::show_history(MENU, h));
                st.outcome("known finding: extensions re-serialized in discovery order");
                return Some(canon);
            }
        }
    }
    let sig = broken.iter().map(|b| b.0).collect::<Vec<_>>().join("+");
    let detail = broken.into_iter().map(|b| b.1).collect::<Vec<_>>().join("; ");
    fail(st, &sig, detail);
    Some(canon)
}

fn main() {
    let mut chk = Check::new("C12");
    vcore::quiet_panics();
    let kf_open = chk.known.is_open(KF_EXT_ORDER);
    if let Err(e) = hist::menu_self_test(MENU) {
        vcore::machinery_error(&e);
    }
    if let Some(case) = chk.replay_case() {
        let mut st = Stats::default();
        run_case(&history_of(&case), kf_open, &mut st);
        chk.absorb(st);
        chk.finish_replay();
    }
    let depth = chk.tier().pick(4u32, 5u32);
    let k = C12_MENU;
    let total = hist::history_count(k, depth);
    let (stats, canon): (Stats, BTreeSet<u128>) = hist::par_sweep_acc(
        total,
        512,
        |i, st, acc: &mut BTreeSet<u128>| {
            let mut h = Vec::new();
            hist::nth_history(k, i, &mut h);
            if i % (total / 5 + 1) == total / 11 {
                st.sample(json!({"history": hist::show_history(MENU, &h)}));
            }
            if let Some(c) = run_case(&h, kf_open, st) {
                acc.insert(c);
            }
        },
        hist::merge_sets,
    );
    chk.absorb(stats);
    chk.stats.count("distinct_canonical_states", canon.len() as u64);
    chk.stats.count("histories", total);
    println!(
        "histories {} (depth <= {}), distinct canonical states (order fingerprints of error-free schemas) {}",
        total,
        depth,
        canon.len()
    );
    chk.bounds = json!({
        "menu": MENU[..k].iter().map(|i| i.text).collect::<Vec<_>>(),
        "max_depth": depth,
        "histories": total,
        "distinct_canonical_states": canon.len(),
    });
    chk.rule = "every sequence of <= max_depth menu items (breadth-first order), replayed as one source text on a fresh \
                Schema::builder(); a history whose build reports errors is a leaf; non-trivial = error-free histories \
                containing at least one type or schema extension; canonical state = the order fingerprint"
        .into();
    chk.assumptions = vec![
        "the order fingerprint renders leaves (types, values, directive applications) with apollo's Display; lists and maps are walked by the harness in iteration order".into(),
        "descriptions and `&`-separated multi-interface lists do not occur in the menu".into(),
    ];
    chk.finish(&|case| {
        let mut st = Stats::default();
        run_case(&history_of(case), kf_open, &mut st);
        !st.failures.is_empty()
    })
}
