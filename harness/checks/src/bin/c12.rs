//! C12 — schema serialization round-trips and preserves order (DESIGN.md §6 C12).
//! E-HIST: every history (sequence of definition / extension source texts from a 22-item menu
//! chosen to collide) up to the depth bound is replayed on a fresh `Schema::builder()`; for every
//! error-free built schema the serialize → parse identity is evaluated, order included.

use apollo_compiler::Schema;
use checks::hist::{self, Role, C12_MENU, MENU};
use serde_json::{json, Value};
use std::collections::BTreeSet;
use vcore::{Check, Stats};

const KF_EXT_ORDER: &str = "C12-extension-order";

fn case_json(h: &[usize]) -> Value {
    json!({ "history": h, "text": hist::render_history(MENU, h) })
}

fn history_of(case: &Value) -> Vec<usize> {
    case["history"]
        .as_array()
        .map(|a| a.iter().filter_map(|v| v.as_u64()).map(|v| v as usize).collect())
        .unwrap_or_default()
}

// ---------------------------------------------------------------------------------------------
// Focus menus: small themed menus explored one level deeper than the general menu. They put the
// constructs the general menu lacks under the same oracle: extensions that carry all three
// component kinds at once, `implements` on interface extensions, explicit schema definitions next
// to unrelated types with default root names, directives on unions and input objects,
// descriptions at every site, redefined built-in directives.
// ---------------------------------------------------------------------------------------------

const DIR_D: &str = "directive @d(n:Int) repeatable on OBJECT|INTERFACE|ENUM|SCALAR|SCHEMA|UNION|INPUT_OBJECT|FIELD_DEFINITION";

const FOCUS: &[(&str, &[&str])] = &[
    (
        "interface-extensions",
        &[
            DIR_D,
            "interface J{f:Int}",
            "interface I{f:Int}",
            "extend interface I @d(n:1)",
            "extend interface I implements J @d(n:2)",
            "extend interface I implements J",
            "extend interface I{g:Int}",
            "extend interface I @d(n:3){h:Int @d(n:4)}",
        ],
    ),
    (
        "object-extensions",
        &[
            DIR_D,
            "type Q{f:Int}",
            "interface I{f:Int}",
            "interface J{f:Int}",
            "extend type Q @d(n:1)",
            "extend type Q implements I",
            "extend type Q implements J @d(n:2)",
            "extend type Q{a:Int}",
            "extend type Q implements I & J @d(n:3){b(x:Int y:[Int!]=[1]):Int}",
        ],
    ),
    (
        "schema-roots",
        &[
            DIR_D,
            "schema{query:Query}",
            "schema @d(n:2){query:Q mutation:Mutation}",
            "type Query{q:Int}",
            "type Mutation{m:Int}",
            "type Subscription{s:Int}",
            "type Q{f:Int}",
            "extend schema{mutation:Mutation}",
            "extend schema @d(n:1)",
            "extend schema @d(n:3){subscription:Subscription}",
            "extend schema @d(n:4){mutation:Mutation}",
        ],
    ),
    (
        "union-enum-input-extensions",
        &[
            DIR_D,
            "type Q{f:Int}",
            "type R{f:Int}",
            "union U=Q",
            "extend union U @d(n:1)",
            "extend union U @d(n:2)=R",
            "enum E{A}",
            "extend enum E @d(n:1)",
            "extend enum E @d(n:2){B C}",
            "input In{x:Int}",
            "extend input In @d(n:1)",
            "extend input In @d(n:2){y:Int=1 z:In}",
        ],
    ),
    (
        "descriptions-and-built-ins",
        &[
            "\"d d\" directive @d(\"arg\" n:Int=1) repeatable on OBJECT|ENUM_VALUE|FIELD_DEFINITION|ARGUMENT_DEFINITION|INPUT_FIELD_DEFINITION",
            "\"type\" type Q @d{\"field\" f(\"arg\" x:Int=1 @d):Int @d}",
            "\"\"\"\nblock\n  indented\n\"\"\" enum E{\"value\" A @d B @deprecated(reason:\"r\")}",
            "\"in\" input In{\"inf\" x:Int=1 @d}",
            "\"sc\" scalar S @specifiedBy(url:\"u\")",
            "\"un\" union U=Q",
            "\"schema\" schema{query:Q}",
            "\"iface\" interface I{\"if\" f:Int}",
            "directive @deprecated(reason:String=\"x\") on FIELD_DEFINITION|ENUM_VALUE",
            "directive @specifiedBy(url:String!) on SCALAR",
            "directive @include(if:Boolean!) on FIELD|FRAGMENT_SPREAD|INLINE_FRAGMENT",
            "extend type Q{\"ext field\" g:Int @deprecated}",
            "extend type __Type{extra:Int}",
            "extend enum __TypeKind{EXTRA}",
        ],
    ),
];

fn focus_case_json(menu: usize, h: &[usize]) -> Value {
    let texts: Vec<&str> = h.iter().map(|&i| FOCUS[menu].1[i]).collect();
    json!({ "focus": menu, "history": h, "text": texts.join("\n") })
}

/// Evaluate one history of a focus menu (same oracle as `run_case`, no known-finding classifier).
fn run_focus(menu: usize, h: &[usize], st: &mut Stats) -> Option<u128> {
    st.states += 1;
    let size = (h.len() as u64) << 32 | h.iter().fold(0u64, |a, &i| (a * 32 + i as u64) & 0xffff_ffff);
    let items = FOCUS[menu].1;
    let text = h.iter().map(|&i| items[i]).collect::<Vec<_>>().join("\n");
    st.transitions += 1;
    let built = match vcore::catch(|| hist::build_sources(&[text.as_str()])) {
        Ok(b) => b,
        Err(p) => {
            st.fail_simple("panic-build", focus_case_json(menu, h), format!("building panicked: {p}"), size);
            return None;
        }
    };
    if !built.ok() {
        st.outcome("focus: build-error (leaf)");
        return None;
    }
    let n_ext = h.iter().filter(|&&i| items[i].starts_with("extend")).count();
    if n_ext > 0 {
        st.nontrivial += 1;
    }
    let s = built.schema;
    let r = vcore::catch(|| roundtrip(&s));
    st.transitions += 5;
    let (canon, broken, v1) = match r {
        Ok(x) => x,
        Err(p) => {
            st.fail_simple("panic-roundtrip", focus_case_json(menu, h), format!("serialize/parse/validate panicked: {p}"), size);
            return None;
        }
    };
    if broken.is_empty() {
        st.outcome(&format!(
            "focus {}: round-trip ok, {}, {}",
            FOCUS[menu].0,
            if v1 { "valid" } else { "invalid" },
            match n_ext {
                0 => "no extension",
                1 => "1 extension",
                _ => "2+ extensions",
            }
        ));
        return Some(canon);
    }
    let sig = format!("focus:{}", broken.iter().map(|b| b.0).collect::<Vec<_>>().join("+"));
    let detail = broken.into_iter().map(|b| b.1).collect::<Vec<_>>().join("; ");
    st.fail_simple(&sig, focus_case_json(menu, h), detail, size);
    Some(canon)
}

/// The oracle: serialize, re-parse, re-serialize, validate both; returns (canonical state,
/// broken parts, was valid).
fn roundtrip(s: &Schema) -> (u128, Vec<(&'static str, String)>, bool) {
    let t = s.to_string();
    let fp = hist::fingerprint(s, false);
    let (s2, errs2) = match Schema::parse(t.as_str(), "roundtrip.graphql") {
        Ok(s2) => (s2, Vec::new()),
        Err(e) => {
            let msgs: Vec<String> = e.errors.iter().map(|d| d.error.to_string()).collect();
            (e.partial, msgs)
        }
    };
    let t2 = s2.to_string();
    let fp2 = hist::fingerprint(&s2, false);
    let equal = s2 == *s;
    let v1 = s.clone().validate().is_ok();
    let v2 = s2.clone().validate().is_ok();
    let mut broken: Vec<(&'static str, String)> = Vec::new();
    if !errs2.is_empty() {
        broken.push(("reparse-errors", format!("serialized form {:?} re-parses with build errors {errs2:?}", vcore::short(&t))));
    }
    if !equal {
        broken.push(("not-equal", format!("re-parsed schema != original; serialized form {:?}", vcore::short(&t))));
    }
    if fp2 != fp {
        broken.push(("order", format!("order fingerprint differs after the round-trip: {} (serialized form {:?})", fp.first_difference(&fp2), vcore::short(&t))));
    }
    if t2 != t {
        broken.push(("text-drift", format!("second serialization differs: {:?} then {:?}", vcore::short(&t), vcore::short(&t2))));
    }
    if v1 && !v2 {
        broken.push(("validity-lost", format!("schema was valid, its round-trip is not; serialized form {:?}", vcore::short(&t))));
    }
    (fp.hash(), broken, v1)
}

/// Evaluate one history. Returns the canonical state (fingerprint hash) if it built cleanly.
fn run_case(h: &[usize], kf_open: bool, st: &mut Stats) -> Option<u128> {
    st.states += 1;
    let size = (h.len() as u64) << 32 | h.iter().fold(0u64, |a, &i| (a * 32 + i as u64) & 0xffff_ffff);
    let fail = |st: &mut Stats, sig: &str, detail: String| {
        st.fail_simple(sig, case_json(h), detail, size);
    };
    let text = hist::render_history(MENU, h);
    st.transitions += 1;
    let built = match vcore::catch(|| hist::build_sources(&[text.as_str()])) {
        Ok(b) => b,
        Err(p) => {
            fail(st, "panic-build", format!("building panicked: {p}"));
            return None;
        }
    };
    if !built.ok() {
        st.outcome("build-error (leaf)");
        return None;
    }
    let s = built.schema;
    let n_ext = h
        .iter()
        .filter(|&&i| MENU[i].role == Role::Ext)
        .count();
    if n_ext > 0 {
        st.nontrivial += 1;
    }
    let r = vcore::catch(|| {
        // serialize, re-parse, re-serialize, validate both
        let t = s.to_string();
        let fp = hist::fingerprint(&s, false);
        let (s2, errs2) = match Schema::parse(t.as_str(), "roundtrip.graphql") {
            Ok(s2) => (s2, Vec::new()),
            Err(e) => {
                let msgs: Vec<String> = e.errors.iter().map(|d| d.error.to_string()).collect();
                (e.partial, msgs)
            }
        };
        let t2 = s2.to_string();
        let fp2 = hist::fingerprint(&s2, false);
        let equal = s2 == s;
        let v1 = s.clone().validate().is_ok();
        let v2 = s2.clone().validate().is_ok();
        (t, fp, errs2, t2, fp2, equal, v1, v2)
    });
    st.transitions += 5;
    let (t, fp, errs2, t2, fp2, equal, v1, v2) = match r {
        Ok(x) => x,
        Err(p) => {
            fail(st, "panic-roundtrip", format!("serialize/parse/validate panicked: {p}"));
            return None;
        }
    };
    let canon = fp.hash();
    // the oracle, part by part
    let mut broken: Vec<(&str, String)> = Vec::new();
    if !errs2.is_empty() {
        broken.push(("reparse-errors", format!("serialized form {:?} re-parses with build errors {errs2:?}", vcore::short(&t))));
    }
    if !equal {
        broken.push(("not-equal", format!("re-parsed schema != original; serialized form {:?}", vcore::short(&t))));
    }
    if fp2 != fp {
        broken.push((
            "order",
            format!(
                "order fingerprint differs after the round-trip: {} (serialized form {:?})",
                fp.first_difference(&fp2),
                vcore::short(&t)
            ),
        ));
    }
    if t2 != t {
        broken.push(("text-drift", format!("second serialization differs: {:?} then {:?}", vcore::short(&t), vcore::short(&t2))));
    }
    if v1 && !v2 {
        broken.push(("validity-lost", format!("schema was valid, its round-trip is not; serialized form {:?}", vcore::short(&t))));
    }
    if broken.is_empty() {
        let exts = match n_ext {
            0 => "no extension",
            1 => "1 extension",
            _ => "2+ extensions",
        };
        // an extension placed before the definition of its own target (or extending the implicit
        // schema definition, which has no item of its own)
        let orphan_first = h.iter().enumerate().any(|(p, &i)| {
            MENU[i].role == Role::Ext
                && h.iter()
                    .position(|&j| MENU[j].role == Role::Def && MENU[j].target == MENU[i].target)
                    .map_or(true, |d| p < d)
        });
        st.outcome(&format!(
            "round-trip ok, {}, {exts}{}",
            if v1 { "valid" } else { "invalid" },
            if orphan_first { ", extension before definition" } else { "" }
        ));
        return Some(canon);
    }
    // Known finding: predictive classifier. Attribute only if the order part is the only broken
    // part and the re-parsed order is exactly the one the recorded defect produces.
    if kf_open && broken.len() == 1 && broken[0].0 == "order" {
        if let Some(pred) = hist::predict_discovery_order_roundtrip(MENU, h, &fp) {
            if pred == fp2 && pred != fp {
                st.known(KF_EXT_ORDER, &hist::show_history(MENU, h));
                st.outcome("known finding: extensions re-serialized in discovery order");
                return Some(canon);
            }
        }
    }
    let sig = broken.iter().map(|b| b.0).collect::<Vec<_>>().join("+");
    let detail = broken.into_iter().map(|b| b.1).collect::<Vec<_>>().join("; ");
    fail(st, &sig, detail);
    Some(canon)
}

fn main() {
    let mut chk = Check::new("C12");
    vcore::quiet_panics();
    let kf_open = chk.known.is_open(KF_EXT_ORDER);
    if let Err(e) = hist::menu_self_test(MENU) {
        vcore::machinery_error(&e);
    }
    if let Some(case) = chk.replay_case() {
        let mut st = Stats::default();
        if let Some(m) = case["focus"].as_u64() {
            run_focus(m as usize, &history_of(&case), &mut st);
            chk.absorb(st);
            chk.finish_replay();
        }
        run_case(&history_of(&case), kf_open, &mut st);
        chk.absorb(st);
        chk.finish_replay();
    }
    let depth = chk.tier().pick(4u32, 5u32);
    let k = C12_MENU;
    let total = hist::history_count(k, depth);
    let (stats, canon): (Stats, BTreeSet<u128>) = hist::par_sweep_acc(
        total,
        512,
        |i, st, acc: &mut BTreeSet<u128>| {
            let mut h = Vec::new();
            hist::nth_history(k, i, &mut h);
            if i % (total / 5 + 1) == total / 11 {
                st.sample(json!({"history": hist::show_history(MENU, &h)}));
            }
            if let Some(c) = run_case(&h, kf_open, st) {
                acc.insert(c);
            }
        },
        hist::merge_sets,
    );
    chk.absorb(stats);
    chk.stats.count("distinct_canonical_states", canon.len() as u64);
    chk.stats.count("histories", total);
    println!(
        "histories {} (depth <= {}), distinct canonical states (order fingerprints of error-free schemas) {}",
        total,
        depth,
        canon.len()
    );
    // focus menus, one level deeper
    let fdepth = depth + 1;
    let mut focus_bounds = Vec::new();
    for (m, (name, items)) in FOCUS.iter().enumerate() {
        for t in items.iter() {
            if let Err(e) = apollo_compiler::ast::Document::parse(*t, "focus.graphql") {
                vcore::machinery_error(&format!("focus menu item {t:?} does not parse: {}", e.errors));
            }
        }
        let k = items.len();
        let total = hist::history_count(k, fdepth);
        let (stats, canon): (Stats, BTreeSet<u128>) = hist::par_sweep_acc(
            total,
            512,
            |i, st, acc: &mut BTreeSet<u128>| {
                let mut h = Vec::new();
                hist::nth_history(k, i, &mut h);
                if let Some(c) = run_focus(m, &h, st) {
                    acc.insert(c);
                }
            },
            hist::merge_sets,
        );
        chk.absorb(stats);
        println!("focus menu {name}: histories {total} (depth <= {fdepth}), distinct canonical states {}", canon.len());
        chk.stats.count(&format!("focus {name}: histories"), total);
        chk.stats.count(&format!("focus {name}: distinct canonical states"), canon.len() as u64);
        focus_bounds.push(json!({"name": name, "menu": items, "max_depth": fdepth, "histories": total, "distinct_canonical_states": canon.len()}));
    }
    chk.bounds = json!({
        "menu": MENU[..k].iter().map(|i| i.text).collect::<Vec<_>>(),
        "max_depth": depth,
        "histories": total,
        "distinct_canonical_states": canon.len(),
        "focus_menus": focus_bounds,
    });
    chk.rule = "every sequence of <= max_depth menu items (breadth-first order), replayed as one source text on a fresh \
                Schema::builder(); a history whose build reports errors is a leaf; non-trivial = error-free histories \
                containing at least one type or schema extension; canonical state = the order fingerprint"
        .into();
    chk.assumptions = vec![
        "the order fingerprint renders leaves (types, values, directive applications) with apollo's Display; lists and maps are walked by the harness in iteration order".into(),
        "descriptions, `&`-separated interface lists, directives on unions / input objects and redefined built-in directives occur in the focus menus only".into(),
    ];
    chk.finish(&|case| {
        let mut st = Stats::default();
        if let Some(m) = case["focus"].as_u64() {
            run_focus(m as usize, &history_of(case), &mut st);
            return !st.failures.is_empty();
        }
        run_case(&history_of(case), kf_open, &mut st);
        !st.failures.is_empty()
    })
}
