//! C13 — building from several sources is compositional (DESIGN.md §6 C13).
//! E-HIST, differential oracle "state reached by history A equals state reached by history B":
//!  (i)  a history added as one concatenated source text  vs  every split of it into contiguous
//!       source texts added one after another to the same builder (schema and executable side);
//!  (ii) a history  vs  the same history with a type/schema *definition* relocated behind the
//!       k-th of the extensions that follow it (the definition jumps only over non-definitions;
//!       extensions never move relative to each other);
//!  (iii) a history  vs  the same history with one *extension* that stands before the definition of
//!       its target moved to just behind that definition (no same-target extension in between);
//!  (iv) (i)-(iii) again under `SchemaBuilder::adopt_orphan_extensions()` for the histories in
//!       which extensions of at least two types arrive before any definition of their type.

use apollo_compiler::validation::{DiagnosticList, Valid};
use apollo_compiler::{ExecutableDocument, Schema};
use checks::hist::{self, Role, MENU};
use serde_json::{json, Value};
use std::collections::BTreeSet;
use std::sync::OnceLock;
use vcore::{Check, Stats};

const KF_ORPHAN: &str = "C13-orphan-extension-kind-mismatch";

// ---------------------------------------------------------------------------------------------
// schema side
// ---------------------------------------------------------------------------------------------

struct Obs {
    text: String,
    fp: hist::SchemaFp,
    messages: Vec<String>,
}

fn observe<S: AsRef<str>>(texts: &[S]) -> Obs {
    let b = hist::build_sources(texts);
    Obs { text: b.schema.to_string(), fp: hist::fingerprint(&b.schema, false), messages: b.messages }
}

fn hist_size(h: &[usize]) -> u64 {
    (h.len() as u64) << 32 | h.iter().fold(0u64, |a, &i| (a * 32 + i as u64) & 0xffff_ffff)
}

fn schema_case(h: &[usize], kf_open: bool, st: &mut Stats) -> Option<u128> {
    st.states += 1;
    let case = || json!({"part": "schema", "history": h, "text": hist::render_history(MENU, h)});
    let texts = hist::history_texts(MENU, h);
    let whole = hist::render_history(MENU, h);
    let r = vcore::catch(|| {
        let mut fails: Vec<(String, String)> = Vec::new();
        let mut known: Vec<String> = Vec::new();
        let mut runs = 1u64;
        let base = observe(&[whole.as_str()]);
        // (i) every split into contiguous source texts
        for mask in 1..hist::split_count(h.len()) {
            let parts = hist::split_texts(&texts, mask);
            let o = observe(&parts);
            runs += 1;
            if o.text != base.text {
                fails.push((
                    "split-schema".into(),
                    format!("sources {parts:?}: serialized schema differs from the concatenation's: {:?} vs {:?}", vcore::short(&o.text), vcore::short(&base.text)),
                ));
            } else if o.fp != base.fp {
                fails.push((
                    "split-order".into(),
                    format!("sources {parts:?}: order differs from the concatenation's: {}", o.fp.first_difference(&base.fp)),
                ));
            }
            if o.messages != base.messages {
                fails.push((
                    "split-diagnostics".into(),
                    format!("sources {parts:?}: diagnostics {:?}, concatenation {:?}", o.messages, base.messages),
                ));
            }
        }
        // (ii) definition relocation
        let relocs = hist::relocations(MENU, h);
        for rl in &relocs {
            let moved_text = hist::render_history(MENU, &rl.hist);
            let o = observe(&[moved_text.as_str()]);
            runs += 1;
            let same_schema = o.text == base.text && o.fp == base.fp;
            let same_diags = hist::sorted(o.messages.clone()) == hist::sorted(base.messages.clone());
            if same_schema && same_diags {
                continue;
            }
            // Known finding, predictive: the relocated history behaves exactly like the same
            // history *without* the kind-mismatched extensions that are now orphans in front of
            // the definition, and the original differs from that only by their mismatch messages.
            if kf_open {
                let d = &MENU[h[rl.from]];
                let mism: Vec<usize> = rl
                    .jumped_exts
                    .iter()
                    .copied()
                    .filter(|&p| {
                        let e = &MENU[rl.hist[p]];
                        e.kind != d.kind
                            && !rl.hist[..p].iter().any(|&j| MENU[j].role == Role::Def && MENU[j].target == e.target)
                    })
                    .collect();
                if !mism.is_empty() {
                    let without: Vec<usize> = rl
                        .hist
                        .iter()
                        .enumerate()
                        .filter(|(p, _)| !mism.contains(p))
                        .map(|(_, &i)| i)
                        .collect();
                    let w = observe(&[hist::render_history(MENU, &without).as_str()]);
                    runs += 1;
                    let mut expected = w.messages.clone();
                    for &p in &mism {
                        let e = &MENU[rl.hist[p]];
                        expected.push(format!(
                            "adding {}, but `{}` is {}",
                            e.kind.describe_ext(),
                            e.target,
                            d.kind.describe_def()
                        ));
                    }
                    let predicted = o.text == w.text
                        && o.fp == w.fp
                        && o.messages == w.messages
                        && base.text == w.text
                        && base.fp == w.fp
                        && hist::sorted(base.messages.clone()) == hist::sorted(expected);
                    if predicted {
                        known.push(format!("{}  vs  {}", hist::show_history(MENU, h), hist::show_history(MENU, &rl.hist)));
                        continue;
                    }
                }
            }
            let what = format!(
                "definition {:?} moved behind {:?}: {:?}",
                MENU[h[rl.from]].text,
                MENU[h[rl.after]].text,
                hist::show_history(MENU, &rl.hist)
            );
            if !same_schema {
                let diff = if o.text != base.text {
                    format!("{:?} vs {:?}", vcore::short(&o.text), vcore::short(&base.text))
                } else {
                    o.fp.first_difference(&base.fp)
                };
                fails.push(("relocation-schema".into(), format!("{what}: built schema differs: {diff}")));
            }
            if !same_diags {
                fails.push((
                    "relocation-diagnostics".into(),
                    format!("{what}: diagnostics {:?}, original {:?}", o.messages, base.messages),
                ));
            }
        }
        let erelocs = hist::ext_relocations(MENU, h);
        for (p, d, moved) in &erelocs {
            let moved_text = hist::render_history(MENU, moved);
            let o = observe(&[moved_text.as_str()]);
            runs += 1;
            let what = format!("extension {:?} moved behind its definition {:?}: {:?}", MENU[h[*p]].text, MENU[h[*d]].text, hist::show_history(MENU, moved));
            if o.text != base.text || o.fp != base.fp {
                let diff = if o.text != base.text {
                    format!("{:?} vs {:?}", vcore::short(&o.text), vcore::short(&base.text))
                } else {
                    o.fp.first_difference(&base.fp)
                };
                fails.push(("ext-relocation-schema".into(), format!("{what}: built schema differs: {diff}")));
            }
            if hist::sorted(o.messages.clone()) != hist::sorted(base.messages.clone()) {
                fails.push(("ext-relocation-diagnostics".into(), format!("{what}: diagnostics {:?}, original {:?}", o.messages, base.messages)));
            }
        }
        (base, relocs.len() + erelocs.len(), runs, fails, known)
    });
    let (base, nreloc, runs, fails, known) = match r {
        Ok(x) => x,
        Err(p) => {
            st.fail_simple("panic", case(), format!("building panicked: {p}"), hist_size(h));
            return None;
        }
    };
    st.transitions += runs;
    let ext_of_defined = h.iter().any(|&i| {
        MENU[i].role == Role::Ext && h.iter().any(|&j| MENU[j].role == Role::Def && MENU[j].target == MENU[i].target)
    });
    if h.len() >= 2 && (!base.messages.is_empty() || ext_of_defined) {
        st.nontrivial += 1;
    }
    let canon = hist::fnv128(format!("{}\u{0}{:?}", base.fp.render(), base.messages).as_bytes());
    for (sig, detail) in &fails {
        st.fail_simple(sig, case(), detail.clone(), hist_size(h));
    }
    for w in &known {
        st.known(KF_ORPHAN, w);
    }
    if !fails.is_empty() {
        return Some(canon);
    }
    let diag = match base.messages.len() {
        0 => "no diagnostics",
        1 => "1 diagnostic",
        _ => "2+ diagnostics",
    };
    let rel = if !known.is_empty() {
        "relocation hits known finding (orphan kind mismatch)"
    } else if nreloc > 0 {
        "relocations agree"
    } else {
        "no relocation applicable"
    };
    st.outcome(&format!("schema: {diag}, splits agree, {rel}"));
    for m in &base.messages {
        // which build diagnostics were exercised (message class = text with names removed)
        let class: String = m.split('`').step_by(2).collect::<Vec<_>>().join("_");
        st.count(&format!("diag: {class}"), 1);
    }
    Some(canon)
}


// ---------------------------------------------------------------------------------------------
// schema side, SchemaBuilder::adopt_orphan_extensions() mode
// ---------------------------------------------------------------------------------------------

fn observe_adopt<S: AsRef<str>>(texts: &[S]) -> Obs {
    let mut b = Schema::builder().adopt_orphan_extensions();
    for (i, t) in texts.iter().enumerate() {
        b = b.parse(t.as_ref(), format!("s{i}.graphql"));
    }
    let (schema, messages) = match b.build() {
        Ok(schema) => (schema, Vec::new()),
        Err(e) => {
            let m = e.errors.iter().map(|d| d.error.to_string()).collect();
            (e.partial, m)
        }
    };
    Obs { text: schema.to_string(), fp: hist::fingerprint(&schema, false), messages }
}

/// Same differential as `schema_case` under `adopt_orphan_extensions()`: extensions whose type is
/// never defined become definitions at build time, so the queue of orphans is observable in the
/// order of the built type map.
fn schema_case_adopt(h: &[usize], st: &mut Stats) {
    st.states += 1;
    let case = || json!({"part": "schema-adopt", "history": h, "text": hist::render_history(MENU, h)});
    let texts = hist::history_texts(MENU, h);
    let whole = hist::render_history(MENU, h);
    let r = vcore::catch(|| {
        let mut fails: Vec<(String, String)> = Vec::new();
        let mut runs = 1u64;
        let base = observe_adopt(&[whole.as_str()]);
        for mask in 1..hist::split_count(h.len()) {
            let parts = hist::split_texts(&texts, mask);
            let o = observe_adopt(&parts);
            runs += 1;
            if o.text != base.text || o.fp != base.fp {
                fails.push((
                    "adopt:split-schema".into(),
                    format!("sources {parts:?}: built schema differs from the concatenation's: {:?} vs {:?}", vcore::short(&o.text), vcore::short(&base.text)),
                ));
            }
            if o.messages != base.messages {
                fails.push(("adopt:split-diagnostics".into(), format!("sources {parts:?}: diagnostics {:?}, concatenation {:?}", o.messages, base.messages)));
            }
        }
        let relocs = hist::relocations(MENU, h);
        for rl in &relocs {
            let moved_text = hist::render_history(MENU, &rl.hist);
            let o = observe_adopt(&[moved_text.as_str()]);
            runs += 1;
            let what = format!(
                "definition {:?} moved behind {:?}: {:?}",
                MENU[h[rl.from]].text,
                MENU[h[rl.after]].text,
                hist::show_history(MENU, &rl.hist)
            );
            if o.text != base.text || o.fp != base.fp {
                let diff = if o.text != base.text {
                    format!("{:?} vs {:?}", vcore::short(&o.text), vcore::short(&base.text))
                } else {
                    o.fp.first_difference(&base.fp)
                };
                fails.push(("adopt:relocation-schema".into(), format!("{what}: built schema differs: {diff}")));
            }
            if hist::sorted(o.messages.clone()) != hist::sorted(base.messages.clone()) {
                fails.push(("adopt:relocation-diagnostics".into(), format!("{what}: diagnostics {:?}, original {:?}", o.messages, base.messages)));
            }
        }
        let erelocs = hist::ext_relocations(MENU, h);
        for (p, d, moved) in &erelocs {
            let moved_text = hist::render_history(MENU, moved);
            let o = observe_adopt(&[moved_text.as_str()]);
            runs += 1;
            let what = format!("extension {:?} moved behind its definition {:?}: {:?}", MENU[h[*p]].text, MENU[h[*d]].text, hist::show_history(MENU, moved));
            if o.text != base.text || o.fp != base.fp {
                let diff = if o.text != base.text {
                    format!("{:?} vs {:?}", vcore::short(&o.text), vcore::short(&base.text))
                } else {
                    o.fp.first_difference(&base.fp)
                };
                fails.push(("adopt:ext-relocation-schema".into(), format!("{what}: built schema differs: {diff}")));
            }
            if hist::sorted(o.messages.clone()) != hist::sorted(base.messages.clone()) {
                fails.push(("adopt:ext-relocation-diagnostics".into(), format!("{what}: diagnostics {:?}, original {:?}", o.messages, base.messages)));
            }
        }
        (base.messages.len(), relocs.len() + erelocs.len(), runs, fails)
    });
    match r {
        Err(p) => st.fail_simple("adopt:panic", case(), format!("building panicked: {p}"), hist_size(h)),
        Ok((ndiag, nreloc, runs, fails)) => {
            st.transitions += runs;
            st.nontrivial += 1;
            for (sig, detail) in &fails {
                st.fail_simple(sig, case(), detail.clone(), hist_size(h));
            }
            if fails.is_empty() {
                st.outcome(&format!(
                    "schema (adopt orphans): {}, splits agree, {}",
                    if ndiag == 0 { "no diagnostics" } else { "diagnostics" },
                    if nreloc > 0 { "relocations agree" } else { "no relocation applicable" }
                ));
            }
        }
    }
}

/// Histories in which extensions of at least two different types arrive before (or without) a
/// definition of their target: the orphan queue then has an order to get wrong.
fn has_orphan_on_arrival(h: &[usize]) -> bool {
    let mut targets: Vec<&str> = h
        .iter()
        .enumerate()
        .filter(|(p, &i)| {
            MENU[i].role == Role::Ext
                && MENU[i].target != "schema"
                && !h[..*p].iter().any(|&j| MENU[j].role == Role::Def && MENU[j].target == MENU[i].target)
        })
        .map(|(_, &i)| MENU[i].target)
        .collect();
    targets.sort();
    targets.dedup();
    targets.len() >= 2
}

// ---------------------------------------------------------------------------------------------
// executable side
// ---------------------------------------------------------------------------------------------

const EXEC_SCHEMA: &str = "type Query{a:Int b:Int t:T} type T{x:Int} type Mutation{m:Int}";

/// named, anonymous, colliding names, fragments (colliding, with a build error inside), an
/// operation type without root, a type definition
const EXEC_MENU: &[&str] = &[
    "query A{a}",
    "query A{b}",
    "{a}",
    "{b}",
    "query B{t{...F}}",
    "fragment F on T{x}",
    "fragment F on T{x nope}",
    "mutation M{m}",
    "mutation{m}",
    "subscription S{s}",
    "type X{y:Int}",
    "fragment G on Nope{x}",
];

fn exec_schema() -> &'static Valid<Schema> {
    static S: OnceLock<Valid<Schema>> = OnceLock::new();
    S.get_or_init(|| {
        Schema::parse_and_validate(EXEC_SCHEMA, "schema.graphql")
            .unwrap_or_else(|e| vcore::machinery_error(&format!("C13 executable schema invalid: {}", e.errors)))
    })
}

struct ExecObs {
    doc: ExecutableDocument,
    text: String,
    order: String,
    messages: Vec<String>,
}

fn exec_observe<S: AsRef<str>>(texts: &[S], with_schema: bool) -> ExecObs {
    let mut errors = DiagnosticList::new(Default::default());
    let schema = if with_schema { Some(exec_schema()) } else { None };
    let mut b = ExecutableDocument::builder(schema, &mut errors);
    for (i, t) in texts.iter().enumerate() {
        b = b.parse(t.as_ref(), format!("d{i}.graphql"));
    }
    let doc = b.build();
    let order = format!(
        "anonymous={} named={:?} fragments={:?}",
        doc.operations.anonymous.is_some(),
        doc.operations.named.keys().map(|k| k.as_str()).collect::<Vec<_>>(),
        doc.fragments.keys().map(|k| k.as_str()).collect::<Vec<_>>()
    );
    ExecObs {
        text: doc.to_string(),
        order,
        messages: errors.iter().map(|d| d.error.to_string()).collect(),
        doc,
    }
}

fn exec_case(h: &[usize], st: &mut Stats) {
    st.states += 1;
    let texts: Vec<&str> = h.iter().map(|&i| EXEC_MENU[i]).collect();
    let case = || json!({"part": "executable", "history": h, "text": texts.join("\n")});
    let r = vcore::catch(|| {
        let mut fails: Vec<(String, String)> = Vec::new();
        let mut runs = 0u64;
        let mut diags = 0usize;
        for with_schema in [true, false] {
            let whole = texts.join("\n");
            let base = exec_observe(&[whole.as_str()], with_schema);
            runs += 1;
            diags = diags.max(base.messages.len());
            for mask in 1..hist::split_count(h.len()) {
                let parts = hist::split_texts(&texts, mask);
                let o = exec_observe(&parts, with_schema);
                runs += 1;
                let ctx = format!("sources {parts:?} (schema: {with_schema})");
                if o.doc != base.doc || o.text != base.text {
                    fails.push((
                        "exec-split-document".into(),
                        format!("{ctx}: document {:?} differs from the concatenation's {:?}", vcore::short(&o.text), vcore::short(&base.text)),
                    ));
                } else if o.order != base.order {
                    fails.push(("exec-split-order".into(), format!("{ctx}: {} vs {}", o.order, base.order)));
                }
                if o.messages != base.messages {
                    fails.push((
                        "exec-split-diagnostics".into(),
                        format!("{ctx}: diagnostics {:?}, concatenation {:?}", o.messages, base.messages),
                    ));
                }
            }
        }
        (runs, diags, fails)
    });
    match r {
        Err(p) => st.fail_simple("exec-panic", case(), format!("building panicked: {p}"), hist_size(h)),
        Ok((runs, diags, fails)) => {
            st.transitions += runs;
            if h.len() >= 2 && diags > 0 {
                st.nontrivial += 1;
            }
            for (sig, detail) in &fails {
                st.fail_simple(sig, case(), detail.clone(), hist_size(h));
            }
            if fails.is_empty() {
                st.outcome(match diags {
                    0 => "executable: no diagnostics, splits agree",
                    1 => "executable: 1 diagnostic, splits agree",
                    2 => "executable: 2 diagnostics, splits agree",
                    _ => "executable: 3+ diagnostics, splits agree",
                });
            }
        }
    }
}

fn history_of(case: &Value) -> Vec<usize> {
    case["history"]
        .as_array()
        .map(|a| a.iter().filter_map(|v| v.as_u64()).map(|v| v as usize).collect())
        .unwrap_or_default()
}

fn run_case(case: &Value, kf_open: bool, st: &mut Stats) {
    let h = history_of(case);
    match case["part"].as_str() {
        Some("executable") => exec_case(&h, st),
        Some("schema-adopt") => schema_case_adopt(&h, st),
        _ => {
            schema_case(&h, kf_open, st);
        }
    }
}

fn main() {
    let mut chk = Check::new("C13");
    vcore::quiet_panics();
    let kf_open = chk.known.is_open(KF_ORPHAN);
    if let Err(e) = hist::menu_self_test(MENU) {
        vcore::machinery_error(&e);
    }
    exec_schema();
    if let Some(case) = chk.replay_case() {
        let mut st = Stats::default();
        run_case(&case, kf_open, &mut st);
        chk.absorb(st);
        chk.finish_replay();
    }
    // schema side
    let depth = 4u32;
    let k = MENU.len();
    let total = hist::history_count(k, depth);
    let (stats, canon): (Stats, BTreeSet<u128>) = hist::par_sweep_acc(
        total,
        256,
        |i, st, acc: &mut BTreeSet<u128>| {
            let mut h = Vec::new();
            hist::nth_history(k, i, &mut h);
            if i % (total / 4 + 1) == total / 9 {
                st.sample(json!({"part": "schema", "history": hist::show_history(MENU, &h)}));
            }
            if let Some(c) = schema_case(&h, kf_open, st) {
                acc.insert(c);
            }
            if has_orphan_on_arrival(&h) {
                st.count("schema_histories_in_adopt_mode", 1);
                schema_case_adopt(&h, st);
            }
        },
        hist::merge_sets,
    );
    chk.absorb(stats);
    println!("schema histories {total} (depth <= {depth}), distinct canonical states (fingerprint + diagnostics) {}", canon.len());
    // thorough tier: depth 5 and 6 over a core sub-menu (one type with all its extension forms, a
    // second and third extended type, the schema definition and its extensions, a mismatched and a
    // duplicate item) - the full menu at depth 5 is 12 M histories x splits x relocations
    let mut deep = json!(null);
    if chk.tier() == vcore::Tier::Thorough {
        const CORE: &[usize] = &[0, 1, 2, 3, 4, 5, 9, 10, 11, 16, 17, 18, 22, 24];
        for (sub, d) in [(&CORE[..], 5u32), (&CORE[..9], 6u32)] {
            let kk = sub.len();
            let lo = hist::history_count(kk, 4);
            let hi = hist::history_count(kk, d);
            let (stats, _c): (Stats, BTreeSet<u128>) = hist::par_sweep_acc(
                hi - lo,
                256,
                |i, st, acc: &mut BTreeSet<u128>| {
                    let mut hh = Vec::new();
                    hist::nth_history(kk, lo + i, &mut hh);
                    let h: Vec<usize> = hh.iter().map(|&x| sub[x]).collect();
                    if let Some(c) = schema_case(&h, kf_open, st) {
                        acc.insert(c);
                    }
                    if has_orphan_on_arrival(&h) {
                        st.count("schema_histories_in_adopt_mode", 1);
                        schema_case_adopt(&h, st);
                    }
                },
                hist::merge_sets,
            );
            chk.absorb(stats);
            println!("deep schema histories: {} of length 5..={d} over {kk} core items", hi - lo);
            chk.stats.count(&format!("deep_schema_histories_len5to{d}_over_{kk}_items"), hi - lo);
        }
        deep = json!({"core_items": CORE.iter().map(|&i| MENU[i].text).collect::<Vec<_>>(), "lengths": "5 over all 14 core items, 5..=6 over the first 9"});
    }
    // executable side
    let edepth = chk.tier().pick(4u32, 5u32);
    let ek = EXEC_MENU.len();
    let etotal = hist::history_count(ek, edepth);
    let estats = vcore::par_sweep(etotal, 256, |i, st| {
        let mut h = Vec::new();
        hist::nth_history(ek, i, &mut h);
        if i % (etotal / 4 + 1) == etotal / 9 {
            st.sample(json!({"part": "executable", "history": h.iter().map(|&j| EXEC_MENU[j]).collect::<Vec<_>>().join(" ; ")}));
        }
        exec_case(&h, st);
    });
    chk.absorb(estats);
    println!("executable histories {etotal} (depth <= {edepth})");
    chk.stats.count("schema_histories", total);
    chk.stats.count("schema_distinct_canonical_states", canon.len() as u64);
    chk.stats.count("executable_histories", etotal);
    chk.bounds = json!({
        "schema_menu": MENU.iter().map(|i| i.text).collect::<Vec<_>>(),
        "schema_max_depth": depth,
        "schema_deep_part": deep,
        "schema_histories": total,
        "schema_distinct_canonical_states": canon.len(),
        "splits_per_history": "all 2^(n-1)",
        "relocations": "every type/schema definition behind each following extension of the same target, jumping over non-definitions only; every extension that precedes the definition of its target moved to just behind it",
        "executable_schema": EXEC_SCHEMA,
        "executable_menu": EXEC_MENU,
        "executable_max_depth": edepth,
        "executable_histories": etotal,
        "executable_builder_schema": ["Some(schema)", "None"],
    });
    chk.rule = "every sequence of <= max_depth menu items; per history the concatenation, every contiguous split and every \
                definition relocation are each replayed on a fresh builder; non-trivial = histories of >= 2 items that \
                produce a diagnostic or extend a type/schema they also define"
        .into();
    chk.assumptions = vec![
        "diagnostics are compared by message text (locations legitimately differ between one file and several)".into(),
        "relocation compares diagnostics as a multiset (locations move, so the sorted order may)".into(),
        "relocated definitions never jump over another definition (type-map order would legitimately change)".into(),
        "SchemaBuilder::adopt_orphan_extensions() is explored on the histories in which extensions of at least two types arrive before any definition of their type; ignore_builtin_redefinitions is not explored".into(),
    ];
    chk.finish(&|case| {
        let mut st = Stats::default();
        run_case(case, kf_open, &mut st);
        !st.failures.is_empty()
    })
}
