//! development probe: validate the schema text given as argv[1] with apollo, print the verdict
fn main() {
    let text = std::env::args().nth(1).unwrap_or_default();
    match apollo_compiler::Schema::parse_and_validate(&text, "probe.graphql") {
        Ok(_) => println!("apollo: VALID"),
        Err(e) => println!("apollo: INVALID\n{}", e.errors),
    }
}
