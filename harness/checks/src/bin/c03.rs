//! C03 — the lexer implements the GraphQL lexical grammar (DESIGN.md §6 C03).
//! E-INPUT: every string over four small alphabets up to a length bound, real `Lexer` against
//! the reference lexer `refmodel::lex`.

use apollo_parser::{Lexer, TokenKind};
use refmodel::lex::{self, Kind, Params};
use serde_json::{json, Value};
use vcore::{enumerate as en, Check, Stats};

const SIGMA_LEX: &[&str] = &[
    "a", "e", "0", "1", "-", "+", ".", "\"", "\\", "u", "n", " ", "\n", "\r", "#", "{", "!", ",",
    "é", "\u{feff}",
];
const SIGMA_NUM: &[&str] = &["0", "1", "9", "-", "+", ".", "e", "E", "a", " "];
const SIGMA_STR: &[&str] = &["\"", "\\", "u", "0", "8", "D", "F", "n", "x", "a", "é", "\n"];
// the four hex digits of one `\u` escape: every boundary of the surrogate block (D7FF|D800, DBFF|DC00,
// DFFF|E000) is spelled by these digits
const SIGMA_ESC: &[&str] = &["\"", "0", "7", "8", "B", "C", "D", "d", "E", "F", "f", "x"];
const SIGMA_BLK: &[&str] = &["\"", "\\", " ", "\t", "\n", "\r", "a", "é", "\u{feff}"];
/// punctuators, spread, names next to numbers, multi-byte and unknown characters
const SIGMA_PUN: &[&str] = &[
    ".", "$", "&", "(", ")", ":", "=", "@", "[", "]", "|", "}", "_", "Z", "9", "~", "\t", "🚀",
    "\u{2028}", "/",
];

const KF_LEADING_LT: &str = "C03-string-leading-line-terminator";

fn kind_of(k: TokenKind) -> Option<Kind> {
    Some(match k {
        TokenKind::Name => Kind::Name,
        TokenKind::Int => Kind::Int,
        TokenKind::Float => Kind::Float,
        TokenKind::StringValue => Kind::Str,
        TokenKind::Comment => Kind::Comment,
        TokenKind::Whitespace => Kind::Ws,
        TokenKind::Comma => Kind::Comma,
        TokenKind::Eof => return None,
        _ => Kind::Punct,
    })
}

/// Evaluate one input. Returns the outcome label.
fn check_input(s: &str, kf_open: bool, st: &mut Stats) {
    st.states += 1;
    st.transitions += 2;
    let fail = |st: &mut Stats, sig: &str, detail: String| {
        st.fail_simple(sig, json!({ "input": s }), detail, s.len() as u64);
    };
    let items: Vec<Result<apollo_parser::Token<'_>, apollo_parser::Error>> =
        match vcore::catch(|| Lexer::new(s).collect::<Vec<_>>()) {
            Ok(v) => v,
            Err(p) => {
                fail(st, "panic", format!("lexer panicked: {p}"));
                return;
            }
        };
    // (4) lex() equals the iterator
    let (toks, errs) = Lexer::new(s).lex();
    let it_toks: Vec<_> = items.iter().filter_map(|r| r.as_ref().ok()).cloned().collect();
    let it_errs: Vec<_> = items.iter().filter_map(|r| r.as_ref().err()).cloned().collect();
    if toks != it_toks || errs != it_errs {
        fail(st, "lex-vs-iterator", "Lexer::lex() differs from the iterator".into());
        return;
    }
    // (1) tiling
    let mut pos = 0usize;
    let mut rebuilt = String::new();
    let n = items.len();
    for (k, item) in items.iter().enumerate() {
        let (idx, text, is_eof) = match item {
            Ok(t) => (t.index(), t.data(), t.kind() == TokenKind::Eof),
            Err(e) => (e.index(), e.data(), false),
        };
        if idx != pos {
            fail(
                st,
                "tiling-gap",
                format!("item {k} starts at {idx}, previous item ended at {pos}"),
            );
            return;
        }
        if is_eof != (k + 1 == n) {
            fail(st, "tiling-eof", format!("EOF token misplaced (item {k} of {n})"));
            return;
        }
        if is_eof && (!text.is_empty() && text != "EOF") {
            fail(st, "tiling-eof", format!("EOF token carries text {text:?}"));
            return;
        }
        if !is_eof {
            rebuilt.push_str(text);
            pos += text.len();
        }
    }
    if n == 0 || rebuilt != s || pos != s.len() {
        fail(
            st,
            "tiling-text",
            format!("items concatenate to {rebuilt:?}, not to the input"),
        );
        return;
    }
    // (2) every Ok token is the maximal munch at its own offset, with the right kind
    let strict = Params::default();
    let dev = Params {
        line_terminator_allowed_as_first_string_character: true,
    };
    let mut used_known = false;
    for t in &toks {
        let Some(k) = kind_of(t.kind()) else { continue };
        let got = Some((k, t.data().len()));
        let m = lex::munch(s, t.index(), strict);
        if m != got {
            if kf_open && lex::munch(s, t.index(), dev) == got {
                used_known = true;
                continue;
            }
            fail(
                st,
                "munch",
                format!(
                    "token {:?} {:?} at {} but the grammar's longest match there is {:?}",
                    t.kind(),
                    t.data(),
                    t.index(),
                    m
                ),
            );
            return;
        }
    }
    // (3) no error  <=>  valid token sequence
    let ref_ok = lex::tokenize(s, strict).is_some();
    let impl_ok = errs.is_empty();
    if ref_ok != impl_ok {
        if kf_open && lex::tokenize(s, dev).is_some() == impl_ok {
            used_known = true;
        } else {
            fail(
                st,
                if impl_ok { "accepts-invalid" } else { "rejects-valid" },
                format!("reference lexer valid={ref_ok}, apollo errors={errs:?}"),
            );
            return;
        }
    }
    // when both accept, the token sequences are identical
    if ref_ok && impl_ok {
        let r = lex::tokenize(s, strict).unwrap();
        let a: Vec<(Kind, &str)> = toks
            .iter()
            .filter_map(|t| kind_of(t.kind()).map(|k| (k, t.data())))
            .collect();
        let rr: Vec<(Kind, &str)> = r.iter().map(|t| (t.kind, t.text)).collect();
        if a != rr {
            fail(st, "token-sequence", format!("reference {rr:?} apollo {a:?}"));
            return;
        }
    }
    if used_known {
        st.known(KF_LEADING_LT, s);
        st.outcome("known-finding");
        return;
    }
    if !impl_ok && !toks.is_empty() {
        st.nontrivial += 1;
    }
    st.outcome(if impl_ok { "valid" } else { "lexical-error" });
}

struct Space {
    name: &'static str,
    alphabet: &'static [&'static str],
    prefix: &'static str,
    quick: u32,
    thorough: u32,
}

fn main() {
    let mut chk = Check::new("C03");
    vcore::quiet_panics();
    let kf_open = chk.known.is_open(KF_LEADING_LT);
    if let Some(case) = chk.replay_case() {
        let mut st = Stats::default();
        check_input(case["input"].as_str().unwrap_or(""), kf_open, &mut st);
        chk.absorb(st);
        chk.finish_replay();
    }
    let spaces = [
        Space { name: "lex", alphabet: SIGMA_LEX, prefix: "", quick: 4, thorough: 6 },
        Space { name: "num", alphabet: SIGMA_NUM, prefix: "", quick: 6, thorough: 8 },
        Space { name: "str", alphabet: SIGMA_STR, prefix: "\"", quick: 5, thorough: 7 },
        Space { name: "esc", alphabet: SIGMA_ESC, prefix: "\"\\u", quick: 5, thorough: 6 },
        Space { name: "blk", alphabet: SIGMA_BLK, prefix: "\"\"\"", quick: 6, thorough: 8 },
        Space { name: "pun", alphabet: SIGMA_PUN, prefix: "", quick: 4, thorough: 5 },
    ];
    let mut bounds = serde_json::Map::new();
    for sp in &spaces {
        let max_len = chk.tier().pick(sp.quick, sp.thorough);
        let k = sp.alphabet.len() as u64;
        let total = en::count_upto(k, max_len);
        bounds.insert(
            sp.name.to_string(),
            json!({"alphabet": sp.alphabet, "prefix": sp.prefix, "max_len": max_len, "inputs": total}),
        );
        let stats = vcore::par_sweep(total, 16384, |i, st| {
            let mut seq = Vec::new();
            let mut body = String::new();
            en::nth_upto(k, i, &mut seq);
            en::render(sp.alphabet, &seq, &mut body);
            let s = format!("{}{}", sp.prefix, body);
            if i % (total / 3 + 1) == total / 7 {
                st.sample(json!({"space": sp.name, "input": s}));
            }
            check_input(&s, kf_open, st);
        });
        println!("space {} max_len {} inputs {}", sp.name, max_len, total);
        chk.absorb(stats);
    }
    chk.bounds = Value::Object(bounds);
    chk.rule = "every string over each alphabet up to max_len (after the prefix), in length-then-lexicographic order; \
                non-trivial = inputs with at least one lexer error and at least one token"
        .into();
    chk.assumptions = vec![
        "reference lexer refmodel::lex transcribes spec §2.1 (October 2021) correctly; its unit tests are the spec examples".into(),
        "how the lexer re-synchronises after an error is not compared".into(),
    ];
    chk.finish(&|case| {
        let mut st = Stats::default();
        check_input(case["input"].as_str().unwrap_or(""), kf_open, &mut st);
        !st.failures.is_empty()
    })
}
