//! C25 — the introspection depth limit does not depend on fragments (DESIGN.md §6 C25).
//!
//! E-INPUT: every introspection operation `{ __type(name: "Query") { S } }` (+ 0..2 named
//! fragments on `__Type`) from the grammar below, within explicit shape limits whose measured
//! size is printed. Each document is really validated against a schema, then
//! `introspection::check_max_depth` is compared with
//!   (a) the reference verdict `refmodel::listdepth::rejects` (expand, count list fields), and
//!   (b) its own verdict on the fragment-expanded text (differential twin).
//!
//! Grammar (selection sets on `__Type`):
//!   set   := [x] | [l, l'] | [l, c] | [c, l]           (≤ 2 selections, at most one composite;
//!            [c, c'] sibling pairs at the top of the main selection in their own sub-space)
//!   l     := name | ...F0 | ...F1
//!   c     := ofType {set} | interfaces {set} | possibleTypes {set} | ... on __Type {set} | ... {set}
//!          | fields { type {set} } | inputFields { type {set} }
//!          | fields { name type {set} } | inputFields { name type {set} }
//!          | fields { name } | inputFields { name }
//! A *level* is one `c`; the bound is on the nesting depth of levels per part and on the total
//! number of composite nodes (fields with a selection set + inline fragments).

use apollo_compiler::validation::Valid;
use apollo_compiler::{introspection, ExecutableDocument, Schema};
use refmodel::ast::{Definition, Document, Field, Fragment, Operation, Selection, Value as GV};
use refmodel::listdepth::{self, Switches};
use serde_json::{json, Value};
use vcore::{Check, Stats, Tier};

const KF_REUSE: &str = "C25-fragment-reuse-depth";
const SCHEMA: &str = "type Query { f: Int }";

#[derive(Clone, Copy, PartialEq, Eq, Debug)]
enum Kind {
    OfType,
    Interfaces,
    PossibleTypes,
    InlineOn,
    Inline,
    FieldsType,
    InputFieldsType,
    FieldsNameType,
    InputFieldsNameType,
    FieldsName,
    InputFieldsName,
}

impl Kind {
    fn label(self) -> &'static str {
        match self {
            Kind::OfType => "ofType",
            Kind::Interfaces => "interfaces",
            Kind::PossibleTypes => "possibleTypes",
            Kind::InlineOn => "...on",
            Kind::Inline => "...",
            Kind::FieldsType => "fields.type",
            Kind::InputFieldsType => "inputFields.type",
            Kind::FieldsNameType => "fields.name+type",
            Kind::InputFieldsNameType => "inputFields.name+type",
            Kind::FieldsName => "fields.name",
            Kind::InputFieldsName => "inputFields.name",
        }
    }
    fn from_label(s: &str) -> Option<Kind> {
        ALL_KINDS.iter().copied().find(|k| k.label() == s)
    }
    fn terminal(self) -> bool {
        matches!(self, Kind::FieldsName | Kind::InputFieldsName)
    }
    /// composite nodes contributed by the level itself
    fn composites(self) -> u32 {
        match self {
            Kind::FieldsType
            | Kind::InputFieldsType
            | Kind::FieldsNameType
            | Kind::InputFieldsNameType => 2,
            _ => 1,
        }
    }
}

const ALL_KINDS: [Kind; 11] = [
    Kind::OfType,
    Kind::Interfaces,
    Kind::PossibleTypes,
    Kind::InlineOn,
    Kind::Inline,
    Kind::FieldsType,
    Kind::InputFieldsType,
    Kind::FieldsNameType,
    Kind::InputFieldsNameType,
    Kind::FieldsName,
    Kind::InputFieldsName,
];

#[derive(Clone, PartialEq, Eq, Debug)]
enum Node {
    Leaf,
    Spread(u8),
    Comp(Kind, Vec<Node>),
}

type Set = Vec<Node>;

fn to_selection(set: &[Node]) -> Vec<Selection> {
    set.iter()
        .map(|n| match n {
            Node::Leaf => Selection::field("name"),
            Node::Spread(k) => Selection::spread(&format!("F{k}")),
            Node::Comp(k, s) => {
                let inner = to_selection(s);
                let f = |n: &str, sel: Vec<Selection>| -> Selection { Field::new(n).sel(sel).into() };
                match k {
                    Kind::OfType => f("ofType", inner),
                    Kind::Interfaces => f("interfaces", inner),
                    Kind::PossibleTypes => f("possibleTypes", inner),
                    Kind::InlineOn => Selection::inline(Some("__Type"), inner),
                    Kind::Inline => Selection::inline(None, inner),
                    Kind::FieldsType => f("fields", vec![f("type", inner)]),
                    Kind::InputFieldsType => f("inputFields", vec![f("type", inner)]),
                    Kind::FieldsNameType => {
                        f("fields", vec![Selection::field("name"), f("type", inner)])
                    }
                    Kind::InputFieldsNameType => {
                        f("inputFields", vec![Selection::field("name"), f("type", inner)])
                    }
                    Kind::FieldsName => f("fields", vec![Selection::field("name")]),
                    Kind::InputFieldsName => f("inputFields", vec![Selection::field("name")]),
                }
            }
        })
        .collect()
}

fn set_to_json(set: &[Node]) -> Value {
    Value::Array(
        set.iter()
            .map(|n| match n {
                Node::Leaf => json!("name"),
                Node::Spread(k) => json!(format!("F{k}")),
                Node::Comp(k, s) => json!({"k": k.label(), "s": set_to_json(s)}),
            })
            .collect(),
    )
}

fn set_from_json(v: &Value) -> Option<Set> {
    v.as_array()?
        .iter()
        .map(|n| {
            if let Some(s) = n.as_str() {
                if s == "name" {
                    Some(Node::Leaf)
                } else {
                    s.strip_prefix('F')?.parse::<u8>().ok().map(Node::Spread)
                }
            } else {
                let k = Kind::from_label(n["k"].as_str()?)?;
                Some(Node::Comp(k, set_from_json(&n["s"])?))
            }
        })
        .collect()
}

/// (composite nodes, spreads of F0, spreads of F1)
fn measure(set: &[Node]) -> (u32, u32, u32) {
    let mut m = (0, 0, 0);
    for n in set {
        match n {
            Node::Leaf => {}
            Node::Spread(0) => m.1 += 1,
            Node::Spread(_) => m.2 += 1,
            Node::Comp(k, s) => {
                let i = measure(s);
                m.0 += k.composites() + i.0;
                m.1 += i.1;
                m.2 += i.2;
            }
        }
    }
    m
}

#[derive(Clone, Debug)]
struct Menu {
    kinds: Vec<Kind>,
    two_lights: bool,
    light_before: bool,
    light_after: bool,
}

impl Menu {
    fn json(&self) -> Value {
        json!({
            "level_kinds": self.kinds.iter().map(|k| k.label()).collect::<Vec<_>>(),
            "set_forms": {
                "[x]": true, "[l,l']": self.two_lights, "[l,c]": self.light_before, "[c,l]": self.light_after
            },
        })
    }
}

/// composite items of nesting depth ≤ `depth` (≥ 1)
fn gen_comps(menu: &Menu, depth: u32, nfr: u8) -> Vec<Node> {
    let mut comps = Vec::new();
    if depth == 0 {
        return comps;
    }
    let inner = gen_sets(menu, depth - 1, nfr);
    for &k in &menu.kinds {
        if k.terminal() {
            comps.push(Node::Comp(k, vec![]));
        } else {
            for s in &inner {
                comps.push(Node::Comp(k, s.clone()));
            }
        }
    }
    comps
}

/// all selection sets on `__Type` with level nesting ≤ `depth`, spreads drawn from `nfr` fragments
fn gen_sets(menu: &Menu, depth: u32, nfr: u8) -> Vec<Set> {
    let mut lights = vec![Node::Leaf];
    for k in 0..nfr {
        lights.push(Node::Spread(k));
    }
    let comps = gen_comps(menu, depth, nfr);
    let mut out: Vec<Set> = Vec::new();
    for l in &lights {
        out.push(vec![l.clone()]);
    }
    if menu.two_lights {
        for l in &lights {
            for l2 in &lights {
                out.push(vec![l.clone(), l2.clone()]);
            }
        }
    }
    for c in &comps {
        out.push(vec![c.clone()]);
    }
    if menu.light_before {
        for l in &lights {
            for c in &comps {
                out.push(vec![l.clone(), c.clone()]);
            }
        }
    }
    if menu.light_after {
        for c in &comps {
            for l in &lights {
                out.push(vec![c.clone(), l.clone()]);
            }
        }
    }
    out
}

struct Part {
    sets: Vec<Set>,
    sels: Vec<Vec<Selection>>,
    meas: Vec<(u32, u32, u32)>,
}

impl Part {
    fn new(sets: Vec<Set>) -> Part {
        let sels = sets.iter().map(|s| to_selection(s)).collect();
        let meas = sets.iter().map(|s| measure(s)).collect();
        Part { sets, sels, meas }
    }
    fn len(&self) -> u64 {
        self.sets.len() as u64
    }
}

/// One sub-space: main selections × F0 bodies × F1 bodies.
struct Space {
    name: &'static str,
    nfr: u8,
    main: Part,
    f0: Option<Part>,
    f1: Option<Part>,
    max_composites: u32,
    describe: Value,
}

impl Space {
    fn product(&self) -> u64 {
        self.main.len()
            * self.f0.as_ref().map_or(1, |p| p.len())
            * self.f1.as_ref().map_or(1, |p| p.len())
    }
}

fn build_doc(main: &[Selection], f0: Option<&[Selection]>, f1: Option<&[Selection]>) -> Document {
    let root: Selection =
        Field::new("__type").arg("name", GV::str("Query")).sel(main.to_vec()).into();
    let mut op = Operation::query(vec![root]);
    op.shorthand = true;
    let mut d = Document { defs: vec![Definition::Operation(op)] };
    for (name, body) in [("F0", f0), ("F1", f1)] {
        if let Some(b) = body {
            d.defs.push(Definition::Fragment(Fragment {
                name: name.into(),
                on: "__Type".into(),
                directives: vec![],
                selection: b.to_vec(),
            }));
        }
    }
    d
}

#[derive(PartialEq, Eq, Clone, Copy, Debug)]
enum Verdict {
    Accept,
    Reject,
}

/// Validate `text` and run the real depth check. `Err` = the document did not validate or the
/// check failed in an unexpected way (a defect of the generator, not of apollo-rs).
fn apollo_verdict(schema: &Valid<Schema>, text: &str) -> Result<Verdict, String> {
    let doc = ExecutableDocument::parse_and_validate(schema, text, "q.graphql")
        .map_err(|e| format!("document does not validate: {}", e.errors))?;
    let op = doc.operations.get(None).map_err(|_| "no operation".to_string())?;
    match vcore::catch(|| introspection::check_max_depth(&doc, op)) {
        Err(p) => Err(format!("check_max_depth panicked: {p}")),
        Ok(Ok(())) => Ok(Verdict::Accept),
        Ok(Err(e)) => {
            let m = e.message().to_string();
            if m == "Maximum introspection depth exceeded" {
                Ok(Verdict::Reject)
            } else {
                Err(format!("unexpected request error: {m}"))
            }
        }
    }
}

struct Ctx {
    schema: Valid<Schema>,
    kf_open: bool,
}

fn case_json(main: &[Node], f0: Option<&[Node]>, f1: Option<&[Node]>) -> Value {
    json!({
        "main": set_to_json(main),
        "f0": f0.map(set_to_json),
        "f1": f1.map(set_to_json),
    })
}

fn run_doc(ctx: &Ctx, doc: &Document, case: &dyn Fn() -> Value, nfr: u8, st: &mut Stats) {
    st.states += 1;
    st.transitions += 2;
    let text = doc.print();
    let expanded = listdepth::expand(doc);
    let exp_text = expanded.print();
    let op = doc.operations().next().unwrap();
    let depth = listdepth::max_list_depth(doc, op);
    let o = if depth >= listdepth::MAX_LISTS_DEPTH { Verdict::Reject } else { Verdict::Accept };
    let size = text.len() as u64;
    let (i, i_exp) = match (apollo_verdict(&ctx.schema, &text), apollo_verdict(&ctx.schema, &exp_text)) {
        (Ok(a), Ok(b)) => (a, b),
        (a, b) => {
            // the generator must only produce valid documents
            st.count("generator_invalid_documents", 1);
            st.fail_simple(
                "machinery:document-not-processed",
                case(),
                format!("original: {a:?}; expanded: {b:?}; text: {text}"),
                size,
            );
            return;
        }
    };
    let mut spread_sites = 0;
    count_spreads(&doc_selection_all(doc), &mut spread_sites);
    if spread_sites >= 2 || o == Verdict::Reject {
        st.nontrivial += 1;
    }
    if i == o && i_exp == o {
        st.outcome(&format!(
            "{} depth={} fragments={}",
            if o == Verdict::Reject { "reject" } else { "accept" },
            depth.min(4),
            nfr
        ));
        return;
    }
    // disagreement: try the listed deviation
    if ctx.kf_open {
        let o_dev = if listdepth::rejects_with(doc, op, Switches { memoised_fragment_depth: true }) {
            Verdict::Reject
        } else {
            Verdict::Accept
        };
        // the expanded text has no named fragment, so the deviation cannot apply to it
        if i == o_dev && o_dev != o && i_exp == o {
            st.known(KF_REUSE, &text);
            st.outcome(&format!("known-finding depth={} fragments={}", depth.min(4), nfr));
            return;
        }
    }
    let sig = if i != o {
        if i == Verdict::Accept { "accepts-deep-nesting" } else { "rejects-shallow-nesting" }
    } else {
        "expanded-text-verdict-differs"
    };
    st.fail_simple(
        sig,
        case(),
        format!(
            "reference: {o:?} (max list nesting {depth}); check_max_depth on original: {i:?}, on expanded: {i_exp:?}; original: {text} ; expanded: {exp_text}"
        ),
        size,
    );
}

fn doc_selection_all(doc: &Document) -> Vec<Selection> {
    let mut v = Vec::new();
    for d in &doc.defs {
        match d {
            Definition::Operation(o) => v.extend(o.selection.iter().cloned()),
            Definition::Fragment(f) => v.extend(f.selection.iter().cloned()),
            _ => {}
        }
    }
    v
}

fn count_spreads(sel: &[Selection], n: &mut u32) {
    for s in sel {
        match s {
            Selection::Spread { .. } => *n += 1,
            Selection::Field(f) => count_spreads(&f.selection, n),
            Selection::Inline { selection, .. } => count_spreads(selection, n),
        }
    }
}

fn run_case(ctx: &Ctx, case: &Value, st: &mut Stats) {
    let Some(main) = set_from_json(&case["main"]) else {
        vcore::machinery_error("replay case: bad main selection")
    };
    let f0 = if case["f0"].is_null() { None } else { set_from_json(&case["f0"]) };
    let f1 = if case["f1"].is_null() { None } else { set_from_json(&case["f1"]) };
    let nfr = f0.is_some() as u8 + f1.is_some() as u8;
    let ms = to_selection(&main);
    let s0 = f0.as_ref().map(|s| to_selection(s));
    let s1 = f1.as_ref().map(|s| to_selection(s));
    let doc = build_doc(&ms, s0.as_deref(), s1.as_deref());
    let c = case.clone();
    run_doc(ctx, &doc, &move || c.clone(), nfr, st);
}

fn spaces(tier: Tier) -> Vec<Space> {
    use Kind::*;
    let full = Menu {
        kinds: ALL_KINDS.to_vec(),
        two_lights: true,
        light_before: true,
        light_after: true,
    };
    // one representative per kind of level: plain list, list reached through __Field /
    // __InputValue, non-list, inline fragment; the two terminal forms
    let rep = Menu {
        kinds: vec![OfType, Interfaces, PossibleTypes, InlineOn, FieldsType, InputFieldsType, FieldsName, InputFieldsName],
        two_lights: true,
        light_before: true,
        light_after: true,
    };
    let lists = Menu {
        kinds: vec![Interfaces, PossibleTypes, FieldsType, InputFieldsType, InlineOn],
        two_lights: true,
        light_before: true,
        light_after: true,
    };
    let small = Menu {
        kinds: vec![Interfaces, FieldsType, InlineOn],
        two_lights: true,
        light_before: true,
        light_after: true,
    };
    let tiny = Menu { kinds: vec![Interfaces, InputFieldsType], two_lights: false, light_before: true, light_after: true };
    let mut v = Vec::new();
    let maxc = tier.pick(7, 9);
    let mk = |name: &'static str,
              nfr: u8,
              main: (&Menu, u32),
              f0: Option<(&Menu, u32)>,
              f1: Option<(&Menu, u32)>|
     -> Space {
        Space {
            name,
            nfr,
            main: Part::new(gen_sets(main.0, main.1, nfr)),
            f0: f0.map(|(m, d)| Part::new(gen_sets(m, d, 0))),
            f1: f1.map(|(m, d)| Part::new(gen_sets(m, d, 1))),
            max_composites: maxc,
            describe: json!({
                "fragments": nfr,
                "main": {"menu": main.0.json(), "max_level_nesting": main.1},
                "F0_body": f0.map(|(m, d)| json!({"menu": m.json(), "max_level_nesting": d})),
                "F1_body": f1.map(|(m, d)| json!({"menu": m.json(), "max_level_nesting": d, "may_spread": "F0"})),
            }),
        }
    };
    match tier {
        Tier::Quick => {
            v.push(mk("no-fragment", 0, (&rep, 3), None, None));
            v.push(mk("no-fragment-deep-lists", 0, (&lists, 4), None, None));
            v.push(mk("one-fragment-a", 1, (&rep, 2), Some((&rep, 1)), None));
            v.push(mk("one-fragment-b", 1, (&rep, 1), Some((&rep, 2)), None));
            // main and body both two levels deep: a body whose depth comes from a level nested in
            // another level (inline fragment, `fields { type }`), spread shallow and again deep
            v.push(mk("one-fragment-c", 1, (&small, 2), Some((&small, 2)), None));
            v.push(mk("two-fragments", 2, (&small, 1), Some((&small, 1)), Some((&small, 1))));
        }
        Tier::Thorough => {
            v.push(mk("no-fragment", 0, (&full, 3), None, None));
            v.push(mk("no-fragment-deep-lists", 0, (&lists, 4), None, None));
            v.push(mk("one-fragment-a", 1, (&full, 2), Some((&rep, 1)), None));
            v.push(mk("one-fragment-b", 1, (&rep, 1), Some((&full, 2)), None));
            v.push(mk("one-fragment-c", 1, (&small, 3), Some((&small, 2)), None));
            v.push(mk("two-fragments", 2, (&small, 1), Some((&lists, 1)), Some((&lists, 1))));
            v.push(mk("two-fragments-deep-main", 2, (&tiny, 2), Some((&tiny, 1)), Some((&tiny, 1))));
        }
    }
    v
}

/// sibling pairs `[c, c']` at the top of the main selection (one fragment)
fn sibling_space(tier: Tier) -> Space {
    use Kind::*;
    let m = Menu {
        kinds: match tier {
            Tier::Quick => vec![Interfaces, InputFieldsType],
            Tier::Thorough => vec![Interfaces, PossibleTypes, InputFieldsType, InlineOn],
        },
        two_lights: false,
        light_before: true,
        light_after: true,
    };
    let comps = gen_comps(&m, 2, 1);
    let mut mains = Vec::new();
    for a in &comps {
        for b in &comps {
            mains.push(vec![a.clone(), b.clone()]);
        }
    }
    Space {
        name: "one-fragment-sibling-pairs",
        nfr: 1,
        main: Part::new(mains),
        f0: Some(Part::new(gen_sets(&m, 1, 0))),
        f1: None,
        max_composites: tier.pick(7, 9),
        describe: json!({
            "fragments": 1,
            "main": {"form": "[c, c'] with c, c' composite items of level nesting ≤ 2", "menu": m.json()},
            "F0_body": {"menu": m.json(), "max_level_nesting": 1},
        }),
    }
}

fn main() {
    let mut chk = Check::new("C25");
    vcore::quiet_panics();
    let schema = Schema::parse_and_validate(SCHEMA, "schema.graphql")
        .unwrap_or_else(|e| vcore::machinery_error(&format!("schema: {}", e.errors)));
    let ctx = Ctx { schema, kf_open: chk.known.is_open(KF_REUSE) };
    if let Some(case) = chk.replay_case() {
        let mut st = Stats::default();
        run_case(&ctx, &case, &mut st);
        chk.absorb(st);
        chk.finish_replay();
    }
    let tier = chk.tier();
    let mut all = spaces(tier);
    all.push(sibling_space(tier));
    let mut bounds = serde_json::Map::new();
    for sp in &all {
        let total = sp.product();
        let n0 = sp.f0.as_ref().map_or(1, |p| p.len());
        let n1 = sp.f1.as_ref().map_or(1, |p| p.len());
        let stats = vcore::par_sweep(total, 4096, |idx, st| {
            let i1 = idx % n1;
            let i0 = (idx / n1) % n0;
            let im = idx / (n1 * n0);
            let (mc, m0, m1) = sp.main.meas[im as usize];
            let (b0c, _, _) = sp.f0.as_ref().map_or((0, 0, 0), |p| p.meas[i0 as usize]);
            let (b1c, b1s0, _) = sp.f1.as_ref().map_or((0, 0, 0), |p| p.meas[i1 as usize]);
            // shape limits: every defined fragment is used; each is spread at ≤ 3 places;
            // total composite nodes bounded
            let uses0 = m0 + b1s0;
            let uses1 = m1;
            let ok = match sp.nfr {
                0 => true,
                1 => (1..=3).contains(&uses0),
                _ => (1..=3).contains(&uses0) && (1..=3).contains(&uses1),
            };
            if !ok || mc + b0c + b1c > sp.max_composites {
                return;
            }
            let f0 = sp.f0.as_ref().map(|p| p.sels[i0 as usize].as_slice());
            let f1 = sp.f1.as_ref().map(|p| p.sels[i1 as usize].as_slice());
            let doc = build_doc(&sp.main.sels[im as usize], f0, f1);
            let case = || {
                case_json(
                    &sp.main.sets[im as usize],
                    sp.f0.as_ref().map(|p| p.sets[i0 as usize].as_slice()),
                    sp.f1.as_ref().map(|p| p.sets[i1 as usize].as_slice()),
                )
            };
            if idx % (total / 2 + 1) == total / 5 {
                st.sample(json!({"space": sp.name, "document": doc.print()}));
            }
            let before = st.states;
            run_doc(&ctx, &doc, &case, sp.nfr, st);
            st.count(&format!("documents[{}]", sp.name), st.states - before);
        });
        let explored = stats.counters.get(&format!("documents[{}]", sp.name)).copied().unwrap_or(0);
        println!("space {} candidates {} explored {}", sp.name, total, explored);
        let mut d = sp.describe.clone();
        d["candidate_combinations"] = json!(total);
        d["documents_within_limits"] = json!(explored);
        d["max_composite_nodes"] = json!(sp.max_composites);
        bounds.insert(sp.name.to_string(), d);
        chk.absorb(stats);
    }
    bounds.insert(
        "limits".into(),
        json!("≤ 2 selections per set; each named fragment spread at 1..3 places (F1 may spread F0); every fragment used; sub-spaces overlap (a document may be explored in two sub-spaces)"),
    );
    chk.bounds = Value::Object(bounds);
    chk.rule = "every document of every listed sub-space (full product of main selection × fragment bodies, filtered by the stated limits); \
                non-trivial = the reference rejects, or the document has ≥ 2 fragment-spread sites"
        .into();
    chk.assumptions = vec![
        "the four list fields are identified by field name (as the property statement lists them); aliases, directives and variables are not in the grammar".into(),
        "documents are validated against `type Query { f: Int }` and `__type(name: \"Query\")` is the only root field".into(),
        "only the verdict (Ok / 'Maximum introspection depth exceeded') is compared, not the reported location".into(),
    ];
    let gen_bad = chk.stats.counters.get("generator_invalid_documents").copied().unwrap_or(0);
    if gen_bad > 0 {
        chk.note(format!("{gen_bad} generated documents were not processed (see violation class machinery:document-not-processed)"));
    }
    chk.finish(&|case| {
        let mut st = Stats::default();
        run_case(&ctx, case, &mut st);
        !st.failures.is_empty()
    })
}
