//! C11 — source locations and line/column positions are correct (DESIGN.md §6 C11).
//! E-INPUT: five small base documents (schema + executable in one text), re-laid-out with a
//! separator chosen per token gap and a payload chosen per string token; all assignments with
//! at most k non-default choice points. Oracles: (1) every Node / Name of the AST, the Schema and
//! the ExecutableDocument has a location inside its file and a name's location is the name;
//! (2) `SourceFile::get_line_column` equals `refmodel::linecol` at every char-boundary offset;
//! (3) for "undefined field" / "undefined type" variants, the diagnostic sits on the replaced
//! name and `line_column_range()` / `to_json().locations` equal the reference positions.

use apollo_compiler::ast;
use apollo_compiler::diagnostic::ToCliReport;
use apollo_compiler::executable as ex;
use apollo_compiler::parser::{Parser, SourceMap, SourceSpan};
use apollo_compiler::schema as sc;
use apollo_compiler::{Name, Node};
use refmodel::lex::Kind;
use refmodel::linecol::{self, Params, Piece};
use serde_json::{json, Value};
use vcore::{Check, Stats};

const KF_BYTES: &str = "C11-column-counts-bytes";
const KF_SEPS: &str = "C11-extra-line-separators";
const KF_EOF: &str = "C11-eof-after-final-terminator";

/// Non-default separators (the default is one space inside, nothing before / after the document).
const SEPARATORS: [&str; 12] = [
    "\n",
    "\r\n",
    "\r",
    "\t",
    ",",
    "\u{feff}",
    "# c\n",
    "#é中🚀\n",
    "#\u{2028}\n",
    "#\u{85}\n",
    "#\u{0C}\n",
    "#\u{0B}\n",
];
/// Menus used for the third non-default choice point level (thorough tier): the three line
/// terminators, a multibyte comment, a U+2028 comment; the multibyte string and the block string.
const REDUCED_SEPARATORS: [usize; 5] = [0, 1, 2, 7, 8];
const REDUCED_STRINGS: [usize; 2] = [0, 4];
/// Non-default texts for a string token (the default is the base document's own string).
const STRINGS: [&str; 5] = ["\"é中🚀\"", "\"\u{2028}\"", "\"\u{85}\"", "\"\u{0C}\"", "\"\"\"é\n🚀\"\"\""];

struct Variant {
    label: &'static str,
    /// text of the name token to replace and which occurrence of it (0-based)
    target: &'static str,
    occurrence: usize,
    replacement: &'static str,
    message_contains: &'static str,
}

struct BaseSpec {
    name: &'static str,
    text: &'static str,
    variants: &'static [Variant],
}

const BASES: &[BaseSpec] = &[
    BaseSpec {
        name: "object-field-argument",
        text: "type Query { fa(ar: String): Int } { fa(ar: \"s\") }",
        variants: &[
            Variant { label: "undefined-field", target: "fa", occurrence: 1, replacement: "zz", message_contains: "does not have a field `zz`" },
            Variant { label: "undefined-type", target: "String", occurrence: 0, replacement: "Zz", message_contains: "cannot find type `Zz`" },
        ],
    },
    BaseSpec {
        name: "schema-enum",
        text: "schema { query: Qy } type Qy { fe: En } enum En { VA } { fe }",
        variants: &[
            Variant { label: "undefined-field", target: "fe", occurrence: 1, replacement: "zz", message_contains: "does not have a field `zz`" },
            Variant { label: "undefined-type", target: "En", occurrence: 0, replacement: "Zz", message_contains: "cannot find type `Zz`" },
        ],
    },
    BaseSpec {
        name: "directive-description",
        text: "\"dq\" type Query { fs: Int @dd(s: \"s\") } directive @dd(s: String) on FIELD_DEFINITION",
        variants: &[
            Variant { label: "undefined-type", target: "String", occurrence: 0, replacement: "Zz", message_contains: "cannot find type `Zz`" },
        ],
    },
    BaseSpec {
        name: "input-variable",
        text: "type Query { fi(ai: In): Int } input In { x: Int } query Op($va: In = {x: 1}) { fi(ai: $va) }",
        variants: &[
            Variant { label: "undefined-field", target: "fi", occurrence: 1, replacement: "zz", message_contains: "does not have a field `zz`" },
        ],
    },
    BaseSpec {
        name: "fragments-alias",
        text: "type Query { fq: Query fn: Int } { al: fq { ...Fr ... on Query { fn } } } fragment Fr on Query { fn }",
        variants: &[
            Variant { label: "undefined-field", target: "fn", occurrence: 2, replacement: "zz", message_contains: "does not have a field `zz`" },
        ],
    },
];

struct Base {
    spec: &'static BaseSpec,
    pieces: Vec<Piece>,
    /// indices of string pieces (payload slots)
    slots: Vec<usize>,
    /// per variant: index of the replaced piece
    variant_piece: Vec<usize>,
}

impl Base {
    fn new(spec: &'static BaseSpec) -> Base {
        let pieces = linecol::pieces(spec.text);
        let slots = pieces.iter().enumerate().filter(|(_, p)| p.kind == Kind::Str).map(|(i, _)| i).collect();
        let variant_piece = spec
            .variants
            .iter()
            .map(|v| {
                pieces
                    .iter()
                    .enumerate()
                    .filter(|(_, p)| p.kind == Kind::Name && p.text == v.target)
                    .map(|(i, _)| i)
                    .nth(v.occurrence)
                    .unwrap_or_else(|| panic!("variant target {} not found in {}", v.target, spec.name))
            })
            .collect();
        Base { spec, pieces, slots, variant_piece }
    }
    fn gaps(&self) -> usize {
        self.pieces.len() + 1
    }
    /// choice points: gaps first, then string slots
    fn points(&self) -> usize {
        self.gaps() + self.slots.len()
    }
    /// Alternatives (indices into SEPARATORS / STRINGS) of a choice point. Assignments with three
    /// non-default points use the reduced menus.
    fn alternatives(&self, point: usize, reduced: bool) -> &'static [usize] {
        const ALL_SEPS: [usize; 12] = [0, 1, 2, 3, 4, 5, 6, 7, 8, 9, 10, 11];
        const ALL_STRS: [usize; 5] = [0, 1, 2, 3, 4];
        match (point < self.gaps(), reduced) {
            (true, false) => &ALL_SEPS,
            (true, true) => &REDUCED_SEPARATORS,
            (false, false) => &ALL_STRS,
            (false, true) => &REDUCED_STRINGS,
        }
    }
    /// The laid-out text and the offset of every piece.
    fn layout(&self, variant: Option<usize>, assignment: &[(usize, usize)]) -> (String, Vec<usize>, Vec<Piece>) {
        let mut pieces = self.pieces.clone();
        if let Some(v) = variant {
            pieces[self.variant_piece[v]].text = self.spec.variants[v].replacement.to_string();
        }
        let n = pieces.len();
        let mut seps: Vec<&str> = vec![" "; n + 1];
        seps[0] = "";
        seps[n] = "";
        for &(point, alt) in assignment {
            if point < self.gaps() {
                seps[point] = SEPARATORS[alt];
            } else {
                pieces[self.slots[point - self.gaps()]].text = STRINGS[alt].to_string();
            }
        }
        let (s, offs) = linecol::join(&pieces, &seps);
        (s, offs, pieces)
    }
}

// ---------------------------------------------------------------------------------
// Walkers: every Node / Name reachable through public fields
// ---------------------------------------------------------------------------------

#[derive(Default)]
struct Walk {
    /// (what, name text, location)
    names: Vec<(&'static str, String, Option<SourceSpan>)>,
    /// (what, location)
    nodes: Vec<(&'static str, Option<SourceSpan>)>,
    explicit_schema: bool,
    synthesized_skipped: u64,
}

impl Walk {
    fn name(&mut self, what: &'static str, n: &Name) {
        self.names.push((what, n.as_str().to_string(), n.location()));
    }
    fn node<T: ?Sized>(&mut self, what: &'static str, n: &Node<T>) {
        self.nodes.push((what, n.location()));
    }
    fn ty(&mut self, t: &ast::Type) {
        match t {
            ast::Type::Named(n) | ast::Type::NonNullNamed(n) => self.name("type reference", n),
            ast::Type::List(inner) | ast::Type::NonNullList(inner) => self.ty(inner),
        }
    }
    fn value(&mut self, v: &Node<ast::Value>) {
        self.node("value", v);
        match &**v {
            ast::Value::Enum(n) => self.name("enum value", n),
            ast::Value::Variable(n) => self.name("variable", n),
            ast::Value::List(items) => items.iter().for_each(|i| self.value(i)),
            ast::Value::Object(fields) => {
                for (k, v) in fields {
                    self.name("object field name", k);
                    self.value(v);
                }
            }
            _ => {}
        }
    }
    fn arguments(&mut self, args: &[Node<ast::Argument>]) {
        for a in args {
            self.node("argument", a);
            self.name("argument name", &a.name);
            self.value(&a.value);
        }
    }
    fn directive(&mut self, d: &Node<ast::Directive>) {
        self.node("directive", d);
        self.name("directive name", &d.name);
        self.arguments(&d.arguments);
    }
    fn directives(&mut self, ds: &ast::DirectiveList) {
        ds.iter().for_each(|d| self.directive(d));
    }
    fn description(&mut self, d: &Option<Node<str>>) {
        if let Some(d) = d {
            self.node("description", d);
        }
    }
    fn variables(&mut self, vars: &[Node<ast::VariableDefinition>]) {
        for v in vars {
            self.node("variable definition", v);
            self.name("variable definition name", &v.name);
            self.node("variable type", &v.ty);
            self.ty(&v.ty);
            if let Some(d) = &v.default_value {
                self.value(d);
            }
            self.directives(&v.directives);
        }
    }
    fn input_value(&mut self, v: &Node<ast::InputValueDefinition>) {
        self.node("input value definition", v);
        self.description(&v.description);
        self.name("input value name", &v.name);
        self.node("input value type", &v.ty);
        self.ty(&v.ty);
        if let Some(d) = &v.default_value {
            self.value(d);
        }
        self.directives(&v.directives);
    }
    fn field_definition(&mut self, f: &Node<ast::FieldDefinition>) {
        self.node("field definition", f);
        self.description(&f.description);
        self.name("field definition name", &f.name);
        f.arguments.iter().for_each(|a| self.input_value(a));
        self.ty(&f.ty);
        self.directives(&f.directives);
    }
    fn enum_value_definition(&mut self, v: &Node<ast::EnumValueDefinition>) {
        self.node("enum value definition", v);
        self.description(&v.description);
        self.name("enum value definition name", &v.value);
        self.directives(&v.directives);
    }
    fn directive_definition(&mut self, d: &Node<ast::DirectiveDefinition>) {
        self.node("directive definition", d);
        self.description(&d.description);
        self.name("directive definition name", &d.name);
        d.arguments.iter().for_each(|a| self.input_value(a));
    }

    // ---- ast::Document
    fn ast_selection_set(&mut self, set: &[ast::Selection]) {
        for s in set {
            match s {
                ast::Selection::Field(f) => {
                    self.node("field", f);
                    if let Some(a) = &f.alias {
                        self.name("alias", a);
                    }
                    self.name("field name", &f.name);
                    self.arguments(&f.arguments);
                    self.directives(&f.directives);
                    self.ast_selection_set(&f.selection_set);
                }
                ast::Selection::FragmentSpread(f) => {
                    self.node("fragment spread", f);
                    self.name("fragment spread name", &f.fragment_name);
                    self.directives(&f.directives);
                }
                ast::Selection::InlineFragment(f) => {
                    self.node("inline fragment", f);
                    if let Some(t) = &f.type_condition {
                        self.name("type condition", t);
                    }
                    self.directives(&f.directives);
                    self.ast_selection_set(&f.selection_set);
                }
            }
        }
    }
    fn ast_roots(&mut self, roots: &[Node<(ast::OperationType, ast::NamedType)>]) {
        for r in roots {
            self.node("root operation type definition", r);
            self.name("root operation type name", &r.1);
        }
    }
    fn ast_document(&mut self, doc: &ast::Document) {
        use ast::Definition as D;
        for def in &doc.definitions {
            match def {
                D::OperationDefinition(o) => {
                    self.node("operation definition", o);
                    if let Some(n) = &o.name {
                        self.name("operation name", n);
                    }
                    self.variables(&o.variables);
                    self.directives(&o.directives);
                    self.ast_selection_set(&o.selection_set);
                }
                D::FragmentDefinition(f) => {
                    self.node("fragment definition", f);
                    self.name("fragment name", &f.name);
                    self.name("type condition", &f.type_condition);
                    self.directives(&f.directives);
                    self.ast_selection_set(&f.selection_set);
                }
                D::DirectiveDefinition(d) => self.directive_definition(d),
                D::SchemaDefinition(s) => {
                    self.node("schema definition", s);
                    self.description(&s.description);
                    self.directives(&s.directives);
                    self.ast_roots(&s.root_operations);
                }
                D::SchemaExtension(s) => {
                    self.node("schema extension", s);
                    self.directives(&s.directives);
                    self.ast_roots(&s.root_operations);
                }
                D::ScalarTypeDefinition(t) => {
                    self.node("scalar type definition", t);
                    self.description(&t.description);
                    self.name("type name", &t.name);
                    self.directives(&t.directives);
                }
                D::ScalarTypeExtension(t) => {
                    self.node("scalar type extension", t);
                    self.name("type name", &t.name);
                    self.directives(&t.directives);
                }
                D::ObjectTypeDefinition(t) => {
                    self.node("object type definition", t);
                    self.description(&t.description);
                    self.name("type name", &t.name);
                    t.implements_interfaces.iter().for_each(|n| self.name("implemented interface", n));
                    self.directives(&t.directives);
                    t.fields.iter().for_each(|f| self.field_definition(f));
                }
                D::ObjectTypeExtension(t) => {
                    self.node("object type extension", t);
                    self.name("type name", &t.name);
                    t.implements_interfaces.iter().for_each(|n| self.name("implemented interface", n));
                    self.directives(&t.directives);
                    t.fields.iter().for_each(|f| self.field_definition(f));
                }
                D::InterfaceTypeDefinition(t) => {
                    self.node("interface type definition", t);
                    self.description(&t.description);
                    self.name("type name", &t.name);
                    t.implements_interfaces.iter().for_each(|n| self.name("implemented interface", n));
                    self.directives(&t.directives);
                    t.fields.iter().for_each(|f| self.field_definition(f));
                }
                D::InterfaceTypeExtension(t) => {
                    self.node("interface type extension", t);
                    self.name("type name", &t.name);
                    t.implements_interfaces.iter().for_each(|n| self.name("implemented interface", n));
                    self.directives(&t.directives);
                    t.fields.iter().for_each(|f| self.field_definition(f));
                }
                D::UnionTypeDefinition(t) => {
                    self.node("union type definition", t);
                    self.description(&t.description);
                    self.name("type name", &t.name);
                    self.directives(&t.directives);
                    t.members.iter().for_each(|n| self.name("union member", n));
                }
                D::UnionTypeExtension(t) => {
                    self.node("union type extension", t);
                    self.name("type name", &t.name);
                    self.directives(&t.directives);
                    t.members.iter().for_each(|n| self.name("union member", n));
                }
                D::EnumTypeDefinition(t) => {
                    self.node("enum type definition", t);
                    self.description(&t.description);
                    self.name("type name", &t.name);
                    self.directives(&t.directives);
                    t.values.iter().for_each(|v| self.enum_value_definition(v));
                }
                D::EnumTypeExtension(t) => {
                    self.node("enum type extension", t);
                    self.name("type name", &t.name);
                    self.directives(&t.directives);
                    t.values.iter().for_each(|v| self.enum_value_definition(v));
                }
                D::InputObjectTypeDefinition(t) => {
                    self.node("input object type definition", t);
                    self.description(&t.description);
                    self.name("type name", &t.name);
                    self.directives(&t.directives);
                    t.fields.iter().for_each(|f| self.input_value(f));
                }
                D::InputObjectTypeExtension(t) => {
                    self.node("input object type extension", t);
                    self.name("type name", &t.name);
                    self.directives(&t.directives);
                    t.fields.iter().for_each(|f| self.input_value(f));
                }
            }
        }
    }

    // ---- Schema (user-defined parts; built-in definitions live in another file and are skipped)
    fn schema_directives(&mut self, ds: &sc::DirectiveList) {
        ds.iter().for_each(|d| self.directive(&d.node));
    }
    fn schema(&mut self, s: &sc::Schema, explicit_schema_definition: bool) {
        if explicit_schema_definition {
            let sd = &s.schema_definition;
            self.node("Schema.schema_definition", sd);
            self.description(&sd.description);
            self.schema_directives(&sd.directives);
            for r in [&sd.query, &sd.mutation, &sd.subscription].into_iter().flatten() {
                self.name("Schema root operation type", &r.name);
            }
        }
        for (k, d) in &s.directive_definitions {
            if d.is_built_in() {
                continue;
            }
            self.name("Schema.directive_definitions key", k);
            self.directive_definition(d);
        }
        for (k, t) in &s.types {
            if t.is_built_in() {
                continue;
            }
            self.name("Schema.types key", k);
            match t {
                sc::ExtendedType::Scalar(t) => {
                    self.node("ScalarType", t);
                    self.description(&t.description);
                    self.name("ScalarType.name", &t.name);
                    self.schema_directives(&t.directives);
                }
                sc::ExtendedType::Object(t) => {
                    self.node("ObjectType", t);
                    self.description(&t.description);
                    self.name("ObjectType.name", &t.name);
                    t.implements_interfaces.iter().for_each(|n| self.name("ObjectType.implements_interfaces", &n.name));
                    self.schema_directives(&t.directives);
                    for (k, f) in &t.fields {
                        self.name("ObjectType.fields key", k);
                        self.field_definition(&f.node);
                    }
                }
                sc::ExtendedType::Interface(t) => {
                    self.node("InterfaceType", t);
                    self.description(&t.description);
                    self.name("InterfaceType.name", &t.name);
                    t.implements_interfaces.iter().for_each(|n| self.name("InterfaceType.implements_interfaces", &n.name));
                    self.schema_directives(&t.directives);
                    for (k, f) in &t.fields {
                        self.name("InterfaceType.fields key", k);
                        self.field_definition(&f.node);
                    }
                }
                sc::ExtendedType::Union(t) => {
                    self.node("UnionType", t);
                    self.description(&t.description);
                    self.name("UnionType.name", &t.name);
                    self.schema_directives(&t.directives);
                    t.members.iter().for_each(|n| self.name("UnionType.members", &n.name));
                }
                sc::ExtendedType::Enum(t) => {
                    self.node("EnumType", t);
                    self.description(&t.description);
                    self.name("EnumType.name", &t.name);
                    self.schema_directives(&t.directives);
                    for (k, v) in &t.values {
                        self.name("EnumType.values key", k);
                        self.enum_value_definition(&v.node);
                    }
                }
                sc::ExtendedType::InputObject(t) => {
                    self.node("InputObjectType", t);
                    self.description(&t.description);
                    self.name("InputObjectType.name", &t.name);
                    self.schema_directives(&t.directives);
                    for (k, f) in &t.fields {
                        self.name("InputObjectType.fields key", k);
                        self.input_value(&f.node);
                    }
                }
            }
        }
    }

    // ---- ExecutableDocument
    fn ex_selection_set(&mut self, set: &ex::SelectionSet) {
        // Without an explicit schema definition the root type names are apollo's static defaults
        // (`Query` …): not built from parsed text, no location expected.
        let synthesized = !self.explicit_schema
            && set.ty.location().is_none()
            && matches!(set.ty.as_str(), "Query" | "Mutation" | "Subscription");
        if synthesized {
            self.synthesized_skipped += 1;
        } else {
            self.name("SelectionSet.ty", &set.ty);
        }
        for s in &set.selections {
            match s {
                ex::Selection::Field(f) => {
                    self.node("executable field", f);
                    self.field_definition(&f.definition);
                    if let Some(a) = &f.alias {
                        self.name("executable alias", a);
                    }
                    self.name("executable field name", &f.name);
                    self.arguments(&f.arguments);
                    self.directives(&f.directives);
                    if !f.selection_set.selections.is_empty() {
                        self.ex_selection_set(&f.selection_set);
                    }
                }
                ex::Selection::FragmentSpread(f) => {
                    self.node("executable fragment spread", f);
                    self.name("executable fragment spread name", &f.fragment_name);
                    self.directives(&f.directives);
                }
                ex::Selection::InlineFragment(f) => {
                    self.node("executable inline fragment", f);
                    if let Some(t) = &f.type_condition {
                        self.name("executable type condition", t);
                    }
                    self.directives(&f.directives);
                    self.ex_selection_set(&f.selection_set);
                }
            }
        }
    }
    fn executable(&mut self, d: &ex::ExecutableDocument) {
        let ops = d.operations.anonymous.iter().chain(d.operations.named.values());
        for o in ops {
            self.node("Operation", o);
            if let Some(n) = &o.name {
                self.name("Operation.name", n);
            }
            self.variables(&o.variables);
            self.directives(&o.directives);
            self.ex_selection_set(&o.selection_set);
        }
        for (k, n) in &d.operations.named {
            self.name("OperationMap.named key", k);
            let _ = n;
        }
        for (k, f) in &d.fragments {
            self.name("FragmentMap key", k);
            self.node("Fragment", f);
            self.name("Fragment.name", &f.name);
            self.directives(&f.directives);
            self.ex_selection_set(&f.selection_set);
        }
    }
}

// ---------------------------------------------------------------------------------
// The case
// ---------------------------------------------------------------------------------

/// Open known findings as model switches.
#[derive(Clone, Copy)]
struct Open {
    bytes: bool,
    seps: bool,
    eof: bool,
}

impl Open {
    /// All subsets of the open switches, the empty one (strict model) first.
    fn subsets(self) -> Vec<Params> {
        let mut v = Vec::new();
        for mask in 0..8u8 {
            let p = Params {
                column_in_bytes: mask & 1 != 0,
                ariadne_line_separators: mask & 2 != 0,
                ariadne_no_line_after_final_terminator: mask & 4 != 0,
            };
            if (p.column_in_bytes && !self.bytes)
                || (p.ariadne_line_separators && !self.seps)
                || (p.ariadne_no_line_after_final_terminator && !self.eof)
            {
                continue;
            }
            v.push(p);
        }
        v.sort_by_key(|p| p.column_in_bytes as u8 + p.ariadne_line_separators as u8 + p.ariadne_no_line_after_final_terminator as u8);
        v
    }
}

/// position lookup by byte offset
struct Positions(Vec<Option<(usize, usize)>>);
impl Positions {
    fn new(source: &str, p: Params) -> Positions {
        let mut v = vec![None; source.len() + 1];
        for (o, l, c) in linecol::table(source, p) {
            v[o] = Some((l, c));
        }
        Positions(v)
    }
    fn at(&self, o: usize) -> Option<(usize, usize)> {
        self.0.get(o).copied().flatten()
    }
}

fn check_locations(w: &Walk, sources: &SourceMap, whole: &str, expect_file_text: &str, st: &mut Stats, fail: &dyn Fn(&mut Stats, &str, String)) -> bool {
    for (what, loc) in &w.nodes {
        let Some(loc) = loc else {
            fail(st, "node-without-location", format!("{whole}: a {what} node has no location"));
            return false;
        };
        let Some(file) = sources.get(&loc.file_id()) else {
            fail(st, "location-file-unknown", format!("{whole}: {what} node points to a file that is not in the source map"));
            return false;
        };
        let text = file.source_text();
        let (a, b) = (loc.offset(), loc.end_offset());
        if text != expect_file_text || a > b || b > text.len() || !text.is_char_boundary(a) || !text.is_char_boundary(b) {
            fail(st, "node-location-outside-file", format!("{whole}: {what} node at {a}..{b}, file has {} bytes", text.len()));
            return false;
        }
    }
    for (what, name, loc) in &w.names {
        let Some(loc) = loc else {
            fail(st, "name-without-location", format!("{whole}: {what} `{name}` has no location"));
            return false;
        };
        let Some(file) = sources.get(&loc.file_id()) else {
            fail(st, "location-file-unknown", format!("{whole}: {what} `{name}` points to a file that is not in the source map"));
            return false;
        };
        let text = file.source_text();
        let (a, b) = (loc.offset(), loc.end_offset());
        if text != expect_file_text || a > b || b > text.len() || !text.is_char_boundary(a) || !text.is_char_boundary(b) {
            fail(st, "name-location-outside-file", format!("{whole}: {what} `{name}` at {a}..{b}, file has {} bytes", text.len()));
            return false;
        }
        if &text[a..b] != name {
            fail(
                st,
                "name-location-is-not-the-name",
                format!("{whole}: {what} `{name}` has location {a}..{b} which reads {:?}", &text[a..b]),
            );
            return false;
        }
    }
    true
}

fn run_case(base: &Base, bi: usize, variant: Option<usize>, assignment: &[(usize, usize)], open: Open, st: &mut Stats) {
    st.states += 1;
    let (source, offs, pieces) = base.layout(variant, assignment);
    let case = json!({
        "base": bi,
        "variant": variant.map(|v| v as i64).unwrap_or(-1),
        "assignment": assignment.iter().map(|(p, a)| json!([p, a])).collect::<Vec<_>>(),
        "source": source,
    });
    let size = source.len() as u64;
    let fail = move |st: &mut Stats, sig: &str, detail: String| st.fail_simple(sig, case.clone(), detail, size);

    // ---- (2) every char-boundary offset
    st.transitions += 1;
    let doc = match vcore::catch(|| ast::Document::parse(source.as_str(), "c11.graphql")) {
        Err(p) => return fail(st, "panic", format!("Document::parse panicked: {p}")),
        Ok(Ok(d)) => d,
        Ok(Err(e)) => {
            return fail(
                st,
                "laid-out-document-does-not-parse",
                format!("{:?}", e.errors.iter().next().map(|d| d.error.to_string())),
            )
        }
    };
    let Some((_, file)) = doc.sources.iter().next() else {
        return fail(st, "no-source-file", "ast::Document.sources is empty".into());
    };
    if file.source_text() != source {
        return fail(st, "source-text-differs", "SourceFile::source_text() is not the input".into());
    }
    let strict = linecol::table(&source, Params::default());
    st.transitions += strict.len() as u64 + 1;
    let got: Vec<Option<(usize, usize)>> = strict.iter().map(|(o, _, _)| file.get_line_column(*o).map(|lc| (lc.line, lc.column))).collect();
    if file.get_line_column(source.len() + 1).is_some() {
        return fail(st, "line-column-beyond-end", "get_line_column(len + 1) is not None".into());
    }
    let mut model = Params::default();
    let mut explained = false;
    for p in open.subsets() {
        let t = if p.any() { linecol::table(&source, p) } else { strict.clone() };
        if t.iter().zip(&got).all(|((_, l, c), g)| *g == Some((*l, *c))) {
            model = p;
            explained = true;
            break;
        }
    }
    if !explained {
        let (i, (o, l, c)) = strict.iter().enumerate().find(|(i, (_, l, c))| got[*i] != Some((*l, *c))).unwrap();
        return fail(
            st,
            "line-column",
            format!("offset {o}: get_line_column = {:?}, reference {l}:{c}", got[i].map(|(l, c)| format!("{l}:{c}"))),
        );
    }
    let pos = Positions::new(&source, model);
    // which of the switches in `model` changed an answer on this text
    let mut fired: Vec<&str> = Vec::new();
    if model.any() {
        let full = linecol::table(&source, model);
        for (id, without) in [
            (KF_BYTES, Params { column_in_bytes: false, ..model }),
            (KF_SEPS, Params { ariadne_line_separators: false, ..model }),
            (KF_EOF, Params { ariadne_no_line_after_final_terminator: false, ..model }),
        ] {
            if without != model && linecol::table(&source, without) != full {
                fired.push(id);
            }
        }
    }

    match variant {
        None => {
            // ---- (1) locations of every node and name
            let mut w = Walk::default();
            w.ast_document(&doc);
            let n_ast = (w.names.len(), w.nodes.len());
            if !check_locations(&w, &doc.sources, "ast::Document", &source, st, &fail) {
                return;
            }
            // line/column *ranges* of every node and name (start and end) against the reference
            for (what, loc) in w.nodes.iter().map(|(w, l)| (w.to_string(), *l)).chain(w.names.iter().map(|(w, n, l)| (format!("{w} `{n}`"), *l))) {
                let loc = loc.unwrap();
                let (a, b) = (loc.offset(), loc.end_offset());
                let expect = pos.at(a).zip(pos.at(b));
                let got = loc.line_column_range(&doc.sources).map(|r| ((r.start.line, r.start.column), (r.end.line, r.end.column)));
                if got != expect {
                    return fail(st, "node-line-column-range", format!("{what} at {a}..{b}: line_column_range() = {got:?}, reference {expect:?}"));
                }
            }
            // reference: each AST name sits exactly on a name token of the layout
            for (what, name, loc) in &w.names {
                let loc = loc.unwrap();
                let on_token = offs.iter().zip(&pieces).any(|(o, p)| *o == loc.offset() && p.kind == Kind::Name && p.text == *name);
                if !on_token {
                    return fail(st, "name-location-not-a-name-token", format!("{what} `{name}` at {}..{}", loc.offset(), loc.end_offset()));
                }
            }
            st.transitions += 1;
            let (schema, exec) = match vcore::catch(|| Parser::new().parse_mixed_validate(source.as_str(), "c11.graphql")) {
                Err(p) => return fail(st, "panic", format!("parse_mixed_validate panicked: {p}")),
                Ok(Err(e)) => {
                    return fail(st, "base-document-invalid", format!("{:?}", e.iter().next().map(|d| d.error.to_string())))
                }
                Ok(Ok(pair)) => pair,
            };
            let explicit_schema = pieces.iter().any(|p| p.kind == Kind::Name && p.text == "schema");
            let mut ws = Walk::default();
            ws.schema(&schema, explicit_schema);
            if !check_locations(&ws, &schema.sources, "Schema", &source, st, &fail) {
                return;
            }
            let mut we = Walk { explicit_schema, ..Walk::default() };
            we.executable(&exec);
            if !check_locations(&we, &exec.sources, "ExecutableDocument", &source, st, &fail) {
                return;
            }
            st.count("names checked (ast)", n_ast.0 as u64);
            st.count("nodes checked (ast)", n_ast.1 as u64);
            st.count("names checked (schema)", ws.names.len() as u64);
            st.count("nodes checked (schema)", ws.nodes.len() as u64);
            st.count("names checked (executable)", we.names.len() as u64);
            st.count("synthesized default root type names skipped", we.synthesized_skipped);
            st.count("nodes checked (executable)", we.nodes.len() as u64);
        }
        Some(v) => {
            // ---- (3) diagnostics of the undefined-name variant
            let spec = &base.spec.variants[v];
            let at = offs[base.variant_piece[v]];
            let end = at + spec.replacement.len();
            st.transitions += 1;
            let errors = match vcore::catch(|| Parser::new().parse_mixed_validate(source.as_str(), "c11.graphql")) {
                Err(p) => return fail(st, "panic", format!("parse_mixed_validate panicked: {p}")),
                Ok(Ok(_)) => return fail(st, "variant-accepted", format!("the {} variant validates", spec.label)),
                Ok(Err(e)) => e,
            };
            let mut on_target = 0;
            for d in errors.iter() {
                let Some(loc) = d.error.location() else { continue };
                let (a, b) = (loc.offset(), loc.end_offset());
                let expect = match (pos.at(a), pos.at(b)) {
                    (Some(s), Some(e)) => Some((s, e)),
                    _ => None,
                };
                let range = d.line_column_range().map(|r| ((r.start.line, r.start.column), (r.end.line, r.end.column)));
                if range != expect {
                    return fail(
                        st,
                        "diagnostic-line-column-range",
                        format!("`{}` at {a}..{b}: line_column_range() = {range:?}, reference {expect:?}", d.error),
                    );
                }
                let js: Vec<(usize, usize)> = d.to_json().locations.iter().map(|l| (l.line, l.column)).collect();
                if js != expect.map(|e| vec![e.0]).unwrap_or_default() {
                    return fail(
                        st,
                        "diagnostic-json-locations",
                        format!("`{}` at {a}..{b}: to_json().locations = {js:?}, reference {:?}", d.error, expect.map(|e| e.0)),
                    );
                }
                if d.error.to_string().contains(spec.message_contains) {
                    if (a, b) != (at, end) {
                        return fail(
                            st,
                            "diagnostic-not-on-the-name",
                            format!("`{}` is located at {a}..{b}, the name is at {at}..{end}", d.error),
                        );
                    }
                    on_target += 1;
                }
            }
            if on_target == 0 {
                return fail(st, "diagnostic-missing", format!("no `{}` diagnostic", spec.message_contains));
            }
            st.count("diagnostics checked", errors.len() as u64);
        }
    }

    if !fired.is_empty() {
        for id in &fired {
            st.known(id, &source);
        }
        st.outcome(&format!("known-finding [{}]", fired.join(",")));
        return;
    }
    // outcome label: what the layout contains
    let multi_line = strict.last().map_or(false, |(_, l, _)| *l > 1);
    let multi_byte = !source.is_ascii();
    if multi_line || multi_byte {
        st.nontrivial += 1;
    }
    st.outcome(match (variant.is_some(), multi_line, multi_byte) {
        (false, false, false) => "positions ok: base, one line, ascii",
        (false, true, false) => "positions ok: base, several lines, ascii",
        (false, false, true) => "positions ok: base, one line, multibyte",
        (false, true, true) => "positions ok: base, several lines, multibyte",
        (true, false, false) => "positions ok: undefined-name variant, one line, ascii",
        (true, true, false) => "positions ok: undefined-name variant, several lines, ascii",
        (true, false, true) => "positions ok: undefined-name variant, one line, multibyte",
        (true, true, true) => "positions ok: undefined-name variant, several lines, multibyte",
    });
}

// ---------------------------------------------------------------------------------
// Enumeration: work item = (base, set of non-default choice points); inside, every assignment
// of alternatives to these points x every version (base + variants).
// ---------------------------------------------------------------------------------

struct Item {
    base: usize,
    points: Vec<usize>,
}

fn items(bases: &[Base], k: usize) -> Vec<Item> {
    let mut out = Vec::new();
    for (bi, b) in bases.iter().enumerate() {
        let n = b.points();
        out.push(Item { base: bi, points: vec![] });
        for a in 0..n {
            out.push(Item { base: bi, points: vec![a] });
        }
        if k >= 2 {
            for a in 0..n {
                for c in a + 1..n {
                    out.push(Item { base: bi, points: vec![a, c] });
                }
            }
        }
        if k >= 3 {
            for a in 0..n {
                for c in a + 1..n {
                    for d in c + 1..n {
                        out.push(Item { base: bi, points: vec![a, c, d] });
                    }
                }
            }
        }
    }
    out
}

fn run_item(bases: &[Base], it: &Item, open: Open, st: &mut Stats) {
    let b = &bases[it.base];
    let reduced = it.points.len() >= 3;
    let menus: Vec<&[usize]> = it.points.iter().map(|p| b.alternatives(*p, reduced)).collect();
    let total: usize = menus.iter().map(|m| m.len()).product();
    for mut idx in 0..total {
        let mut assignment = Vec::with_capacity(it.points.len());
        for (p, m) in it.points.iter().zip(&menus).rev() {
            assignment.push((*p, m[idx % m.len()]));
            idx /= m.len();
        }
        assignment.reverse();
        let comma_in_lookahead = |(p, a): &(usize, usize)| {
            *p >= 1
                && *p < b.gaps()
                && SEPARATORS[*a] == ","
                && (b.pieces[*p - 1].kind == Kind::Str
                    || b.pieces[*p - 1].text == "..."
                    || b.pieces[*p - 1].text == "extend"
                    || b.pieces.get(*p).map_or(false, |n| n.text == ":"))
        };
        if assignment.iter().any(comma_in_lookahead) {
            // apollo-parser's two-token look-ahead does not skip commas (after a description,
            // an alias, `...` and `extend`): a syntax-acceptance defect, property C05.
            // These comma positions are kept out of this alphabet.
            st.count("layouts skipped: comma inside a two-token look-ahead (C05)", 1);
            continue;
        }
        run_case(b, it.base, None, &assignment, open, st);
        for v in 0..b.spec.variants.len() {
            run_case(b, it.base, Some(v), &assignment, open, st);
        }
    }
}

fn replay(bases: &[Base], case: &Value, open: Open, st: &mut Stats) {
    if case["part"].as_str().is_some_and(|p| p.starts_with("standalone")) {
        // the standalone part is small: re-run it and keep the failures for this text
        let mut all = Stats::default();
        standalone_part(&mut all);
        for (sig, (n, f)) in all.failures {
            if f.case["text"] == case["text"] {
                st.failures.insert(sig, (n, f));
            }
        }
        return;
    }
    let bi = case["base"].as_u64().unwrap_or(0) as usize;
    let variant = case["variant"].as_i64().filter(|v| *v >= 0).map(|v| v as usize);
    let assignment: Vec<(usize, usize)> = case["assignment"]
        .as_array()
        .map(|a| a.iter().map(|p| (p[0].as_u64().unwrap_or(0) as usize, p[1].as_u64().unwrap_or(0) as usize)).collect())
        .unwrap_or_default();
    run_case(&bases[bi], bi, variant, &assignment, open, st);
}

// ---------------------------------------------------------------------------------------------
// Standalone entry points: a type reference or a field set parsed on its own. Here a name can sit
// at byte offset 0 of its file, which never happens in a document.
// ---------------------------------------------------------------------------------------------

const TYPE_CORES: [&[&str]; 5] = [&["Org"], &["Org", "!"], &["[", "Org", "]"], &["[", "Org", "!", "]", "!"], &["[", "[", "Org", "]", "]"]];
const FIELD_SET_CORES: [&[&str]; 4] = [&["a"], &["a", "t"], &["t", "{", "a", "}"], &["{", "a", "t", "{", "b", "}", "}"]];

fn standalone_schema() -> &'static apollo_compiler::validation::Valid<apollo_compiler::Schema> {
    static S: std::sync::OnceLock<apollo_compiler::validation::Valid<apollo_compiler::Schema>> = std::sync::OnceLock::new();
    S.get_or_init(|| {
        apollo_compiler::Schema::parse_and_validate("type Query { a: Int t: T } type T { a: Int b: Int }", "s.graphql")
            .unwrap_or_else(|e| vcore::machinery_error(&format!("C11 standalone fixture: {}", e.errors)))
    })
}

/// lead + tokens joined by `gap` + trail; returns the text and the offset of every token
fn lay(tokens: &[&str], lead: &str, gap: &str, trail: &str) -> (String, Vec<usize>) {
    let mut s = String::from(lead);
    let mut offs = Vec::new();
    for (i, t) in tokens.iter().enumerate() {
        if i > 0 {
            s.push_str(gap);
        }
        offs.push(s.len());
        s.push_str(t);
    }
    s.push_str(trail);
    (s, offs)
}

fn standalone_part(st: &mut Stats) {
    let leads: Vec<&str> = std::iter::once("").chain(SEPARATORS.iter().copied()).collect();
    let gaps = ["", " ", "\n", "#é中\n"];
    let trails = ["", "\n", "\r", "#é"];
    for lead in &leads {
        for gap in gaps {
            for trail in trails {
                for core in TYPE_CORES {
                    let (text, offs) = lay(core, lead, gap, trail);
                    st.states += 1;
                    st.transitions += 1;
                    let case = json!({"part": "standalone-type", "text": text});
                    let name_off = offs[core.iter().position(|t| *t == "Org").unwrap()];
                    match vcore::catch(|| ast::Type::parse(text.as_str(), "t.graphql")) {
                        Err(p) => st.fail_simple("standalone:panic", case, format!("Type::parse panicked: {p}"), text.len() as u64),
                        Ok(Err(e)) => st.fail_simple("standalone:type-does-not-parse", case, format!("{}", e), text.len() as u64),
                        Ok(Ok(ty)) => {
                            let n = ty.inner_named_type();
                            match n.location() {
                                None => st.fail_simple("standalone:name-without-location", case, format!("the named type of {text:?} has no location"), text.len() as u64),
                                Some(l) if l.offset() != name_off || l.end_offset() != name_off + 3 => st.fail_simple(
                                    "standalone:name-location-is-not-the-name",
                                    case,
                                    format!("named type of {text:?} located at {}..{}, the name is at {name_off}..{}", l.offset(), l.end_offset(), name_off + 3),
                                    text.len() as u64,
                                ),
                                Some(_) => st.outcome(if name_off == 0 { "standalone type: name at offset 0 located" } else { "standalone type: name located" }),
                            }
                        }
                    }
                }
                for core in FIELD_SET_CORES {
                    let (text, offs) = lay(core, lead, if gap.is_empty() { " " } else { gap }, trail);
                    st.states += 1;
                    st.transitions += 1;
                    let case = json!({"part": "standalone-field-set", "text": text});
                    let size = text.len() as u64;
                    let parsed = vcore::catch(|| ex::FieldSet::parse(standalone_schema(), apollo_compiler::name!("Query"), text.as_str(), "f.graphql"));
                    let fs = match parsed {
                        Err(p) => {
                            st.fail_simple("standalone:panic", case, format!("FieldSet::parse panicked: {p}"), size);
                            continue;
                        }
                        Ok(Err(e)) => {
                            st.fail_simple("standalone:field-set-does-not-parse", case, format!("{}", e.errors), size);
                            continue;
                        }
                        Ok(Ok(fs)) => fs,
                    };
                    let pos = Positions::new(&text, Params::default());
                    // expected name tokens in order of appearance
                    let expected: Vec<(usize, &str)> = core.iter().zip(&offs).filter(|(t, _)| t.chars().all(|c| c.is_ascii_alphabetic())).map(|(t, o)| (*o, *t)).collect();
                    let mut found: Vec<(usize, String)> = Vec::new();
                    let mut bad = None;
                    let mut stack: Vec<&ex::SelectionSet> = vec![&fs.selection_set];
                    while let Some(set) = stack.pop() {
                        for sel in &set.selections {
                            if let ex::Selection::Field(f) = sel {
                                match f.name.location() {
                                    None => bad = Some(format!("field `{}` of {text:?} has no location", f.name)),
                                    Some(l) => {
                                        found.push((l.offset(), f.name.to_string()));
                                        let expect = pos.at(l.offset()).zip(pos.at(l.end_offset()));
                                        let got = l.line_column_range(&fs.sources).map(|r| ((r.start.line, r.start.column), (r.end.line, r.end.column)));
                                        if got != expect {
                                            bad = Some(format!("field `{}` of {text:?}: line_column_range() = {got:?}, reference {expect:?}", f.name));
                                        }
                                    }
                                }
                                stack.push(&f.selection_set);
                            }
                        }
                    }
                    found.sort();
                    let want: Vec<(usize, String)> = expected.iter().map(|(o, t)| (*o, t.to_string())).collect();
                    if let Some(b) = bad {
                        st.fail_simple("standalone:field-name-location", case, b, size);
                    } else if found != want {
                        st.fail_simple("standalone:field-name-location", case, format!("{text:?}: field names located at {found:?}, the name tokens are at {want:?}"), size);
                    } else {
                        st.outcome(if want.first().map(|w| w.0) == Some(0) { "standalone field set: first name at offset 0 located" } else { "standalone field set: names located" });
                    }
                }
            }
        }
    }
}

fn main() {
    let mut chk = Check::new("C11");
    vcore::quiet_panics();
    let open = Open { bytes: chk.known.is_open(KF_BYTES), seps: chk.known.is_open(KF_SEPS), eof: chk.known.is_open(KF_EOF) };
    let bases: Vec<Base> = BASES.iter().map(Base::new).collect();
    if let Some(case) = chk.replay_case() {
        let mut st = Stats::default();
        replay(&bases, &case, open, &mut st);
        chk.absorb(st);
        chk.finish_replay();
    }
    let k: usize = chk.tier().pick(2, 3);
    let work = items(&bases, k);
    let stats = vcore::par_items(&work, |it, st| run_item(&bases, it, open, st));
    chk.absorb(stats);
    let mut st = Stats::default();
    standalone_part(&mut st);
    chk.absorb(st);
    // a few samples, deterministically
    for (bi, b) in bases.iter().enumerate() {
        let (s, _, _) = b.layout(None, &[(1, 7), (b.points() - 1, 0)]);
        chk.stats.sample(json!({"base": b.spec.name, "example_layout": s}));
        let _ = bi;
    }
    chk.bounds = json!({
        "bases": bases.iter().map(|b| json!({"name": b.spec.name, "text": b.spec.text, "tokens": b.pieces.len(),
            "choice_points": b.points(), "string_slots": b.slots.len(),
            "variants": b.spec.variants.iter().map(|v| v.label).collect::<Vec<_>>()})).collect::<Vec<_>>(),
        "separators": SEPARATORS, "string_tokens": STRINGS,
        "max_non_default_choice_points": k,
        "menus_for_assignments_with_3_points": {"separators": REDUCED_SEPARATORS.iter().map(|i| SEPARATORS[*i]).collect::<Vec<_>>(),
                                                 "string_tokens": REDUCED_STRINGS.iter().map(|i| STRINGS[*i]).collect::<Vec<_>>()},
        "work_items": work.len(),
        "offsets": "every char-boundary offset 0..=len of every laid-out text, plus len+1",
    });
    chk.rule = "every assignment of separators (per token gap, incl. before/after the document) and string-token texts with at most k \
                non-default choice points (full menus for k <= 2, the reduced menus for exactly 3), for each base document and each undefined-name variant; non-trivial = the text has \
                several lines or non-ASCII characters"
        .into();
    chk.assumptions = vec![
        "reference positions: refmodel::linecol (lines end at \\n, \\r\\n, lone \\r; column = 1 + scalar values), unit-tested against a direct transcription on 150k strings".into(),
        "names synthesized by apollo (implicit schema definition and its root operation names) are not 'built from parsed text': Schema.schema_definition is walked only when the text has an explicit schema definition; built-in types and directives are skipped".into(),
        "offsets that are not char boundaries are not queried".into(),
        "a comma separator directly after a string token, after `...`, after `extend` or directly before `:` is not generated: apollo-parser's two-token look-ahead does not skip commas there (`\"d\" , type T`, `{ al , : f }` are reported as syntax errors), which is C05's subject".into(),
        "without an explicit schema definition the root SelectionSet.ty is apollo's static default name (no location); it is skipped and counted".into(),
        "a mismatch is attributed to known findings only if get_line_column equals the reference model with a subset of the open deviation switches at EVERY offset of the text".into(),
    ];
    chk.finish(&|case| {
        let mut st = Stats::default();
        replay(&bases, case, open, &mut st);
        !st.failures.is_empty()
    })
}
