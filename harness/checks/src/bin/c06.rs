//! C06 — string literals decode to their spec-defined values (DESIGN.md §6 C06).
//! E-INPUT: every `"`+body+`"` over Σstr and every `"""`+body+`"""` over Σblk up to a length
//! bound. Literals that are one lexically valid StringValue token (reference lexer) are decoded
//! by the real code at four sites and compared with `refmodel::strings` (spec §2.9.4 static
//! semantics, `BlockStringValue()`); no site may panic.

use apollo_compiler::ast;
use apollo_parser::cst::{self, CstNode};
use refmodel::lex::{self, Kind, Params};
use refmodel::strings;
use serde_json::{json, Value};
use vcore::{enumerate as en, Check, Stats};

const SIGMA_STR: &[&str] = &["\"", "\\", "u", "0", "8", "D", "F", "n", "x", "a", "é", "\n"];
const SIGMA_BLK: &[&str] = &["\"", "\\", " ", "\t", "\n", "\r", "a", "é", "\u{feff}"];
/// every single-character escape of the grammar (Σstr only has `\"`, `\\`, `\n`, `\u`), plus `\uXXXX`
/// block-string bodies with characters that are white space / line breaks for Unicode but ordinary
/// SourceCharacters for GraphQL (BlockStringValue() only knows space, tab, LF, CR)
const SIGMA_BLK_U: &[&str] = &[" ", "\n", "a", "\u{a0}", "\u{c}", "\u{b}", "\u{3000}", "\u{2028}", "\u{85}"];
const SIGMA_ESC: &[&str] = &["\\", "\"", "/", "b", "f", "n", "r", "t", "u", "0", "A"];

/// What one observation site returned.
enum Seen {
    Value(String),
    /// the document did not parse cleanly / the literal is not where it should be
    NotThere(String),
}

fn site_cst(lit: &str) -> Seen {
    let src = format!("{{a(b:{lit})}}");
    let tree = apollo_parser::Parser::new(&src).parse();
    if tree.errors().len() > 0 {
        return Seen::NotThere(format!("parse errors: {:?}", tree.errors().collect::<Vec<_>>()));
    }
    let doc = tree.document();
    let sv = (|| {
        let cst::Definition::OperationDefinition(op) = doc.definitions().next()? else {
            return None;
        };
        let cst::Selection::Field(f) = op.selection_set()?.selections().next()? else {
            return None;
        };
        match f.arguments()?.arguments().next()?.value()? {
            cst::Value::StringValue(sv) => Some(sv),
            _ => None,
        }
    })();
    let Some(sv) = sv else {
        return Seen::NotThere("no StringValue node at {a(b:HERE)}".into());
    };
    let text = sv.syntax().text().to_string();
    if text.trim_end_matches([' ', '\t', '\n', '\r', ',', '\u{feff}']) != lit {
        return Seen::NotThere(format!("the StringValue node covers {text:?}"));
    }
    Seen::Value(String::from(&sv))
}

fn ast_doc(src: &str) -> Result<ast::Document, String> {
    ast::Document::parse(src, "c06.graphql").map_err(|e| {
        let text = e.errors.to_string();
        let lines: Vec<&str> = text.lines().filter(|l| l.starts_with("Error")).collect();
        format!("parse errors: {}", lines.join("; "))
    })
}

fn site_argument(lit: &str) -> Seen {
    let doc = match ast_doc(&format!("{{a(b:{lit})}}")) {
        Ok(d) => d,
        Err(e) => return Seen::NotThere(e),
    };
    let v = (|| {
        let ast::Definition::OperationDefinition(op) = doc.definitions.first()? else {
            return None;
        };
        let ast::Selection::Field(f) = op.selection_set.first()? else {
            return None;
        };
        match &*f.arguments.first()?.value {
            ast::Value::String(s) => Some(s.clone()),
            _ => None,
        }
    })();
    v.map(Seen::Value).unwrap_or_else(|| Seen::NotThere("no Value::String at {a(b:HERE)}".into()))
}

fn site_variable_default(lit: &str) -> Seen {
    let doc = match ast_doc(&format!("query($v:S={lit}){{a}}")) {
        Ok(d) => d,
        Err(e) => return Seen::NotThere(e),
    };
    let v = (|| {
        let ast::Definition::OperationDefinition(op) = doc.definitions.first()? else {
            return None;
        };
        match &**op.variables.first()?.default_value.as_ref()? {
            ast::Value::String(s) => Some(s.clone()),
            _ => None,
        }
    })();
    v.map(Seen::Value).unwrap_or_else(|| Seen::NotThere("no Value::String as the default of $v".into()))
}

fn site_description(lit: &str) -> Seen {
    let doc = match ast_doc(&format!("{lit} scalar S")) {
        Ok(d) => d,
        Err(e) => return Seen::NotThere(e),
    };
    let v = (|| {
        let ast::Definition::ScalarTypeDefinition(def) = doc.definitions.first()? else {
            return None;
        };
        Some(def.description.as_ref()?.as_str().to_string())
    })();
    v.map(Seen::Value).unwrap_or_else(|| Seen::NotThere("scalar S has no description".into()))
}

const SITES: [(&str, fn(&str) -> Seen); 4] = [
    ("cst-accessor", site_cst),
    ("ast-argument", site_argument),
    ("ast-variable-default", site_variable_default),
    ("ast-description", site_description),
];

/// Informative class of a valid literal, computed from the literal and its reference value.
fn classify(lit: &str, value: &str) -> &'static str {
    if let Some(body) = lit.strip_prefix("\"\"\"").and_then(|r| r.strip_suffix("\"\"\"")) {
        let multi = body.contains(['\n', '\r']);
        let esc = body.contains("\\\"\"\"");
        let raw = body.replace("\\\"\"\"", "\"\"\"");
        let normalised = raw.replace("\r\n", "\n").replace('\r', "\n");
        match (multi, esc, normalised == value) {
            (false, false, true) => "block:single-line:verbatim",
            (false, false, false) => "block:single-line:blank-trimmed",
            (false, true, _) => "block:single-line:escaped-triple-quote",
            (true, false, true) => "block:multi-line:only-newlines-normalised",
            (true, false, false) => "block:multi-line:indent-or-blank-lines-removed",
            (true, true, _) => "block:multi-line:escaped-triple-quote",
        }
    } else {
        let body = &lit[1..lit.len() - 1];
        if body.contains("\\u") {
            "quoted:unicode-escape"
        } else if body.contains('\\') {
            "quoted:simple-escape"
        } else {
            "quoted:plain"
        }
    }
}

fn check_literal(lit: &str, st: &mut Stats) {
    st.states += 1;
    let case = || json!({ "literal": lit });
    // validity filter: the literal is exactly one StringValue token of the lexical grammar
    if lex::munch(lit, 0, Params::default()) != Some((Kind::Str, lit.len())) {
        st.outcome("not-a-string-literal");
        return;
    }
    let Some(expected) = strings::literal_value(lit) else {
        // the lexer model and the value model disagree on validity: harness bug
        st.fail_simple(
            "oracle-inconsistent",
            case(),
            format!("refmodel::lex accepts {lit:?} but refmodel::strings has no value for it"),
            lit.len() as u64,
        );
        return;
    };
    st.count("valid_literals", 1);
    let mut not_there = false;
    for (site, f) in SITES {
        st.transitions += 1;
        match vcore::catch(|| f(lit)) {
            Err(p) => {
                st.fail_simple(
                    &format!("panic:{site}"),
                    case(),
                    format!("decoding {lit:?} at {site} panicked: {p}"),
                    lit.len() as u64,
                );
                return;
            }
            Ok(Seen::NotThere(why)) => {
                // a lexer / parser disagreement on a valid literal is C03's / C05's to report
                not_there = true;
                st.count(&format!("not_evaluated:{site}"), 1);
                st.sample(json!({"literal": lit, "site": site, "not_evaluated": why}));
            }
            Ok(Seen::Value(got)) => {
                if got != expected {
                    st.fail_simple(
                        &format!("wrong-value:{site}"),
                        case(),
                        format!("{lit:?} at {site}: spec value {expected:?}, apollo {got:?}"),
                        lit.len() as u64,
                    );
                    return;
                }
            }
        }
    }
    if not_there {
        st.outcome("valid-literal-but-apollo-did-not-parse-it");
        return;
    }
    let class = classify(lit, &expected);
    if class != "quoted:plain" && class != "block:single-line:verbatim" {
        st.nontrivial += 1;
    }
    st.outcome(class);
}

fn main() {
    let mut chk = Check::new("C06");
    vcore::quiet_panics();
    if let Some(case) = chk.replay_case() {
        let mut st = Stats::default();
        check_literal(case["literal"].as_str().unwrap_or(""), &mut st);
        chk.absorb(st);
        chk.finish_replay();
    }
    let spaces: [(&str, &'static [&'static str], &str, u32, u32); 4] = [
        ("block-unicode-space", SIGMA_BLK_U, "\"\"\"", 6, 7),
        ("quoted", SIGMA_STR, "\"", 6, 7),
        ("quoted-escapes", SIGMA_ESC, "\"", 5, 7),
        ("block", SIGMA_BLK, "\"\"\"", 6, 8),
    ];
    let mut bounds = serde_json::Map::new();
    for (name, alphabet, quote, quick, thorough) in spaces {
        let max_len = chk.tier().pick(quick, thorough);
        let k = alphabet.len() as u64;
        let total = en::count_upto(k, max_len);
        let stats = vcore::par_sweep(total, 16384, |i, st| {
            let mut seq = Vec::new();
            let mut body = String::new();
            en::nth_upto(k, i, &mut seq);
            en::render(alphabet, &seq, &mut body);
            let lit = format!("{quote}{body}{quote}");
            if i % (total / 4 + 1) == total / 9 {
                st.sample(json!({"space": name, "literal": lit}));
            }
            check_literal(&lit, st);
        });
        let valid = stats.counters.get("valid_literals").copied().unwrap_or(0);
        println!("space {name}: bodies up to {max_len} symbols, {total} literals, {valid} lexically valid");
        bounds.insert(
            name.to_string(),
            json!({"alphabet": alphabet, "quotes": quote, "max_len": max_len, "literals": total, "lexically_valid": valid}),
        );
        chk.absorb(stats);
    }
    let skipped: u64 = chk
        .stats
        .outcomes
        .get("valid-literal-but-apollo-did-not-parse-it")
        .copied()
        .unwrap_or(0);
    if skipped > 0 {
        chk.note(format!(
            "{skipped} literals are valid by the reference lexer but were not parsed cleanly by apollo; their values were not compared (lexer/parser disagreements belong to C03/C05)"
        ));
    }
    chk.bounds = Value::Object(bounds);
    chk.rule = "every body over the alphabet up to max_len between the quotes; evaluated = the literal is exactly one \
                StringValue token for the reference lexer; each evaluated literal is decoded at 4 sites; \
                non-trivial = the decoded value differs from the text between the quotes (escape decoded, indentation or blank line removed, line terminator normalised)"
        .into();
    chk.assumptions = vec![
        "refmodel::strings transcribes spec §2.9.4 (October 2021) StringValue semantics and the nine steps of BlockStringValue(); unit-tested on the spec example".into(),
        "escapes naming a surrogate code point (\\uD800..\\uDFFF) are lexical errors (documented exception) and therefore not evaluated".into(),
        "literals the reference lexer accepts but apollo does not parse are counted and noted, not judged here (C03/C05)".into(),
    ];
    chk.finish(&|case| {
        let mut st = Stats::default();
        check_literal(case["literal"].as_str().unwrap_or(""), &mut st);
        !st.failures.is_empty()
    })
}
