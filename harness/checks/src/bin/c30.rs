//! C30 — Names and nodes are memory-safe shared values.
//!
//! E-HIST: explicit-state breadth-first search over operation histories on **real** `Name` and
//! `Node<String>` values, de-duplicated on the canonical state of a boring reference pool
//! (slot contents, sharing classes, held handles). Every history is replayed on fresh real
//! objects; after **every** operation the real observations must equal the reference pool:
//!
//! * text, location, `as_static_str` / `to_cloned_arc` presence of every name slot,
//! * `Arc::strong_count` of the two witness `Arc<str>`s the harness keeps (= 1 + live heap names
//!   + live handles), and of every fresh backing string (read through a temporary handle),
//! * equality / ordering / hashing ignore locations,
//! * node slots: value, location, `ptr_eq` == same sharing class, `get_mut().is_some()` == the
//!   class is a singleton; `make_mut` on a shared node leaves the other clones untouched.
//!
//! At the end of each history everything is dropped: witness counts are back to 1 and the
//! thread-local counting allocator is back at its baseline (leak / double free).
//!
//! Thread dimension: every representative history up to a smaller depth is replayed again under
//! every assignment of its operations to two OS threads that hand the whole pool over a channel
//! (values really cross threads; no two threads run at once, so the interleavings *inside*
//! `Arc::clone`/`drop` are not explored — `std::sync::Arc` / `triomphe::Arc` are the trusted base).

use apollo_compiler::parser::SourceSpan;
use apollo_compiler::{Name, Node};
use checks::hist::{bfs, fnv128};
use serde_json::{json, Value};
use std::alloc::{GlobalAlloc, Layout, System};
use std::cell::Cell;
use std::collections::hash_map::DefaultHasher;
use std::hash::{Hash, Hasher};
use std::sync::{Arc, OnceLock};
use vcore::Stats;

// ---------------------------------------------------------------------------------------------
// counting allocator (per thread: a history allocates and frees on the thread that replays it)
// ---------------------------------------------------------------------------------------------

thread_local! {
    static LIVE_ALLOCS: Cell<i64> = const { Cell::new(0) };
    static LIVE_BYTES: Cell<i64> = const { Cell::new(0) };
}

struct Counting;

unsafe impl GlobalAlloc for Counting {
    unsafe fn alloc(&self, l: Layout) -> *mut u8 {
        let p = System.alloc(l);
        if !p.is_null() {
            let _ = LIVE_ALLOCS.try_with(|c| c.set(c.get() + 1));
            let _ = LIVE_BYTES.try_with(|c| c.set(c.get() + l.size() as i64));
        }
        p
    }
    unsafe fn dealloc(&self, p: *mut u8, l: Layout) {
        let _ = LIVE_ALLOCS.try_with(|c| c.set(c.get() - 1));
        let _ = LIVE_BYTES.try_with(|c| c.set(c.get() - l.size() as i64));
        System.dealloc(p, l)
    }
    unsafe fn realloc(&self, p: *mut u8, l: Layout, new_size: usize) -> *mut u8 {
        let q = System.realloc(p, l, new_size);
        if !q.is_null() {
            let _ = LIVE_BYTES.try_with(|c| c.set(c.get() + new_size as i64 - l.size() as i64));
        }
        q
    }
}

#[global_allocator]
static GLOBAL: Counting = Counting;

fn live() -> (i64, i64) {
    (LIVE_ALLOCS.with(|c| c.get()), LIVE_BYTES.with(|c| c.get()))
}

// ---------------------------------------------------------------------------------------------
// fixtures
// ---------------------------------------------------------------------------------------------

const TEXTS: [&str; 2] = ["aa", "bb"];

/// Two real source spans of length 2 in two different files (Name::with_location debug-asserts
/// that the span length equals the name length).
fn spans() -> &'static [SourceSpan; 2] {
    static S: OnceLock<[SourceSpan; 2]> = OnceLock::new();
    S.get_or_init(|| {
        let d1 = apollo_compiler::ast::Document::parse("type aa { bb: cc }", "one.graphql").expect("fixture");
        let d2 = apollo_compiler::ast::Document::parse("\n  scalar zz", "two.graphql").expect("fixture");
        let l1 = d1.definitions[0].name().unwrap().location().unwrap();
        let l2 = d2.definitions[0].name().unwrap().location().unwrap();
        assert!(l1.node_len() == 2 && l2.node_len() == 2 && l1.file_id() != l2.file_id() && l1.offset() != l2.offset());
        [l1, l2]
    })
}

fn loc_of(k: u8) -> Option<SourceSpan> {
    match k {
        0 => None,
        k => Some(spans()[(k - 1) as usize]),
    }
}

// ---------------------------------------------------------------------------------------------
// Name machine
// ---------------------------------------------------------------------------------------------

const NSLOTS: usize = 3;
const MAX_HANDLES: usize = 2;

#[derive(Clone, Copy, PartialEq, Eq, PartialOrd, Ord, Debug)]
enum Src {
    /// backed by witness Arc w
    W(u8),
    /// backed by a fresh Arc (class id, text index)
    F(u8, u8),
    /// static str (text index)
    S(u8),
}

impl Src {
    fn text(self) -> &'static str {
        match self {
            Src::W(w) => TEXTS[w as usize],
            Src::F(_, t) | Src::S(t) => TEXTS[t as usize],
        }
    }
}

#[derive(Clone, Copy, PartialEq, Eq, PartialOrd, Ord, Debug)]
struct NameM {
    src: Src,
    loc: u8,
}

#[derive(Clone, Default, Debug)]
struct NameModel {
    slots: [Option<NameM>; NSLOTS],
    handles: Vec<Src>, // W or F
    next_class: u8,
}

#[derive(Clone, Copy, PartialEq, Eq, Debug)]
enum NOp {
    NewHeap(u8, u8),
    NewStatic(u8, u8),
    FromWitness(u8, u8),
    TryFromWitness(u8, u8),
    Clone(u8, u8),
    FromRef(u8, u8),
    Drop(u8),
    WithLoc(u8, u8),
    ToArcKeep(u8),
    ToArcDrop(u8),
    IntoArc(u8),
    DropHandle,
}

fn name_ops() -> Vec<NOp> {
    let mut v = Vec::new();
    for i in 0..NSLOTS as u8 {
        for t in 0..2u8 {
            v.push(NOp::NewHeap(i, t));
            v.push(NOp::NewStatic(i, t));
            v.push(NOp::FromWitness(i, t));
        }
        v.push(NOp::TryFromWitness(i, 0));
        for j in 0..NSLOTS as u8 {
            if i != j {
                v.push(NOp::Clone(i, j));
            }
        }
        v.push(NOp::FromRef(i, (i + 1) % NSLOTS as u8));
        v.push(NOp::Drop(i));
        v.push(NOp::WithLoc(i, 1));
        v.push(NOp::WithLoc(i, 2));
        v.push(NOp::ToArcKeep(i));
        v.push(NOp::ToArcDrop(i));
        v.push(NOp::IntoArc(i));
    }
    v.push(NOp::DropHandle);
    v
}

impl NameModel {
    fn enabled(&self, op: NOp) -> bool {
        let full = |i: u8| self.slots[i as usize].is_some();
        match op {
            NOp::NewHeap(..) | NOp::NewStatic(..) | NOp::FromWitness(..) | NOp::TryFromWitness(..) => true,
            NOp::Clone(i, _) | NOp::FromRef(i, _) | NOp::Drop(i) | NOp::WithLoc(i, _) | NOp::ToArcDrop(i) => full(i),
            NOp::ToArcKeep(i) => {
                full(i) && self.handles.len() < MAX_HANDLES && !matches!(self.slots[i as usize].unwrap().src, Src::S(_))
            }
            NOp::IntoArc(i) => full(i),
            NOp::DropHandle => !self.handles.is_empty(),
        }
    }
    fn apply(&mut self, op: NOp) {
        match op {
            NOp::NewHeap(i, t) => {
                let c = self.next_class;
                self.next_class += 1;
                self.slots[i as usize] = Some(NameM { src: Src::F(c, t), loc: 0 });
            }
            NOp::NewStatic(i, t) => self.slots[i as usize] = Some(NameM { src: Src::S(t), loc: 0 }),
            NOp::FromWitness(i, w) | NOp::TryFromWitness(i, w) => {
                self.slots[i as usize] = Some(NameM { src: Src::W(w), loc: 0 })
            }
            NOp::Clone(i, j) | NOp::FromRef(i, j) => self.slots[j as usize] = self.slots[i as usize],
            NOp::Drop(i) => self.slots[i as usize] = None,
            NOp::WithLoc(i, k) => self.slots[i as usize].as_mut().unwrap().loc = k,
            NOp::ToArcKeep(i) => self.handles.push(self.slots[i as usize].unwrap().src),
            NOp::ToArcDrop(_) => {}
            NOp::IntoArc(i) => {
                let m = self.slots[i as usize].take().unwrap();
                if !matches!(m.src, Src::S(_)) && self.handles.len() < MAX_HANDLES {
                    self.handles.push(m.src);
                }
            }
            NOp::DropHandle => {
                self.handles.remove(0);
            }
        }
    }
    fn count(&self, s: Src) -> usize {
        self.slots.iter().flatten().filter(|m| m.src == s).count() + self.handles.iter().filter(|h| **h == s).count()
    }
    /// canonical encoding: minimum over slot permutations, fresh classes renamed by first
    /// occurrence (slots, then handles). The alphabet is symmetric in the slots, so permuted
    /// states have the same futures.
    fn canon(&self) -> u128 {
        const PERMS: [[usize; 3]; 6] = [[0, 1, 2], [0, 2, 1], [1, 0, 2], [1, 2, 0], [2, 0, 1], [2, 1, 0]];
        let mut best: Option<Vec<u8>> = None;
        for p in PERMS {
            let mut ren: Vec<u8> = Vec::new();
            let mut enc = Vec::with_capacity(16);
            let mut put = |s: Src, enc: &mut Vec<u8>| match s {
                Src::W(w) => enc.extend([1, w]),
                Src::S(t) => enc.extend([2, t]),
                Src::F(c, t) => {
                    let k = match ren.iter().position(|x| *x == c) {
                        Some(k) => k,
                        None => {
                            ren.push(c);
                            ren.len() - 1
                        }
                    };
                    enc.extend([3, k as u8, t])
                }
            };
            for &i in &p {
                match self.slots[i] {
                    None => enc.push(0),
                    Some(m) => {
                        put(m.src, &mut enc);
                        enc.push(m.loc);
                    }
                }
            }
            enc.push(0xfe);
            for &h in &self.handles {
                put(h, &mut enc);
            }
            if best.as_ref().is_none_or(|b| enc < *b) {
                best = Some(enc);
            }
        }
        fnv128(&best.unwrap())
    }
}

struct NameReal {
    slots: [Option<Name>; NSLOTS],
    handles: Vec<Arc<str>>,
    witnesses: [Arc<str>; 2],
}

impl NameReal {
    fn new() -> Self {
        NameReal { slots: [None, None, None], handles: Vec::new(), witnesses: [Arc::from(TEXTS[0]), Arc::from(TEXTS[1])] }
    }
    fn apply(&mut self, op: NOp) -> Result<(), String> {
        match op {
            NOp::NewHeap(i, t) => self.slots[i as usize] = Some(Name::new(TEXTS[t as usize]).map_err(|e| e.to_string())?),
            NOp::NewStatic(i, t) => {
                self.slots[i as usize] = Some(Name::new_static(TEXTS[t as usize]).map_err(|e| e.to_string())?)
            }
            NOp::FromWitness(i, w) => {
                self.slots[i as usize] = Some(Name::from_arc_unchecked(self.witnesses[w as usize].clone()))
            }
            NOp::TryFromWitness(i, w) => {
                self.slots[i as usize] = Some(Name::try_from(self.witnesses[w as usize].clone()).map_err(|e| e.to_string())?)
            }
            NOp::Clone(i, j) => {
                let c = self.slots[i as usize].as_ref().unwrap().clone();
                self.slots[j as usize] = Some(c);
            }
            NOp::FromRef(i, j) => {
                let c = Name::from(self.slots[i as usize].as_ref().unwrap());
                self.slots[j as usize] = Some(c);
            }
            NOp::Drop(i) => self.slots[i as usize] = None,
            NOp::WithLoc(i, k) => {
                let n = self.slots[i as usize].take().unwrap();
                self.slots[i as usize] = Some(n.with_location(loc_of(k).unwrap()));
            }
            NOp::ToArcKeep(i) => {
                let a = self.slots[i as usize].as_ref().unwrap().to_cloned_arc().ok_or("to_cloned_arc() is None for a heap name")?;
                self.handles.push(a);
            }
            NOp::ToArcDrop(i) => {
                let n = self.slots[i as usize].as_ref().unwrap();
                let a = n.to_cloned_arc();
                if a.is_some() == n.as_static_str().is_some() {
                    return Err("to_cloned_arc and as_static_str are not complementary".into());
                }
                drop(a);
            }
            NOp::IntoArc(i) => {
                let n = self.slots[i as usize].take().unwrap();
                let was_static = n.as_static_str().is_some();
                let text = n.as_str().to_string();
                let a: Arc<str> = Arc::from(n);
                if &*a != text {
                    return Err(format!("Arc::from(name) holds {:?}, name was {:?}", &*a, text));
                }
                if was_static {
                    if Arc::strong_count(&a) != 1 {
                        return Err("Arc made from a static name is shared".into());
                    }
                } else if self.handles.len() < MAX_HANDLES {
                    self.handles.push(a);
                }
            }
            NOp::DropHandle => {
                self.handles.remove(0);
            }
        }
        Ok(())
    }

    /// compare every observation with the model
    fn check(&self, m: &NameModel) -> Result<(), String> {
        for i in 0..NSLOTS {
            match (&self.slots[i], &m.slots[i]) {
                (None, None) => {}
                (Some(n), Some(mm)) => {
                    let t = mm.src.text();
                    if n.as_str() != t || n.len() != t.len() || &**n != t || n.to_string() != t || format!("{n:?}") != format!("{t:?}") {
                        return Err(format!("slot {i}: text {:?}, expected {t:?}", n.as_str()));
                    }
                    if n.location() != loc_of(mm.loc) {
                        return Err(format!("slot {i}: location {:?}, expected {:?}", n.location(), loc_of(mm.loc)));
                    }
                    let is_static = matches!(mm.src, Src::S(_));
                    if n.as_static_str().is_some() != is_static || (is_static && n.as_static_str() != Some(t)) {
                        return Err(format!("slot {i}: as_static_str {:?}, static expected: {is_static}", n.as_static_str()));
                    }
                    match (n.to_cloned_arc(), mm.src) {
                        (None, Src::S(_)) => {}
                        (Some(a), Src::W(w)) => {
                            if !Arc::ptr_eq(&a, &self.witnesses[w as usize]) {
                                return Err(format!("slot {i}: backing Arc is not witness {w}"));
                            }
                        }
                        (Some(a), Src::F(c, _)) => {
                            if &*a != t {
                                return Err(format!("slot {i}: backing Arc text {:?}", &*a));
                            }
                            let _ = c;
                            let expect = m.count(mm.src) + 1; // + this temporary
                            if Arc::strong_count(&a) != expect {
                                return Err(format!(
                                    "slot {i}: strong count of the fresh backing string is {} (without the probe: {}), expected {}",
                                    Arc::strong_count(&a),
                                    Arc::strong_count(&a) - 1,
                                    expect - 1
                                ));
                            }
                            // members of the same class share the allocation, others do not
                            for j in 0..NSLOTS {
                                if j == i {
                                    continue;
                                }
                                if let (Some(o), Some(om)) = (&self.slots[j], &m.slots[j]) {
                                    if let Some(b) = o.to_cloned_arc() {
                                        if Arc::ptr_eq(&a, &b) != (om.src == mm.src) {
                                            return Err(format!("slots {i},{j}: sharing of the backing string is {}", Arc::ptr_eq(&a, &b)));
                                        }
                                    }
                                }
                            }
                        }
                        (got, _) => return Err(format!("slot {i}: to_cloned_arc().is_some() == {}", got.is_some())),
                    }
                }
                (a, b) => return Err(format!("slot {i}: real {:?}, model {:?}", a.is_some(), b.is_some())),
            }
        }
        for w in 0..2u8 {
            let expect = 1 + m.count(Src::W(w));
            let got = Arc::strong_count(&self.witnesses[w as usize]);
            if got != expect {
                return Err(format!("witness {w}: strong count {got}, expected {expect}"));
            }
        }
        if self.handles.len() != m.handles.len() {
            return Err("handle list length".into());
        }
        for (h, hm) in self.handles.iter().zip(&m.handles) {
            if &**h != hm.text() {
                return Err(format!("handle text {:?}", &**h));
            }
            match hm {
                Src::W(w) => {
                    if !Arc::ptr_eq(h, &self.witnesses[*w as usize]) {
                        return Err("handle is not the witness".into());
                    }
                }
                Src::F(..) => {
                    if Arc::strong_count(h) != m.count(*hm) {
                        return Err(format!("handle: strong count {}, expected {}", Arc::strong_count(h), m.count(*hm)));
                    }
                }
                Src::S(_) => return Err("model holds a static handle".into()),
            }
        }
        // equality, ordering and hashing ignore locations and the kind of backing
        for i in 0..NSLOTS {
            for j in 0..NSLOTS {
                if let (Some(a), Some(b)) = (&self.slots[i], &self.slots[j]) {
                    let same = a.as_str() == b.as_str();
                    if (a == b) != same || (a.cmp(b) == std::cmp::Ordering::Equal) != same || a.cmp(b) != a.as_str().cmp(b.as_str()) {
                        return Err(format!("slots {i},{j}: == is {} for texts {:?} {:?}", a == b, a.as_str(), b.as_str()));
                    }
                    let h = |n: &Name| {
                        let mut s = DefaultHasher::new();
                        n.hash(&mut s);
                        s.finish()
                    };
                    let hs = |n: &str| {
                        let mut s = DefaultHasher::new();
                        n.hash(&mut s);
                        s.finish()
                    };
                    if h(a) != hs(a.as_str()) || (same && h(a) != h(b)) {
                        return Err(format!("slots {i},{j}: hash differs from the hash of the text"));
                    }
                    if !(*a == *b.as_str()) == same {
                        return Err("Name == str disagrees".into());
                    }
                }
            }
        }
        Ok(())
    }
}

/// What a replay returns: no heap data, so that the allocator balance can be taken after the
/// reference pool itself has been dropped.
#[derive(Clone, Copy, Debug)]
struct Summary {
    canon: u128,
    enabled: u64,
    nontrivial: bool,
}

fn name_case(hist: &[usize]) -> Value {
    json!({"machine": "name", "history": hist})
}

/// Replays `hist` (indices into name_ops()) on fresh real objects with the oracle after every
/// step. Returns the model reached, or the failure (signature, detail).
fn run_name_history(ops: &[NOp], hist: &[usize], st: &mut Stats) -> Result<Summary, (String, String)> {
    let base = live();
    let res = vcore::catch(|| -> Result<Summary, (String, String)> {
        let mut model = NameModel::default();
        let mut real = NameReal::new();
        for (k, &oi) in hist.iter().enumerate() {
            let op = ops[oi];
            if !model.enabled(op) {
                return Err(("machinery:disabled-op".into(), format!("step {k}: {op:?} is not enabled")));
            }
            real.apply(op).map_err(|e| (format!("name:{}", opname(op)), format!("step {k} {op:?}: {e}")))?;
            model.apply(op);
            st.transitions += 1;
            real.check(&model).map_err(|e| (format!("name:{}", opname(op)), format!("after step {k} {op:?}: {e}")))?;
        }
        // drop everything, in slot order then handles
        let NameReal { slots, handles, witnesses } = real;
        drop(slots);
        drop(handles);
        for (w, a) in witnesses.iter().enumerate() {
            if Arc::strong_count(a) != 1 {
                return Err(("name:final-count".into(), format!("after dropping everything witness {w} has strong count {}", Arc::strong_count(a))));
            }
        }
        drop(witnesses);
        let mut enabled = 0u64;
        for (i, &op) in ops.iter().enumerate() {
            if model.enabled(op) {
                enabled |= 1 << i;
            }
        }
        let nontrivial = model.slots.iter().flatten().any(|m| !matches!(m.src, Src::S(_))) || !model.handles.is_empty();
        Ok(Summary { canon: model.canon(), enabled, nontrivial })
    });
    let out = match res {
        Ok(r) => r,
        Err(p) => Err(("name:panic".into(), format!("panic: {p}"))),
    };
    if out.is_ok() {
        let now = live();
        if now != base {
            return Err((
                "name:allocator-balance".into(),
                format!("live allocations changed by {} ({} bytes) over the history", now.0 - base.0, now.1 - base.1),
            ));
        }
    }
    out
}

fn opname(op: NOp) -> &'static str {
    match op {
        NOp::NewHeap(..) => "new",
        NOp::NewStatic(..) => "new_static",
        NOp::FromWitness(..) => "from_arc_unchecked",
        NOp::TryFromWitness(..) => "try_from_arc",
        NOp::Clone(..) => "clone",
        NOp::FromRef(..) => "from_ref",
        NOp::Drop(..) => "drop",
        NOp::WithLoc(..) => "with_location",
        NOp::ToArcKeep(..) => "to_cloned_arc",
        NOp::ToArcDrop(..) => "to_cloned_arc_drop",
        NOp::IntoArc(..) => "into_arc",
        NOp::DropHandle => "drop_handle",
    }
}

// ---------------------------------------------------------------------------------------------
// Node machine (Node<String>)
// ---------------------------------------------------------------------------------------------

const PSLOTS: usize = 3;

#[derive(Clone, PartialEq, Eq, Debug)]
struct NodeM {
    class: u8,
    value: String,
    loc: u8,
}

#[derive(Clone, Default, Debug)]
struct NodeModel {
    slots: [Option<NodeM>; PSLOTS],
    next_class: u8,
}

#[derive(Clone, Copy, PartialEq, Eq, Debug)]
enum POp {
    New(u8, u8),
    NewParsed(u8, u8),
    Clone(u8, u8),
    Drop(u8),
    MakeMutWrite(u8, u8),
    GetMutWrite(u8),
    SameLocation(u8, u8),
    FromValue(u8),
}

const VALUES: [&str; 2] = ["", "k"];
const WRITES: [char; 2] = ['x', 'y'];
const MAX_VALUE_LEN: usize = 3;

fn node_ops() -> Vec<POp> {
    let mut v = Vec::new();
    for p in 0..PSLOTS as u8 {
        v.push(POp::New(p, 0));
        v.push(POp::New(p, 1));
        v.push(POp::NewParsed(p, 1));
        v.push(POp::NewParsed(p, 2));
        for q in 0..PSLOTS as u8 {
            if p != q {
                v.push(POp::Clone(p, q));
            }
        }
        v.push(POp::Drop(p));
        v.push(POp::MakeMutWrite(p, 0));
        v.push(POp::MakeMutWrite(p, 1));
        v.push(POp::GetMutWrite(p));
        v.push(POp::SameLocation(p, (p + 1) % PSLOTS as u8));
        v.push(POp::FromValue(p));
    }
    v
}

impl NodeModel {
    fn class_size(&self, c: u8) -> usize {
        self.slots.iter().flatten().filter(|m| m.class == c).count()
    }
    fn enabled(&self, op: POp) -> bool {
        let full = |i: u8| self.slots[i as usize].is_some();
        match op {
            POp::New(..) | POp::NewParsed(..) | POp::FromValue(_) => true,
            POp::Clone(p, _) | POp::Drop(p) | POp::SameLocation(p, _) => full(p),
            POp::MakeMutWrite(p, _) | POp::GetMutWrite(p) => {
                full(p) && self.slots[p as usize].as_ref().unwrap().value.len() < MAX_VALUE_LEN
            }
        }
    }
    fn fresh(&mut self) -> u8 {
        let c = self.next_class;
        self.next_class += 1;
        c
    }
    fn apply(&mut self, op: POp) {
        match op {
            POp::New(p, v) => {
                let c = self.fresh();
                self.slots[p as usize] = Some(NodeM { class: c, value: VALUES[v as usize].into(), loc: 0 })
            }
            POp::NewParsed(p, k) => {
                let c = self.fresh();
                self.slots[p as usize] = Some(NodeM { class: c, value: "k".into(), loc: k })
            }
            POp::FromValue(p) => {
                let c = self.fresh();
                self.slots[p as usize] = Some(NodeM { class: c, value: "k".into(), loc: 0 })
            }
            POp::Clone(p, q) => self.slots[q as usize] = self.slots[p as usize].clone(),
            POp::Drop(p) => self.slots[p as usize] = None,
            POp::MakeMutWrite(p, w) => {
                let c = self.slots[p as usize].as_ref().unwrap().class;
                if self.class_size(c) > 1 {
                    let nc = self.fresh();
                    self.slots[p as usize].as_mut().unwrap().class = nc;
                }
                // the location is kept by make_mut (documented TODO in node.rs)
                self.slots[p as usize].as_mut().unwrap().value.push(WRITES[w as usize]);
            }
            POp::GetMutWrite(p) => {
                let c = self.slots[p as usize].as_ref().unwrap().class;
                if self.class_size(c) == 1 {
                    self.slots[p as usize].as_mut().unwrap().value.push('z');
                }
            }
            POp::SameLocation(p, q) => {
                let loc = self.slots[p as usize].as_ref().unwrap().loc;
                let c = self.fresh();
                self.slots[q as usize] = Some(NodeM { class: c, value: "s".into(), loc });
            }
        }
    }
    fn canon(&self) -> u128 {
        const PERMS: [[usize; 3]; 6] = [[0, 1, 2], [0, 2, 1], [1, 0, 2], [1, 2, 0], [2, 0, 1], [2, 1, 0]];
        let mut best: Option<Vec<u8>> = None;
        for p in PERMS {
            let mut ren: Vec<u8> = Vec::new();
            let mut enc = Vec::new();
            for &i in &p {
                match &self.slots[i] {
                    None => enc.push(0),
                    Some(m) => {
                        let k = match ren.iter().position(|x| *x == m.class) {
                            Some(k) => k,
                            None => {
                                ren.push(m.class);
                                ren.len() - 1
                            }
                        };
                        enc.extend([1, k as u8, m.loc, m.value.len() as u8]);
                        enc.extend(m.value.bytes());
                    }
                }
            }
            if best.as_ref().is_none_or(|b| enc < *b) {
                best = Some(enc);
            }
        }
        fnv128(&best.unwrap())
    }
}

struct NodeReal {
    slots: [Option<Node<String>>; PSLOTS],
}

impl NodeReal {
    fn apply(&mut self, op: POp, m: &NodeModel) -> Result<(), String> {
        match op {
            POp::New(p, v) => self.slots[p as usize] = Some(Node::new(VALUES[v as usize].to_string())),
            POp::NewParsed(p, k) => self.slots[p as usize] = Some(Node::new_parsed("k".to_string(), loc_of(k).unwrap())),
            POp::FromValue(p) => self.slots[p as usize] = Some(Node::from("k".to_string())),
            POp::Clone(p, q) => {
                let c = self.slots[p as usize].as_ref().unwrap().clone();
                self.slots[q as usize] = Some(c);
            }
            POp::Drop(p) => self.slots[p as usize] = None,
            POp::MakeMutWrite(p, w) => self.slots[p as usize].as_mut().unwrap().make_mut().push(WRITES[w as usize]),
            POp::GetMutWrite(p) => {
                let unique = m.class_size(m.slots[p as usize].as_ref().unwrap().class) == 1;
                match self.slots[p as usize].as_mut().unwrap().get_mut() {
                    Some(s) => {
                        if !unique {
                            // write anyway: the following check shows the clones changing
                            s.push('z');
                            return Err("get_mut() returned Some on a shared node".into());
                        }
                        s.push('z')
                    }
                    None => {
                        if unique {
                            return Err("get_mut() returned None on a uniquely owned node".into());
                        }
                    }
                }
            }
            POp::SameLocation(p, q) => {
                let n = self.slots[p as usize].as_ref().unwrap().same_location("s".to_string());
                self.slots[q as usize] = Some(n);
            }
        }
        Ok(())
    }
    fn check(&mut self, m: &NodeModel) -> Result<(), String> {
        for i in 0..PSLOTS {
            match (&self.slots[i], &m.slots[i]) {
                (None, None) => {}
                (Some(n), Some(mm)) => {
                    if **n != mm.value || n.as_ref() as &String != &mm.value {
                        return Err(format!("node {i}: value {:?}, expected {:?}", **n, mm.value));
                    }
                    if n.location() != loc_of(mm.loc) {
                        return Err(format!("node {i}: location {:?}, expected {:?}", n.location(), loc_of(mm.loc)));
                    }
                }
                _ => return Err(format!("node {i}: presence differs")),
            }
        }
        for i in 0..PSLOTS {
            for j in 0..PSLOTS {
                if let (Some(a), Some(b), Some(am), Some(bm)) = (&self.slots[i], &self.slots[j], &m.slots[i], &m.slots[j]) {
                    if a.ptr_eq(b) != (am.class == bm.class) {
                        return Err(format!("nodes {i},{j}: ptr_eq is {}, sharing expected: {}", a.ptr_eq(b), am.class == bm.class));
                    }
                    if (a == b) != (am.value == bm.value) {
                        return Err(format!("nodes {i},{j}: == is {}", a == b));
                    }
                    let h = |n: &Node<String>| {
                        let mut s = DefaultHasher::new();
                        n.hash(&mut s);
                        s.finish()
                    };
                    if am.value == bm.value && h(a) != h(b) {
                        return Err(format!("nodes {i},{j}: equal values hash differently"));
                    }
                }
            }
        }
        // uniqueness probe (get_mut without writing)
        for i in 0..PSLOTS {
            if let (Some(n), Some(mm)) = (self.slots[i].as_mut(), &m.slots[i]) {
                let unique = m.class_size(mm.class) == 1;
                if n.get_mut().is_some() != unique {
                    return Err(format!("node {i}: get_mut().is_some() is {}, uniquely owned expected: {unique}", !unique));
                }
            }
        }
        Ok(())
    }
}

fn popname(op: POp) -> &'static str {
    match op {
        POp::New(..) => "new",
        POp::NewParsed(..) => "new_parsed",
        POp::Clone(..) => "clone",
        POp::Drop(..) => "drop",
        POp::MakeMutWrite(..) => "make_mut",
        POp::GetMutWrite(..) => "get_mut",
        POp::SameLocation(..) => "same_location",
        POp::FromValue(..) => "from",
    }
}

fn run_node_history(ops: &[POp], hist: &[usize], st: &mut Stats) -> Result<Summary, (String, String)> {
    let base = live();
    let res = vcore::catch(|| -> Result<Summary, (String, String)> {
        let mut model = NodeModel::default();
        let mut real = NodeReal { slots: [None, None, None] };
        for (k, &oi) in hist.iter().enumerate() {
            let op = ops[oi];
            if !model.enabled(op) {
                return Err(("machinery:disabled-op".into(), format!("step {k}: {op:?} is not enabled")));
            }
            let r = real.apply(op, &model);
            model.apply(op);
            st.transitions += 1;
            r.map_err(|e| (format!("node:{}", popname(op)), format!("step {k} {op:?}: {e}")))?;
            real.check(&model).map_err(|e| (format!("node:{}", popname(op)), format!("after step {k} {op:?}: {e}")))?;
        }
        drop(real);
        let mut enabled = 0u64;
        for (i, &op) in ops.iter().enumerate() {
            if model.enabled(op) {
                enabled |= 1 << i;
            }
        }
        let nontrivial = model.slots.iter().flatten().any(|m| model.class_size(m.class) > 1);
        Ok(Summary { canon: model.canon(), enabled, nontrivial })
    });
    let out = match res {
        Ok(r) => r,
        Err(p) => Err(("node:panic".into(), format!("panic: {p}"))),
    };
    if out.is_ok() {
        let now = live();
        if now != base {
            return Err((
                "node:allocator-balance".into(),
                format!("live allocations changed by {} ({} bytes) over the history", now.0 - base.0, now.1 - base.1),
            ));
        }
    }
    out
}

// ---------------------------------------------------------------------------------------------
// two-thread baton replay of a name history
// ---------------------------------------------------------------------------------------------

/// Replays `hist` with operation k executed on thread `(mask >> k) & 1`; the whole pool moves over
/// a channel between the two threads, the final drop happens on the thread of the last operation.
fn run_name_history_threads(ops: &[NOp], hist: &[usize], mask: u32) -> Result<(), (String, String)> {
    use std::sync::mpsc::channel;
    type Msg = Option<(NameReal, NameModel, usize)>;
    let (tx0, rx0) = channel::<Msg>();
    let (tx1, rx1) = channel::<Msg>();
    let (done_tx, done_rx) = channel::<Result<(), (String, String)>>();
    let hist_v: Vec<usize> = hist.to_vec();
    let ops_v: Vec<NOp> = ops.to_vec();
    let worker = |me: u32, rx: std::sync::mpsc::Receiver<Msg>, other: std::sync::mpsc::Sender<Msg>, mine: std::sync::mpsc::Sender<Msg>, done: std::sync::mpsc::Sender<Result<(), (String, String)>>, hist: Vec<usize>, ops: Vec<NOp>| {
        move || {
            while let Ok(Some((mut real, mut model, mut k))) = rx.recv() {
                // run every consecutive step that belongs to this thread
                let r = vcore::catch(|| -> Result<Option<(NameReal, NameModel, usize)>, (String, String)> {
                    while k < hist.len() && (mask >> k) & 1 == me {
                        let op = ops[hist[k]];
                        real.apply(op).map_err(|e| (format!("threads:name:{}", opname(op)), format!("step {k} {op:?} on thread {me}: {e}")))?;
                        model.apply(op);
                        real.check(&model).map_err(|e| (format!("threads:name:{}", opname(op)), format!("after step {k} {op:?} on thread {me}: {e}")))?;
                        k += 1;
                    }
                    if k == hist.len() {
                        let NameReal { slots, handles, witnesses } = real;
                        drop(slots);
                        drop(handles);
                        for (w, a) in witnesses.iter().enumerate() {
                            if Arc::strong_count(a) != 1 {
                                return Err(("threads:name:final-count".into(), format!("witness {w} has strong count {} at the end", Arc::strong_count(a))));
                            }
                        }
                        Ok(None)
                    } else {
                        Ok(Some((real, model, k)))
                    }
                });
                match r {
                    Ok(Ok(None)) => {
                        let _ = done.send(Ok(()));
                    }
                    Ok(Ok(Some(next))) => {
                        let _ = other.send(Some(next));
                    }
                    Ok(Err(e)) => {
                        let _ = done.send(Err(e));
                    }
                    Err(p) => {
                        let _ = done.send(Err(("threads:name:panic".into(), format!("panic: {p}"))));
                    }
                }
            }
            let _ = mine;
        }
    };
    let h0 = std::thread::spawn(worker(0, rx0, tx1.clone(), tx0.clone(), done_tx.clone(), hist_v.clone(), ops_v.clone()));
    let h1 = std::thread::spawn(worker(1, rx1, tx0.clone(), tx1.clone(), done_tx.clone(), hist_v, ops_v));
    let first = if hist.is_empty() { 0 } else { mask & 1 };
    let start = Some((NameReal::new(), NameModel::default(), 0usize));
    let _ = if first == 0 { tx0.send(start) } else { tx1.send(start) };
    let res = done_rx.recv().unwrap_or(Err(("machinery:threads".into(), "workers vanished".into())));
    let _ = tx0.send(None);
    let _ = tx1.send(None);
    let _ = h0.join();
    let _ = h1.join();
    res
}

// ---------------------------------------------------------------------------------------------

fn replay(case: &Value, st: &mut Stats) {
    let hist: Vec<usize> = case["history"].as_array().map(|a| a.iter().filter_map(|x| x.as_u64().map(|x| x as usize)).collect()).unwrap_or_default();
    st.states += 1;
    match case["machine"].as_str() {
        Some("name") => {
            let ops = name_ops();
            if let Err((sig, d)) = run_name_history(&ops, &hist, st) {
                st.fail_simple(&sig, case.clone(), d, hist.len() as u64);
            }
        }
        Some("node") => {
            let ops = node_ops();
            if let Err((sig, d)) = run_node_history(&ops, &hist, st) {
                st.fail_simple(&sig, case.clone(), d, hist.len() as u64);
            }
        }
        Some("name-threads") => {
            let ops = name_ops();
            let mask = case["mask"].as_u64().unwrap_or(0) as u32;
            if let Err((sig, d)) = run_name_history_threads(&ops, &hist, mask) {
                st.fail_simple(&sig, case.clone(), d, hist.len() as u64);
            }
        }
        _ => vcore::machinery_error("replay: unknown machine"),
    }
}

// ---------------------------------------------------------------------------------------------
// Supervisor: the exploration runs in a child process, because the defects this property is
// about (a count that is one too low) end in a use-after-free / double free that aborts the
// process before any oracle can speak. A child that dies from a signal is turned into a verdict
// by re-running short histories one per child process until the dying one is found.
// ---------------------------------------------------------------------------------------------

fn child(args: &[String]) -> std::process::Output {
    let exe = std::env::current_exe().unwrap_or_else(|e| vcore::machinery_error(&format!("current_exe: {e}")));
    std::process::Command::new(exe)
        .args(args)
        .env("RUST_BACKTRACE", "0")
        .output()
        .unwrap_or_else(|e| vcore::machinery_error(&format!("cannot start the worker process: {e}")))
}

/// Runs one history in a child: Ok(true) = held, Ok(false) = oracle violation, Err = died.
fn single_in_child(machine: &str, hist: &[usize]) -> Result<bool, String> {
    let o = child(&["--worker".into(), "--single".into(), machine.into(), serde_json::to_string(hist).unwrap()]);
    match o.status.code() {
        Some(0) => Ok(true),
        Some(1) => Err(format!(
            "oracle violation in an isolated replay: {}",
            vcore::short(String::from_utf8_lossy(&o.stdout).lines().find(|l| l.starts_with("SINGLE")).unwrap_or(""))
        )),
        Some(2) => vcore::machinery_error(&format!("single-history worker reported a machinery error: {}", String::from_utf8_lossy(&o.stdout))),
        other => Err(format!(
            "worker process died ({}) while replaying the history: {}",
            other.map(|c| format!("exit code {c}")).unwrap_or_else(|| "killed by a signal".into()),
            vcore::short(String::from_utf8_lossy(&o.stderr).lines().last().unwrap_or(""))
        )),
    }
}

fn worker_single(machine: &str, hist_json: &str) -> ! {
    vcore::quiet_panics();
    let _ = spans();
    let hist: Vec<usize> = serde_json::from_str(hist_json).unwrap_or_default();
    let mut st = Stats::default();
    let r = match machine {
        "name" => run_name_history(&name_ops(), &hist, &mut st).map(|_| ()),
        _ => run_node_history(&node_ops(), &hist, &mut st).map(|_| ()),
    };
    match r {
        Ok(()) => std::process::exit(0),
        Err((sig, _)) if sig == "machinery:disabled-op" => std::process::exit(0),
        Err((sig, d)) => {
            println!("SINGLE violation {sig}: {d}");
            std::process::exit(1)
        }
    }
}

fn supervisor() -> ! {
    let args: Vec<String> = std::env::args().skip(1).collect();
    let mut wargs = vec!["--worker".to_string()];
    wargs.extend(args.iter().cloned());
    let exe = std::env::current_exe().unwrap_or_else(|e| vcore::machinery_error(&format!("current_exe: {e}")));
    let status = std::process::Command::new(exe)
        .args(&wargs)
        .env("RUST_BACKTRACE", "0")
        .status()
        .unwrap_or_else(|e| vcore::machinery_error(&format!("cannot start the worker process: {e}")));
    if let Some(c @ (0 | 1 | 2)) = status.code() {
        std::process::exit(c);
    }
    // the worker died: memory error (or an abort inside apollo-rs). Turn it into a verdict.
    let how = status.code().map(|c| format!("exit code {c}")).unwrap_or_else(|| "killed by a signal".into());
    let mut chk = vcore::Check::new("C30");
    if chk.args.replay.is_some() {
        println!("REPLAY property=C30 result=violation signature=memory-error detail=the worker process died ({how}) while replaying the case");
        std::process::exit(1);
    }
    println!("NOTE the exploring worker process died ({how}); localising with one child process per history");
    let mut found: Option<(String, Vec<usize>, String)> = None;
    'outer: for depth in 1..=2usize {
        for (machine, k) in [("name", name_ops().len()), ("node", node_ops().len())] {
            let total = hist_count(k, depth);
            let hists: Vec<Vec<usize>> = (0..total).map(|i| nth_hist(k, depth, i)).collect();
            use rayon::prelude::*;
            let results: Vec<(Vec<usize>, Result<bool, String>)> =
                hists.par_iter().map(|h| (h.clone(), single_in_child(machine, h))).collect();
            chk.stats.states += results.len() as u64;
            chk.stats.transitions += results.len() as u64 * depth as u64;
            for (h, r) in results {
                match r {
                    Ok(true) => chk.stats.outcome("single-history child: held"),
                    Ok(false) => chk.stats.outcome("single-history child: oracle violation"),
                    Err(e) => {
                        if found.is_none() {
                            found = Some((machine.to_string(), h, e));
                        }
                    }
                }
            }
            if found.is_some() {
                break 'outer;
            }
        }
    }
    match found {
        Some((machine, h, e)) => {
            let ops: Vec<String> = if machine == "name" {
                h.iter().map(|&i| format!("{:?}", name_ops()[i])).collect()
            } else {
                h.iter().map(|&i| format!("{:?}", node_ops()[i])).collect()
            };
            chk.stats.fail_simple(
                &format!("memory-error:{machine}"),
                json!({"machine": machine, "history": h, "crash": true, "operations": ops}),
                format!("history {ops:?}: {e}"),
                h.len() as u64,
            );
        }
        None => chk.stats.fail_simple(
            "memory-error:unlocalised",
            json!({"machine": "full-run", "crash": true}),
            format!("the exploring worker died ({how}) but no history of length <= 2 reproduces it in isolation"),
            99,
        ),
    }
    chk.stats.nontrivial = 1;
    chk.rule = "supervisor mode: the exploring worker died; states = histories replayed one per child process".into();
    chk.bounds = json!({"mode": "crash localisation", "max_history_length": 2});
    chk.exhaustive = false;
    chk.finish(&|case| match case["machine"].as_str() {
        Some(m @ ("name" | "node")) => {
            let h: Vec<usize> = case["history"].as_array().map(|a| a.iter().filter_map(|x| x.as_u64().map(|x| x as usize)).collect()).unwrap_or_default();
            !matches!(single_in_child(m, &h), Ok(true))
        }
        _ => true,
    })
}

fn hist_count(k: usize, depth: usize) -> u64 {
    (k as u64).pow(depth as u32)
}

fn nth_hist(k: usize, depth: usize, mut i: u64) -> Vec<usize> {
    let mut h = vec![0usize; depth];
    for d in (0..depth).rev() {
        h[d] = (i % k as u64) as usize;
        i /= k as u64;
    }
    h
}

fn main() {
    let argv: Vec<String> = std::env::args().collect();
    if !argv.iter().any(|a| a == "--worker") {
        supervisor();
    }
    if let Some(p) = argv.iter().position(|a| a == "--single") {
        worker_single(argv.get(p + 1).map(|s| s.as_str()).unwrap_or("name"), argv.get(p + 2).map(|s| s.as_str()).unwrap_or("[]"));
    }
    let mut chk = vcore::Check::new("C30");
    vcore::quiet_panics();
    let _ = spans();
    if let Some(case) = chk.replay_case() {
        let mut st = Stats::default();
        replay(&case, &mut st);
        chk.absorb(st);
        chk.finish_replay();
    }
    let tier = chk.tier();
    let name_depth: u32 = tier.pick(5, 7);
    let node_depth: u32 = tier.pick(6, 9);
    let thread_depth: usize = tier.pick(3, 4);

    // ---- Name machine -----------------------------------------------------------------------
    let nops = name_ops();
    let thread_hists = std::sync::Mutex::new(Vec::<Vec<usize>>::new());
    let (st, rep) = bfs(NameModel::default().canon(), name_depth, |hist, st| {
        // state reached by `hist` (already verified when it was discovered, except the root)
        let model = match run_name_history(&nops, hist, &mut Stats::default()) {
            Ok(m) => m,
            Err(_) => return Vec::new(), // the failing edge was reported when it was first executed
        };
        if hist.len() <= thread_depth && !hist.is_empty() {
            thread_hists.lock().unwrap().push(hist.to_vec());
        }
        let mut succ = Vec::new();
        for (oi, &op) in nops.iter().enumerate() {
            if model.enabled & (1 << oi) == 0 {
                continue;
            }
            let mut h2 = hist.to_vec();
            h2.push(oi);
            st.states += 1;
            match run_name_history(&nops, &h2, st) {
                Ok(m2) => {
                    st.nontrivial += m2.nontrivial as u64;
                    st.outcome(&format!("name op {} ok", opname(op)));
                    succ.push((oi, m2.canon));
                }
                Err((sig, d)) => {
                    st.outcome(&format!("name op {} VIOLATED", opname(op)));
                    st.fail_simple(&sig, name_case(&h2), d, h2.len() as u64);
                }
            }
        }
        succ
    });
    chk.absorb(st);
    chk.stats.count("name machine: canonical states", rep.states);
    chk.stats.count("name machine: transitions (enabled operations from distinct states)", rep.transitions);
    let name_levels = rep.levels.clone();
    let name_closed = rep.closed;

    // ---- Node machine -----------------------------------------------------------------------
    let pops = node_ops();
    let (st, prep) = bfs(NodeModel::default().canon(), node_depth, |hist, st| {
        let model = match run_node_history(&pops, hist, &mut Stats::default()) {
            Ok(m) => m,
            Err(_) => return Vec::new(),
        };
        let mut succ = Vec::new();
        for (oi, &op) in pops.iter().enumerate() {
            if model.enabled & (1 << oi) == 0 {
                continue;
            }
            let mut h2 = hist.to_vec();
            h2.push(oi);
            st.states += 1;
            match run_node_history(&pops, &h2, st) {
                Ok(m2) => {
                    let shared = m2.nontrivial;
                    st.nontrivial += shared as u64;
                    st.outcome(&format!("node op {} ok ({})", popname(op), if shared { "some node shared" } else { "no sharing" }));
                    succ.push((oi, m2.canon));
                }
                Err((sig, d)) => {
                    st.outcome(&format!("node op {} VIOLATED", popname(op)));
                    st.fail_simple(&sig, json!({"machine": "node", "history": h2}), d, h2.len() as u64);
                }
            }
        }
        succ
    });
    chk.absorb(st);
    chk.stats.count("node machine: canonical states", prep.states);
    chk.stats.count("node machine: transitions (enabled operations from distinct states)", prep.transitions);

    // ---- two-thread baton replays -----------------------------------------------------------
    let mut th = thread_hists.into_inner().unwrap();
    th.sort();
    th.dedup();
    let th_stats = vcore::par_items(&th, |h, st| {
        for mask in 0..(1u32 << h.len()) {
            if mask == 0 {
                continue; // all on one thread = the sequential run
            }
            st.states += 1;
            st.transitions += h.len() as u64;
            match run_name_history_threads(&nops, h, mask) {
                Ok(()) => st.outcome("two-thread hand-over replay ok"),
                Err((sig, d)) => {
                    st.outcome("two-thread hand-over replay VIOLATED");
                    st.fail_simple(&sig, json!({"machine": "name-threads", "history": h, "mask": mask}), d, h.len() as u64);
                }
            }
        }
    });
    chk.absorb(th_stats);
    chk.stats.count("two-thread replays: representative histories", th.len() as u64);

    chk.bounds = json!({
        "name_machine": {"slots": NSLOTS, "witness_arcs": 2, "max_handles": MAX_HANDLES, "operations": nops.len(), "depth": name_depth,
                          "new_states_per_level": name_levels, "closed_before_bound": name_closed},
        "node_machine": {"slots": PSLOTS, "operations": pops.len(), "depth": node_depth,
                          "new_states_per_level": prep.levels, "closed_before_bound": prep.closed},
        "two_thread_replay": {"history_depth": thread_depth, "assignments": "every non-constant assignment of operations to 2 threads"},
    });
    chk.rule = "states = (canonical state, enabled operation) pairs executed, each by replaying the state's first history plus the operation on fresh real objects with the oracle after every step; canonical state = reference pool modulo slot permutation and renaming of fresh backing strings; non-trivial = name states holding at least one heap name or handle, node states with at least one shared node".into();
    chk.assumptions = vec![
        "merging histories that reach the same reference-pool state is sound because every observable of the real objects (texts, locations, tags, strong counts, sharing, uniqueness) is compared with the pool after every step, so merged states have equal real observables; the alphabet is symmetric in the slots".into(),
        "interleavings inside Arc::clone / Arc::drop are not explored (std::sync::Arc and triomphe::Arc are not intercepted: trusted base); the thread dimension moves the values between two OS threads between operations".into(),
        "memory errors are detected through reference counts, sharing and the allocator balance, not by instrumenting loads (no miri/ASan in this binary)".into(),
        "Name::*_unchecked validity preconditions are respected (texts are valid names); with_location is given spans whose length equals the name length (its documented debug assertion)".into(),
    ];
    chk.exhaustive = true;
    chk.finish(&|case| {
        let mut st = Stats::default();
        replay(case, &mut st);
        !st.failures.is_empty()
    })
}
