//! C32 — apollo-smith generates valid documents deterministically (DESIGN.md §6 C32).
//! E-INPUT: every byte string in the stated families is fed (a) to
//! `DocumentBuilder::new(..).build()` and (b) to `DocumentBuilder::with_document(.., schema)` +
//! `operation_definition()` for five valid base schemas.
//!
//! Oracle (the statement, nothing more): the generator returns `Err` only as "not enough data";
//! on `Ok` the text parses with zero syntax errors and validates as a mixed document
//! (`ast::Document::parse` + `to_mixed_validate`, the pipeline of fuzz/fuzz_targets/validate.rs);
//! two runs on the same bytes give the same text; an operation generated against a parsed schema
//! validates against that schema; no panic.

use apollo_compiler::validation::Valid;
use apollo_compiler::{ast, ExecutableDocument, Schema};
use apollo_smith::{DocumentBuilder, Unstructured};
use serde_json::{json, Value};
use std::collections::BTreeSet;
use std::sync::Mutex;
use vcore::{enumerate as en, Check, Stats};

/// The focused byte alphabet of DESIGN §6 C32.
const SMALL: [u8; 6] = [0x00, 0x01, 0x02, 0x07, 0x7f, 0xff];
const REP_LEN: usize = 64;
/// long low-entropy inputs: units over this alphabet repeated to each of these lengths (documents
/// with dozens of definitions come only out of long inputs)
const LONG_ALPHA: [u8; 9] = [0x00, 0x01, 0x02, 0x03, 0x04, 0x05, 0x07, 0x7f, 0xff];
const LONG_LENS: [usize; 3] = [256, 1024, 4096];
const DEV_VALUES: [u8; 8] = [1, 2, 3, 4, 5, 6, 7, 255];

/// Five valid base schemas (each with an explicit `schema` definition: `operation_definition`
/// returns `None` without one). Field types stay inside what `DocumentBuilder::stack_ty`
/// implements (objects, interfaces, enums, built-in scalars); unions, custom scalars and input
/// objects appear as definitions, argument types and directive argument types.
const SCHEMAS: &[(&str, &str)] = &[
    ("minimal", "schema { query: Query } type Query { id: ID! }"),
    (
        "roots-args-enums",
        r#"schema { query: Query mutation: Mutation subscription: Subscription }
type Query { me: User users(first: Int = 3, after: ID, kinds: [Kind!]): [User!]! kind: Kind count: Int! ratio: Float flag(on: Boolean!): Boolean }
type Mutation { rename(id: ID!, name: String!): User bump(by: Int): Int! }
type Subscription { tick(every: Float): Int userChanged(kind: Kind = ADMIN): User }
type User { id: ID! name: String kind: Kind! friends(limit: Int): [User] best: User tags: [String!] matrix: [[Int]] }
enum Kind { ADMIN MEMBER GUEST }"#,
    ),
    (
        "interfaces",
        r#"schema { query: Query }
interface Node { id: ID! }
interface Named implements Node { id: ID! name: String }
type Person implements Named & Node { id: ID! name: String age: Int boss: Person }
type Robot implements Node { id: ID! model: String owner: Person }
type Query { node(id: ID!): Node named: [Named] person: Person robots: [Robot!] }"#,
    ),
    (
        "directives-inputs",
        r#"schema { query: Query mutation: Mutation }
directive @tag(name: String!, weight: Int = 1) repeatable on FIELD | QUERY | MUTATION | FRAGMENT_SPREAD | INLINE_FRAGMENT
directive @flag on FIELD | FIELD_DEFINITION
directive @opts(o: Opts, ks: [Color!], f: Float) on FIELD | QUERY
input Opts { limit: Int = 10 color: Color! labels: [String] inner: Inner }
input Inner { deep: Boolean! n: Float }
enum Color { RED GREEN }
type Query { search(opts: Opts, colors: [Color] = [RED], q: String!): [Item] item(id: ID!): Item @flag }
type Mutation { put(item: Opts!): Item }
type Item { id: ID! color: Color score(scale: Float = 1.5): Float parent: Item }"#,
    ),
    (
        "unions-scalars-extensions",
        r#"schema { query: Query }
scalar Date
scalar JSON
union Thing = Book | Film
type Book { title: String! year: Int author: Author }
type Film { title: String! length(unit: Unit = MIN): Float }
type Author { name: String books(after: Date, filter: JSON): [Book!] }
enum Unit { MIN SEC }
type Query { books(on: Date): [Book] films: [Film!]! author(id: ID): Author unit: Unit }
extend type Query { latest(since: Date!): Book }
extend enum Unit { HOUR }"#,
    ),
];

/// Fixed inputs on which apollo-smith generates an invalid document (found by an independent
/// random search of long low-entropy inputs, minimised; they are NOT part of the exhaustive claim).
/// (file, finding id, error class of the first diagnostic)
const WITNESSES: &[(&str, &str, &str)] = &[
    ("c32_dup_implements.json", "C32-object-extension-repeats-implements", "more than once"),
    ("c32_subtype.json", "C32-interface-field-type-not-subtype", "is not a proper subtype"),
    ("c32_required.json", "C32-required-input-field-missing-in-generated-value", "the required field"),
    // no finding: an input on which the generated document has a fragment spread chain of depth 3
    // (operation -> F3 -> F2 -> F1, each fragment defined before the one that spreads it); taken from
    // the demonstration of seeded change C32-m1, which no enumerated family reaches
    ("c32_fragment_chain.json", "-", "-"),
];

/// (index, mode) of the supplementary low-entropy sequence whose generated document is invalid on
/// the current tree, each by one of the two open findings (the class of the first diagnostic
/// decides which).
const KNOWN_LOW_ENTROPY: &[(u64, u8)] = &[(2599, 1), (3390, 0), (6034, 0), (7627, 0), (8048, 0)];

struct Ctx {
    /// (bytes, finding id, message class, finding is open)
    witnesses: Vec<(Vec<u8>, &'static str, &'static str, bool)>,
    schemas: Vec<(String, apollo_smith::Document, Valid<Schema>)>,
    /// 128-bit fingerprints of every distinct generated text (membership only)
    distinct: Vec<Mutex<BTreeSet<u128>>>,
}

fn fingerprint(kind: u8, s: &str) -> u128 {
    let mut a: u64 = 0xcbf29ce484222325 ^ kind as u64;
    let mut b: u64 = 0x84222325cbf29ce4 ^ ((kind as u64) << 8);
    for &c in s.as_bytes() {
        a = (a ^ c as u64).wrapping_mul(0x100000001b3);
        b = (b.rotate_left(5) ^ c as u64).wrapping_mul(0x9E3779B97F4A7C15);
    }
    ((a as u128) << 64) | b as u128
}

impl Ctx {
    fn new() -> Ctx {
        let mut schemas = Vec::new();
        for (name, text) in SCHEMAS {
            let valid = match Schema::parse_and_validate(*text, "base.graphql") {
                Ok(s) => s,
                Err(e) => vcore::machinery_error(&format!("base schema {name} is not valid: {}", e.errors)),
            };
            let cst = apollo_parser::Parser::new(text).parse();
            if cst.errors().next().is_some() {
                vcore::machinery_error(&format!("base schema {name} has syntax errors"));
            }
            let doc: apollo_smith::Document = match cst.document().try_into() {
                Ok(d) => d,
                Err(e) => vcore::machinery_error(&format!("base schema {name} does not convert: {e}")),
            };
            schemas.push((name.to_string(), doc, valid));
        }
        Ctx { witnesses: Vec::new(), schemas, distinct: (0..64).map(|_| Mutex::new(BTreeSet::new())).collect() }
    }
    fn record(&self, kind: u8, text: &str) {
        let fp = fingerprint(kind, text);
        self.distinct[(fp % 64) as usize].lock().unwrap().insert(fp);
    }
    fn distinct_total(&self) -> u64 {
        self.distinct.iter().map(|m| m.lock().unwrap().len() as u64).sum()
    }
}

#[derive(Debug, PartialEq, Eq)]
enum Gen {
    Text(String),
    /// `operation_definition()` returned `Ok(None)`
    Nothing,
    NotEnoughData,
    /// `arbitrary::Error::IncorrectFormat`: the generator declines these bytes (an extension that
    /// would be empty, a union without candidate members). Like "input exhausted" it is the
    /// generator saying "no document from this input", not a wrong document.
    Declined,
    OtherErr(String),
}

fn map_err(e: arbitrary::Error) -> Gen {
    match e {
        arbitrary::Error::NotEnoughData => Gen::NotEnoughData,
        arbitrary::Error::IncorrectFormat => Gen::Declined,
        other => Gen::OtherErr(format!("{other:?}")),
    }
}

fn gen_doc(bytes: &[u8]) -> Result<Gen, String> {
    vcore::catch(|| {
        let mut u = Unstructured::new(bytes);
        match DocumentBuilder::new(&mut u).build() {
            Ok(doc) => Gen::Text(String::from(doc)),
            Err(e) => map_err(e),
        }
    })
}

/// Whole document with every `max_*` of the builder raised to 50 (more definitions per input).
fn gen_doc50(bytes: &[u8]) -> Result<Gen, String> {
    vcore::catch(|| {
        let mut u = Unstructured::new(bytes);
        match DocumentBuilder::new(&mut u)
            .max_scalar_types(50)
            .max_enum_types(50)
            .max_interface_types(50)
            .max_object_types(50)
            .max_union_types(50)
            .max_input_object_types(50)
            .max_fragment_definitions(50)
            .max_directive_definitions(50)
            .max_operation_definitions(50)
            .build()
        {
            Ok(doc) => Gen::Text(String::from(doc)),
            Err(e) => map_err(e),
        }
    })
}

const MODE_DOC50: usize = 99;

fn gen_op(bytes: &[u8], base: &apollo_smith::Document) -> Result<Gen, String> {
    vcore::catch(|| {
        let mut u = Unstructured::new(bytes);
        let mut b = match DocumentBuilder::with_document(&mut u, base.clone()) {
            Ok(b) => b,
            Err(e) => return map_err(e),
        };
        match b.operation_definition() {
            Ok(Some(op)) => Gen::Text(String::from(op)),
            Ok(None) => Gen::Nothing,
            Err(e) => map_err(e),
        }
    })
}

/// A failing whole-document case is attributed to a listed finding only if it is exactly one of the
/// recorded witness inputs, the finding is open, and the first diagnostic is of the recorded class.
fn known_class(ctx: &Ctx, mode: usize, bytes: &[u8], sig: &str) -> Option<&'static str> {
    if !(mode == 0 || mode == MODE_DOC50) {
        return None;
    }
    ctx.witnesses
        .iter()
        .find(|(b, _, class, open)| *open && b.as_slice() == bytes && sig.contains(class))
        .map(|(_, id, _, _)| *id)
}

/// Supplementary family (SAMPLING, labelled as such everywhere): a fixed, deterministic sequence
/// of long low-entropy inputs (xorshift stream, bytes folded into 0..8, length < 2000). Defects of
/// the generator that need a hundred or more specific choices are out of reach of the enumerated
/// families; this sequence reaches some of them. It is not part of the exhaustive claim.
fn low_entropy_input(index: u64, mode: u8) -> Vec<u8> {
    let mut x: u64 = (index + 1).wrapping_mul(0x9E37_79B9_7F4A_7C15) | 1;
    let mut next = move || {
        x ^= x << 13;
        x ^= x >> 7;
        x ^= x << 17;
        x
    };
    let len = (next() % 2000) as usize + 1;
    (0..len)
        .map(|_| {
            let r = next();
            match mode {
                0 => ((r >> 24) % 8) as u8,
                _ => {
                    if (r >> 20) % 4 == 0 {
                        (r >> 24) as u8
                    } else {
                        ((r >> 24) % 4) as u8
                    }
                }
            }
        })
        .collect()
}

fn size_bucket(n: usize) -> &'static str {
    match n {
        0..=255 => "<256B",
        256..=1023 => "<1KiB",
        1024..=8191 => "<8KiB",
        _ => ">=8KiB",
    }
}

/// mode 0 = whole document; mode k>0 = operation against base schema k-1
fn run_case(ctx: &Ctx, bytes: &[u8], mode: usize, st: &mut Stats) {
    st.states += 1;
    let case = || json!({"bytes": bytes, "mode": mode});
    let size = bytes.len() as u64 * 8 + mode as u64;
    let whole = mode == 0 || mode == MODE_DOC50;
    let tag = match mode {
        0 => "doc".to_string(),
        MODE_DOC50 => "doc50".to_string(),
        m => format!("op[{}]", ctx.schemas[m - 1].0),
    };
    let generate = || match mode {
        0 => gen_doc(bytes),
        MODE_DOC50 => gen_doc50(bytes),
        m => gen_op(bytes, &ctx.schemas[m - 1].1),
    };
    st.transitions += 2;
    let first = match generate() {
        Ok(g) => g,
        Err(p) => {
            st.fail_simple(&format!("{tag}:generator-panic"), case(), format!("generator panicked: {}", vcore::short(&p)), size);
            return;
        }
    };
    let second = match generate() {
        Ok(g) => g,
        Err(p) => {
            st.fail_simple(&format!("{tag}:generator-panic"), case(), format!("second run panicked: {}", vcore::short(&p)), size);
            return;
        }
    };
    if first != second {
        st.fail_simple(
            &format!("{tag}:nondeterministic"),
            case(),
            format!("two runs on the same bytes differ: {} vs {}", vcore::short(&format!("{first:?}")), vcore::short(&format!("{second:?}"))),
            size,
        );
        return;
    }
    let text = match first {
        Gen::Text(t) => t,
        Gen::NotEnoughData => {
            st.outcome(&format!("{tag}:not-enough-data"));
            return;
        }
        Gen::Nothing => {
            st.outcome(&format!("{tag}:no-operation"));
            return;
        }
        Gen::Declined => {
            st.outcome(&format!("{tag}:input-declined (IncorrectFormat)"));
            return;
        }
        Gen::OtherErr(e) => {
            st.fail_simple(&format!("{tag}:error-other-than-not-enough-data"), case(), format!("generator returned Err({e})"), size);
            return;
        }
    };
    ctx.record(mode as u8, &text);
    st.transitions += 1;
    let verdict = vcore::catch(|| -> Result<(), (String, String)> {
        if whole {
            let doc = match ast::Document::parse(text.as_str(), "smith.graphql") {
                Ok(d) => d,
                Err(e) => {
                    // nesting beyond apollo-parser's DEFAULT recursion limit (a safety limit of the
                    // parser, not a grammar rule): the document is not judged
                    if e.errors.iter().all(|d| d.error.to_string().contains("recursion limit reached")) {
                        return Err(("not-judged:deeper-than-default-recursion-limit".into(), String::new()));
                    }
                    return Err(("syntax-error".into(), e.errors.to_string()));
                }
            };
            match doc.to_mixed_validate() {
                Ok(_) => Ok(()),
                Err(errors) => {
                    let name = errors.iter().next().and_then(|d| d.error.unstable_error_name()).unwrap_or("unnamed");
                    if errors.iter().all(|d| d.error.unstable_error_name() == Some("RecursionLimitError")) {
                        return Err(("not-judged:validator-recursion-limit".into(), String::new()));
                    }
                    // message of the first diagnostic with the quoted names removed
                    let class: String = errors.iter().next().map(|d| d.error.to_string()).unwrap_or_default().split('`').step_by(2).collect::<Vec<_>>().join("_");
                    Err((format!("invalid:{name}:{class}"), errors.to_string()))
                }
            }
        } else {
            let schema = &ctx.schemas[mode - 1].2;
            let doc = match ast::Document::parse(text.as_str(), "op.graphql") {
                Ok(d) => d,
                Err(e) => {
                    if e.errors.iter().all(|d| d.error.to_string().contains("recursion limit reached")) {
                        return Err(("not-judged:deeper-than-default-recursion-limit".into(), String::new()));
                    }
                    return Err(("syntax-error".into(), e.errors.to_string()));
                }
            };
            match doc.to_executable_validate(schema) {
                Ok(_) => Ok(()),
                Err(e) => {
                    let name = e.errors.iter().next().and_then(|d| d.error.unstable_error_name()).unwrap_or("unnamed");
                    if e.errors.iter().all(|d| d.error.unstable_error_name() == Some("RecursionLimitError")) {
                        // the validator's own safety limit on very deep operations, not a validity rule
                        return Err(("not-judged:validator-recursion-limit".into(), String::new()));
                    }
                    Err((format!("invalid:{name}"), e.errors.to_string()))
                }
            }
        }
    });
    match verdict {
        Err(p) => st.fail_simple(&format!("{tag}:validation-panic"), case(), format!("parse/validate panicked: {}", vcore::short(&p)), size),
        Ok(Err((sig, _))) if sig.starts_with("not-judged") => st.outcome(&format!("{tag}:{sig}")),
        Ok(Err((sig, detail))) if known_class(ctx, mode, bytes, &sig).is_some() => {
            let id = known_class(ctx, mode, bytes, &sig).unwrap();
            let _ = detail;
            st.known(id, &format!("{} bytes, builder {tag}: {sig}", bytes.len()));
            st.outcome(&format!("{tag}:known-finding"));
        }
        Ok(Err((sig, detail))) => st.fail_simple(
            &format!("{tag}:{sig}"),
            case(),
            format!("generated text is not valid: {} -- text: {}", vcore::short(&detail), vcore::short(&text)),
            size,
        ),
        Ok(Ok(())) => {
            if whole {
                st.outcome(&format!("{tag}:valid:{}", size_bucket(text.len())));
            } else {
                st.outcome(&format!("{tag}:valid:{}", if text.len() < 64 { "<64B" } else { size_bucket(text.len()) }));
            }
            st.count("generated_bytes", text.len() as u64);
        }
    }
}

/// The input families, addressed by one index.
struct Spaces {
    all2: u64,
    small: u64,
    small_len: u32,
    rep: u64,
    /// number of units (strings of length 1..=long_unit over LONG_ALPHA)
    long_units: u64,
    long_max_len: usize,
}

impl Spaces {
    fn total(&self) -> u64 {
        self.all2 + self.small + self.rep + self.long_units * LONG_LENS.len() as u64
    }
    /// `None` = duplicate of an input that another family already covers
    fn bytes(&self, mut i: u64) -> Option<Vec<u8>> {
        let mut seq = Vec::new();
        if i < self.all2 {
            en::nth_upto(256, i, &mut seq);
            return Some(seq.iter().map(|&x| x as u8).collect());
        }
        i -= self.all2;
        if i < self.small {
            en::nth_upto(6, i, &mut seq);
            if seq.len() <= 2 {
                return None;
            }
            return Some(seq.iter().map(|&x| SMALL[x]).collect());
        }
        i -= self.small;
        if i >= self.rep {
            // long periodic family
            i -= self.rep;
            let len = LONG_LENS[(i % LONG_LENS.len() as u64) as usize];
            if len > self.long_max_len {
                return None;
            }
            en::nth_upto(LONG_ALPHA.len() as u64, i / LONG_LENS.len() as u64 + 1, &mut seq);
            let unit: Vec<u8> = seq.iter().map(|&x| LONG_ALPHA[x]).collect();
            if unit.len() > 1 && unit.iter().all(|b| *b == unit[0]) {
                return None; // same bytes as the one-byte unit
            }
            return Some(unit.iter().cycle().take(len).copied().collect());
        }
        // repetition family: every non-empty string of length <= 2 over all bytes, repeated to 64 bytes
        en::nth_upto(256, i + 1, &mut seq);
        let unit: Vec<u8> = seq.iter().map(|&x| x as u8).collect();
        if unit.len() == 2 && unit[0] == unit[1] {
            return None; // same 64 bytes as the one-byte unit
        }
        Some(unit.iter().cycle().take(REP_LEN).copied().collect())
    }
}

fn main() {
    let mut chk = Check::new("C32");
    vcore::quiet_panics();
    // long inputs make apollo-smith and the validator recurse deeply: give every worker a big stack
    let _ = rayon::ThreadPoolBuilder::new().stack_size(512 << 20).build_global();
    let mut ctx = Ctx::new();
    for (file, id, class) in WITNESSES {
        let path = std::path::Path::new(vcore::VERIF_ROOT).join("harness/checks/witness").join(file);
        let bytes: Vec<u8> = std::fs::read_to_string(&path)
            .ok()
            .and_then(|t| serde_json::from_str::<Vec<u8>>(&t).ok())
            .unwrap_or_else(|| vcore::machinery_error(&format!("cannot read witness {path:?}")));
        ctx.witnesses.push((bytes, *id, *class, chk.known.is_open(id)));
    }
    // members of the supplementary sequence on which the two open findings show (recorded by index)
    for (idx, mode) in KNOWN_LOW_ENTROPY {
        for (_, id, class) in &WITNESSES[1..3] {
            ctx.witnesses.push((low_entropy_input(*idx, *mode), *id, *class, chk.known.is_open(id)));
        }
    }
    let modes = 1 + ctx.schemas.len();
    if let Some(case) = chk.replay_case() {
        let bytes: Vec<u8> = case["bytes"].as_array().map(|a| a.iter().map(|v| v.as_u64().unwrap_or(0) as u8).collect()).unwrap_or_default();
        let mode = case["mode"].as_u64().unwrap_or(0) as usize;
        let mut st = Stats::default();
        run_case(&ctx, &bytes, if mode == MODE_DOC50 { mode } else { mode.min(modes - 1) }, &mut st);
        chk.absorb(st);
        chk.finish_replay();
    }
    let small_len = chk.tier().pick(6, 8);
    let sp = Spaces {
        all2: en::count_upto(256, 2),
        small: en::count_upto(6, small_len),
        small_len,
        rep: en::count_upto(256, 2) - 1,
        long_units: en::count_upto(LONG_ALPHA.len() as u64, chk.tier().pick(2, 3)) - 1,
        long_max_len: chk.tier().pick(1024, 4096),
    };
    let total = sp.total();
    let stats = vcore::par_sweep(total, 512, |i, st| {
        let Some(bytes) = sp.bytes(i) else { return };
        if i % (total / 5 + 1) == total / 11 {
            if let Ok(Gen::Text(t)) = gen_doc(&bytes) {
                st.sample(json!({"bytes": bytes, "document": vcore::short(&t)}));
            }
            if let Ok(Gen::Text(t)) = gen_op(&bytes, &ctx.schemas[3].1) {
                st.sample(json!({"bytes": bytes, "schema": ctx.schemas[3].0, "operation": vcore::short(&t)}));
            }
        }
        for mode in 0..modes {
            run_case(&ctx, &bytes, mode, st);
        }
        if bytes.len() >= LONG_LENS[0] {
            run_case(&ctx, &bytes, MODE_DOC50, st);
        }
    });
    chk.absorb(stats);
    // deviation-bounded family: an all-zero input of DEV_LEN bytes with at most two bytes changed
    // to a value of DEV_VALUES (every pair of positions x every pair of values), whole-document modes
    let dev_len: usize = chk.tier().pick(64, 128);
    let pairs = (dev_len * (dev_len + 1) / 2) as u64; // (i, j) with i < j <= dev_len; j == dev_len means "one deviation"
    let stats = vcore::par_sweep(pairs, 64, |idx, st| {
        // decode idx -> (i, j), i < j
        let mut i = 0usize;
        let mut rest = idx as usize;
        while rest >= dev_len - i {
            rest -= dev_len - i;
            i += 1;
        }
        let j = i + 1 + rest;
        for &a in &DEV_VALUES {
            for &b in &DEV_VALUES {
                if j == dev_len && b != DEV_VALUES[0] {
                    continue;
                }
                let mut bytes = vec![0u8; dev_len];
                bytes[i] = a;
                if j < dev_len {
                    bytes[j] = b;
                }
                run_case(&ctx, &bytes, 0, st);
                run_case(&ctx, &bytes, MODE_DOC50, st);
            }
        }
    });
    chk.absorb(stats);
    // supplementary low-entropy sequence (sampling; see low_entropy_input)
    let low_n: u64 = chk.tier().pick(1500, 10000);
    let dump = std::env::var("C32_DUMP_LOW").is_ok();
    let stats = vcore::par_sweep(low_n * 2, 16, |i, st| {
        let bytes = low_entropy_input(i / 2, (i % 2) as u8);
        let before = st.failures.values().map(|f| f.0).sum::<u64>();
        run_case(&ctx, &bytes, 0, st);
        run_case(&ctx, &bytes, MODE_DOC50, st);
        if dump && st.failures.values().map(|f| f.0).sum::<u64>() > before {
            println!("LOWFAIL {} {}", i / 2, i % 2);
        }
    });
    chk.absorb(stats);
    // witness family (fixed inputs, see WITNESSES): both whole-document builders
    let mut st = Stats::default();
    for (bytes, _, _, _) in &ctx.witnesses {
        run_case(&ctx, bytes, 0, &mut st);
        run_case(&ctx, bytes, MODE_DOC50, &mut st);
    }
    chk.absorb(st);
    chk.stats.nontrivial = ctx.distinct_total();
    chk.bounds = json!({
        "all_byte_strings_max_len": 2,
        "small_alphabet": SMALL,
        "small_alphabet_max_len": sp.small_len,
        "repetition_family": format!("every non-empty byte string of length <= 2 repeated to {REP_LEN} bytes"),
        "long_periodic_family": {"alphabet": LONG_ALPHA, "unit_max_len": chk.tier().pick(2, 3), "lengths": LONG_LENS.iter().filter(|l| **l <= sp.long_max_len).collect::<Vec<_>>()},
        "deviation_family": {"base": "all-zero input", "length": dev_len, "max_changed_bytes": 2, "values": DEV_VALUES, "builders": ["default", "every max_* = 50"]},
        "witness_family": WITNESSES.iter().map(|w| w.0).collect::<Vec<_>>(),
        "supplementary_low_entropy_sequence": {"kind": "SAMPLING (fixed deterministic sequence, not exhaustive)", "inputs": low_n * 2, "max_len": 2000},
        "inputs": total,
        "modes": std::iter::once("whole document".to_string()).chain(ctx.schemas.iter().map(|s| format!("operation against base schema {}", s.0))).collect::<Vec<_>>(),
    });
    chk.rule = "states = (byte string, mode) pairs, every pair generated twice and validated once; \
                distinct_nontrivial = number of DISTINCT generated texts (documents and operations)"
        .into();
    chk.assumptions = vec![
        "base schemas keep output field types inside what DocumentBuilder::stack_ty implements (objects, interfaces, enums, built-in scalars): a field of union or custom-scalar type reaches an explicit todo!() in apollo-smith".into(),
        "base schemas contain no self-referential input object (input_value_for_type recurses without a depth bound on them)".into(),
        "cross-process determinism (hash seeds) is C22's subject; here two in-process runs are compared".into(),
        "arbitrary::Error::IncorrectFormat (the generator declines the bytes) is accepted like 'input exhausted'; any other error is a violation".into(),
        "a generated document that nests deeper than apollo-parser's default recursion limit (500), or whose only diagnostics are the validator's RecursionLimitError, is not judged: those limits are safety settings, not rules of the language".into(),
        "the witness family consists of three fixed inputs found by an independent random search (not by this enumeration) and one taken from the demonstration of a seeded change (deep fragment spread chain); it is a regression set, not part of the exhaustive claim".into(),
    ];
    let ctx_ref = &ctx;
    chk.finish(&|case: &Value| {
        let bytes: Vec<u8> = case["bytes"].as_array().map(|a| a.iter().map(|v| v.as_u64().unwrap_or(0) as u8).collect()).unwrap_or_default();
        let mode = case["mode"].as_u64().unwrap_or(0) as usize;
        let mut st = Stats::default();
        run_case(ctx_ref, &bytes, mode, &mut st);
        !st.failures.is_empty()
    })
}
