//! C16 — validation is idempotent (DESIGN.md §6 C16).
//! E-HIST with de-duplication: from each base schema, breadth-first over histories of
//! {validate, into_inner, add field / argument / input field / directive argument of a built-in
//! scalar type (programmatic `make_mut` edits), remove an added field}. Every state is re-created
//! by replaying its history on fresh real objects; the oracle is evaluated on every transition.
//! Executable part: a menu of valid (schema, document) pairs, validate → into_inner → validate.

use apollo_compiler::ast::{FieldDefinition, InputValueDefinition, Type};
use apollo_compiler::schema::{Component, ExtendedType};
use apollo_compiler::validation::Valid;
use apollo_compiler::{ExecutableDocument, Name, Node, Schema};
use checks::hist;
use serde_json::{json, Value};
use std::collections::BTreeSet;
use std::sync::OnceLock;
use vcore::{Check, Stats};

const SCALARS: [&str; 5] = ["Int", "Float", "String", "Boolean", "ID"];

/// Valid base schemas referencing 0…5 of the built-in scalars through every kind of reference
/// (field type, argument, input field, directive-definition argument, wrapped types). The edited
/// object type is always `Query`, its base field always `q`; `In` / `@d` where present.
const BASES: &[&str] = &[
    "type Query{q:Query}",
    "type Query{q:Int}",
    "type Query{q:Int w:Float}",
    "type Query{q:ID s:String}",
    "type Query{q(a:Int b:Boolean):String}",
    "input In{x:Float y:ID} type Query{q(i:In):Query}",
    "directive @d(a:Int) on OBJECT type Query @d(a:1){q:Query}",
    "type Query{q:Int b:Float c:String d:Boolean e:ID}",
    "interface I{i:Float} type Query implements I{i:Float q:[ID!]!}",
    "input In{x:[Int!]} directive @d(a:ID b:In) on FIELD_DEFINITION type Query{q:Query @d(a:\"1\")}",
];

const OP_VALIDATE: usize = 0;
const OP_UNWRAP: usize = 1;
const OP_ADD_FIELD: usize = 2; // +k
const OP_ADD_ARG: usize = 7; // +k
const OP_REMOVE_FIELD: usize = 12; // +k
const OP_ADD_INPUT_FIELD: usize = 17; // +k
const OP_ADD_DIR_ARG: usize = 22; // +k
const OP_REMOVE_Q: usize = 27;
const NOPS: usize = 28;

fn op_name(op: usize) -> String {
    match op {
        OP_VALIDATE => "validate".into(),
        OP_UNWRAP => "into_inner".into(),
        _ if op < OP_ADD_ARG => format!("add field Query.f{0}:{0}", SCALARS[op - OP_ADD_FIELD]),
        _ if op < OP_REMOVE_FIELD => format!("add argument Query.q(a{0}:{0})", SCALARS[op - OP_ADD_ARG]),
        _ if op < OP_ADD_INPUT_FIELD => format!("remove field Query.f{}", SCALARS[op - OP_REMOVE_FIELD]),
        _ if op < OP_ADD_DIR_ARG => format!("add input field In.i{0}:{0}", SCALARS[op - OP_ADD_INPUT_FIELD]),
        OP_REMOVE_Q => "remove field Query.q".into(),
        _ => format!("add directive argument @d(d{0}:{0})", SCALARS[op - OP_ADD_DIR_ARG]),
    }
}

#[derive(Clone)]
enum St {
    Plain(Schema),
    Valid(Valid<Schema>),
}

fn name(s: &str) -> Name {
    Name::new(s).expect("harness name")
}

fn input_value(n: &str, k: usize) -> InputValueDefinition {
    InputValueDefinition {
        description: None,
        name: name(n),
        ty: Node::new(Type::Named(name(SCALARS[k]))),
        default_value: None,
        directives: Default::default(),
    }
}

fn query_mut(s: &mut Schema) -> Option<&mut apollo_compiler::schema::ObjectType> {
    match s.types.get_mut("Query") {
        Some(ExtendedType::Object(o)) => Some(o.make_mut()),
        _ => None,
    }
}

/// Apply a mutation; `false` = not enabled in this state (nothing changed).
fn mutate(s: &mut Schema, op: usize) -> bool {
    if (OP_ADD_FIELD..OP_ADD_ARG).contains(&op) {
        let k = op - OP_ADD_FIELD;
        let fname = format!("f{}", SCALARS[k]);
        let Some(q) = query_mut(s) else { return false };
        if q.fields.contains_key(fname.as_str()) {
            return false;
        }
        q.fields.insert(
            name(&fname),
            Component::new(FieldDefinition {
                description: None,
                name: name(&fname),
                arguments: Vec::new(),
                ty: Type::Named(name(SCALARS[k])),
                directives: Default::default(),
            }),
        );
        true
    } else if (OP_ADD_ARG..OP_REMOVE_FIELD).contains(&op) {
        let k = op - OP_ADD_ARG;
        let aname = format!("a{}", SCALARS[k]);
        let Some(q) = query_mut(s) else { return false };
        let Some(f) = q.fields.get_mut("q") else { return false };
        if f.arguments.iter().any(|a| a.name == aname.as_str()) {
            return false;
        }
        f.make_mut().arguments.push(Node::new(input_value(&aname, k)));
        true
    } else if (OP_REMOVE_FIELD..OP_ADD_INPUT_FIELD).contains(&op) {
        let k = op - OP_REMOVE_FIELD;
        let fname = format!("f{}", SCALARS[k]);
        let Some(q) = query_mut(s) else { return false };
        if q.fields.len() < 2 {
            return false; // never empty the type (an object type without fields is invalid for another reason)
        }
        q.fields.shift_remove(fname.as_str()).is_some()
    } else if (OP_ADD_INPUT_FIELD..OP_ADD_DIR_ARG).contains(&op) {
        let k = op - OP_ADD_INPUT_FIELD;
        let fname = format!("i{}", SCALARS[k]);
        let Some(ExtendedType::InputObject(o)) = s.types.get_mut("In") else { return false };
        if o.fields.contains_key(fname.as_str()) {
            return false;
        }
        o.make_mut().fields.insert(name(&fname), Component::new(input_value(&fname, k)));
        true
    } else if op == OP_REMOVE_Q {
        // drop the base schema's own field (possibly the last reference to a built-in scalar);
        // only when another field remains, so that Query does not become empty
        let Some(q) = query_mut(s) else { return false };
        if q.fields.len() < 2 {
            return false;
        }
        q.fields.shift_remove("q").is_some()
    } else if (OP_ADD_DIR_ARG..OP_REMOVE_Q).contains(&op) {
        let k = op - OP_ADD_DIR_ARG;
        let aname = format!("d{}", SCALARS[k]);
        let Some(d) = s.directive_definitions.get_mut("d") else { return false };
        if d.arguments.iter().any(|a| a.name == aname.as_str()) {
            return false;
        }
        d.make_mut().arguments.push(Node::new(input_value(&aname, k)));
        true
    } else {
        false
    }
}

/// Reference: the built-in scalars referenced by any field, argument, input field or
/// directive-definition argument of the schema (built-in definitions included) — a plain scan
/// over the public fields of `Schema`, sharing no code with `BuiltInScalars`.
fn referenced_builtins(s: &Schema) -> BTreeSet<String> {
    let mut out = BTreeSet::new();
    let mut see = |t: &Type| {
        let n = t.inner_named_type().as_str();
        if SCALARS.contains(&n) {
            out.insert(n.to_string());
        }
    };
    for d in s.directive_definitions.values() {
        for a in &d.arguments {
            see(&a.ty);
        }
    }
    for t in s.types.values() {
        match t {
            ExtendedType::Object(o) => {
                for f in o.fields.values() {
                    see(&f.ty);
                    for a in &f.arguments {
                        see(&a.ty);
                    }
                }
            }
            ExtendedType::Interface(o) => {
                for f in o.fields.values() {
                    see(&f.ty);
                    for a in &f.arguments {
                        see(&a.ty);
                    }
                }
            }
            ExtendedType::InputObject(o) => {
                for f in o.fields.values() {
                    see(&f.ty);
                }
            }
            ExtendedType::Scalar(_) | ExtendedType::Union(_) | ExtendedType::Enum(_) => {}
        }
    }
    out
}

fn present_builtins(s: &Schema) -> BTreeSet<String> {
    s.types.keys().map(|k| k.as_str()).filter(|k| SCALARS.contains(k)).map(String::from).collect()
}

fn pristine() -> &'static Schema {
    static P: OnceLock<Schema> = OnceLock::new();
    P.get_or_init(Schema::new)
}

/// The schema with the built-in scalar definitions taken out (everything validation may not touch).
fn without_builtin_scalars(s: &Schema) -> Schema {
    let mut c = s.clone();
    c.types.retain(|k, _| !SCALARS.contains(&k.as_str()));
    c
}

fn fp_without_builtin_scalars(s: &Schema) -> hist::SchemaFp {
    let mut fp = hist::fingerprint(s, true);
    fp.types.retain(|t| !SCALARS.contains(&t.name.as_str()));
    fp
}

/// Canonical state: wrapper, serialized schema, ordered `types` keys. The *positions* of the
/// built-in scalars among the keys are left out (their set is kept): where validation re-inserts
/// them depends on hash iteration order — C22's finding, not C16's — and nothing C16 observes
/// depends on it (serialization skips built-in scalar definitions; valid schemas produce no
/// diagnostics whose order could move), so two states equal under this canon have the same futures.
fn canon(st: &St) -> u128 {
    let (tag, s): (&str, &Schema) = match st {
        St::Plain(s) => ("plain", s),
        St::Valid(v) => ("valid", v),
    };
    let keys: Vec<&str> = s.types.keys().map(|k| k.as_str()).filter(|k| !SCALARS.contains(k)).collect();
    hist::fnv128(format!("{tag}\u{0}{}\u{0}{keys:?}\u{0}{:?}", s, present_builtins(s)).as_bytes())
}

/// The oracle for one `validate` step from the unwrapped schema `s0`.
/// Returns the validated schema, or the failure (signature, detail).
fn validate_step(s0: &Schema, st: &mut Stats) -> Result<Valid<Schema>, (String, String)> {
    let referenced = referenced_builtins(s0);
    let before = present_builtins(s0);
    st.transitions += 3;
    let v = s0.clone().validate().map_err(|e| {
        ("validate-rejects".to_string(), format!("validate() of a schema that only gained/lost members of built-in scalar type failed: {}", e.errors))
    })?;
    let after = present_builtins(&v);
    if after != referenced {
        let missing: Vec<&String> = referenced.difference(&after).collect();
        let extra: Vec<&String> = after.difference(&referenced).collect();
        let sig = match (missing.is_empty(), extra.is_empty()) {
            (false, true) => "scalar-missing",
            (true, false) => "scalar-unreferenced-kept",
            _ => "scalar-set",
        };
        return Err((
            sig.into(),
            format!("after validate() `types` has built-in scalars {after:?}; referenced are {referenced:?} (missing {missing:?}, unreferenced {extra:?}; before: {before:?})"),
        ));
    }
    // nothing else changed
    if without_builtin_scalars(&v) != without_builtin_scalars(s0)
        || fp_without_builtin_scalars(&v) != fp_without_builtin_scalars(s0)
        || v.to_string() != s0.to_string()
    {
        return Err((
            "validate-changes-schema".into(),
            format!("validate() changed more than the built-in scalar set: {}", fp_without_builtin_scalars(s0).first_difference(&fp_without_builtin_scalars(&v))),
        ));
    }
    for k in &after {
        if v.types.get(k.as_str()) != pristine().types.get(k.as_str()) {
            return Err(("scalar-definition".into(), format!("built-in scalar {k} is not the built-in definition after validate()")));
        }
    }
    // idempotence: validate -> into_inner -> validate
    let v2 = v.clone().into_inner().validate().map_err(|e| {
        ("revalidate-rejects".to_string(), format!("second validate() of the unchanged schema failed: {}", e.errors))
    })?;
    if *v2 != *v {
        return Err(("revalidate-not-equal".into(), "schema after the second validate() != schema after the first".into()));
    }
    let (f1, f2) = (hist::fingerprint(&v, true), hist::fingerprint(&v2, true));
    if f1 != f2 {
        return Err(("revalidate-order".into(), format!("order fingerprint changed by the second validate(): {}", f1.first_difference(&f2))));
    }
    if present_builtins(&v2) != after {
        return Err(("revalidate-scalar-set".into(), format!("built-in scalars {:?} after the second validate(), {after:?} after the first", present_builtins(&v2))));
    }
    if v2.to_string() != v.to_string() {
        return Err(("revalidate-text".into(), "serialization changed by the second validate()".into()));
    }
    let restored = after.difference(&before).count();
    let pruned = before.difference(&after).count();
    if restored > 0 || pruned > 0 {
        st.nontrivial += 1;
    }
    st.outcome(&format!("validate: restored {restored}, pruned {pruned} built-in scalar(s); revalidation identical"));
    Ok(v)
}

/// Apply `op` to `st`. `Ok(None)` = not enabled.
fn step(state: &St, op: usize, st: &mut Stats, oracle: bool) -> Result<Option<St>, (String, String)> {
    match (state, op) {
        (St::Plain(s), OP_VALIDATE) if !oracle => match s.clone().validate() {
            Ok(v) => Ok(Some(St::Valid(v))),
            Err(e) => Err(("validate-rejects".into(), e.errors.to_string())),
        },
        (St::Plain(s), OP_VALIDATE) => validate_step(s, st).map(|v| Some(St::Valid(v))),
        (St::Valid(_), OP_VALIDATE) => Ok(None),
        (St::Valid(v), OP_UNWRAP) => {
            st.transitions += 1;
            let inner = v.clone().into_inner();
            if inner != **v || hist::fingerprint(&inner, true) != hist::fingerprint(v, true) {
                return Err(("into_inner-changes-schema".into(), "Valid::into_inner returned a different schema".into()));
            }
            st.outcome("into_inner");
            Ok(Some(St::Plain(inner)))
        }
        (St::Plain(_), OP_UNWRAP) => Ok(None),
        (St::Valid(_), _) => Ok(None), // a Valid<Schema> is immutable
        (St::Plain(s), _) => {
            let mut s2 = s.clone();
            if !mutate(&mut s2, op) {
                return Ok(None);
            }
            st.transitions += 1;
            st.outcome(match op {
                _ if op < OP_ADD_ARG => "edit: add field",
                _ if op < OP_REMOVE_FIELD => "edit: add argument",
                _ if op < OP_ADD_INPUT_FIELD => "edit: remove field",
                _ if op < OP_ADD_DIR_ARG => "edit: add input field",
                OP_REMOVE_Q => "edit: remove the base field",
                _ => "edit: add directive argument",
            });
            Ok(Some(St::Plain(s2)))
        }
    }
}

fn base_state(base: usize) -> St {
    match Schema::parse(BASES[base], "base.graphql") {
        Ok(s) => St::Plain(s),
        Err(e) => vcore::machinery_error(&format!("C16 base schema {base} does not build: {}", e.errors)),
    }
}

/// Replay a history (already explored, so every step is enabled and passes).
fn replay(base: usize, h: &[usize]) -> Option<St> {
    let mut state = base_state(base);
    let mut scratch = Stats::default();
    for &op in h {
        state = step(&state, op, &mut scratch, false).ok()??;
    }
    Some(state)
}

fn schema_case_json(base: usize, h: &[usize], op: usize) -> Value {
    let mut ops: Vec<usize> = h.to_vec();
    ops.push(op);
    json!({
        "part": "schema",
        "base": base,
        "base_text": BASES[base],
        "history": ops,
        "readable": ops.iter().map(|&o| op_name(o)).collect::<Vec<_>>(),
    })
}

/// Expand one state: replay, then every enabled operation with the oracle.
fn expand(base: usize, h: &[usize], st: &mut Stats) -> Vec<(usize, u128)> {
    let mut out = Vec::new();
    let Ok(Some(state)) = vcore::catch(|| replay(base, h)) else {
        st.fail_simple("replay-diverged", schema_case_json(base, h, OP_VALIDATE), "an explored history no longer replays".into(), h.len() as u64);
        return out;
    };
    for op in 0..NOPS {
        match vcore::catch(|| {
            let mut local = Stats::default();
            let r = step(&state, op, &mut local, true);
            (r, local)
        }) {
            Err(p) => st.fail_simple("panic", schema_case_json(base, h, op), format!("{} panicked: {p}", op_name(op)), h.len() as u64 + 1),
            Ok((r, local)) => {
                let cur = std::mem::take(st);
                *st = cur.merge(local);
                match r {
                    Ok(None) => {}
                    Ok(Some(next)) => out.push((op, canon(&next))),
                    Err((sig, detail)) => st.fail_simple(&sig, schema_case_json(base, h, op), detail, h.len() as u64 + 1),
                }
            }
        }
    }
    out
}

/// Replay file for the schema part: run the history, the oracle on every step.
fn run_schema_case(case: &Value, st: &mut Stats) {
    let base = case["base"].as_u64().unwrap_or(0) as usize;
    let ops: Vec<usize> = case["history"]
        .as_array()
        .map(|a| a.iter().filter_map(|v| v.as_u64()).map(|v| v as usize).collect())
        .unwrap_or_default();
    if base >= BASES.len() {
        vcore::machinery_error("replay: no such base");
    }
    let r = vcore::catch(|| {
        let mut local = Stats::default();
        let mut state = base_state(base);
        for (i, &op) in ops.iter().enumerate() {
            match step(&state, op, &mut local, true) {
                Ok(Some(n)) => state = n,
                Ok(None) => return (local, Some(("replay-disabled-op".to_string(), format!("step {i} ({}) is not enabled", op_name(op))))),
                Err(f) => return (local, Some(f)),
            }
        }
        (local, None)
    });
    match r {
        Err(p) => st.fail_simple("panic", case.clone(), format!("panicked: {p}"), ops.len() as u64),
        Ok((local, f)) => {
            let cur = std::mem::take(st);
            *st = cur.merge(local);
            if let Some((sig, detail)) = f {
                st.fail_simple(&sig, case.clone(), detail, ops.len() as u64);
            }
        }
    }
}

// ---------------------------------------------------------------------------------------------
// executable part
// ---------------------------------------------------------------------------------------------

const S1: &str = "schema{query:Query mutation:Mutation subscription:Subscription}
directive @dir(a:Int) repeatable on QUERY|MUTATION|SUBSCRIPTION|FIELD|FRAGMENT_DEFINITION|FRAGMENT_SPREAD|INLINE_FRAGMENT|VARIABLE_DEFINITION
interface Node{id:ID!}
interface Named implements Node{id:ID! name:String}
type User implements Node & Named{id:ID! name:String age:Int friends(first:Int=10 after:ID):[User!]! pet:Pet score:Float active:Boolean role:Role}
type Dog{name:String barks:Boolean}
type Cat{name:String lives:Int}
union Pet=Dog|Cat
enum Role{ADMIN USER}
input Filter{role:Role=USER minAge:Int names:[String!] nested:Filter}
type Query{me:User user(id:ID!):User users(filter:Filter roles:[Role!]):[User] node(id:ID!):Node pet:Pet count:Int}
type Mutation{rename(id:ID! name:String!):User setAge(age:Int):Int}
type Subscription{tick:Int userChanged(id:ID):User}";
const S2: &str = "type Query{a:Int b(x:[Int!]!=[1]):String}";
const S3: &str = "directive @x on SCHEMA type Query{a:Int} extend type Query{c:Float} extend schema @x";

const PAIRS: &[(&str, &str)] = &[
    (S1, "{me{id}}"),
    (S1, "query Q{me{id name}}"),
    (S1, "query Q($id:ID!){user(id:$id){name age}}"),
    (S1, "query Q($id:ID!=\"1\"){user(id:$id){name}}"),
    (S1, "{user(id:\"1\"){id} other:user(id:2){id}}"),
    (S1, "{me{friends{id}}}"),
    (S1, "{me{friends(first:5 after:\"x\"){name}}}"),
    (S1, "query Q($n:Int){me{friends(first:$n){id}}}"),
    (S1, "{me{pet{...on Dog{barks} ...on Cat{lives}}}}"),
    (S1, "{me{pet{__typename}}}"),
    (S1, "{pet{...on Dog{name}}}"),
    (S1, "{node(id:\"1\"){id ...on User{name}}}"),
    (S1, "{node(id:\"1\"){...on Named{name}}}"),
    (S1, "query Q{me{...F}} fragment F on User{id name}"),
    (S1, "query Q{me{...F}} fragment F on User{id ...G} fragment G on User{age}"),
    (S1, "{users(filter:{role:ADMIN minAge:3}){id}}"),
    (S1, "{users(filter:{names:[\"a\",\"b\"] nested:{minAge:1}}){id}}"),
    (S1, "query Q($f:Filter){users(filter:$f){id}}"),
    (S1, "query Q($r:[Role!]=[ADMIN]){users(roles:$r){role}}"),
    (S1, "{users(roles:[ADMIN USER]){role}}"),
    (S1, "{users(roles:ADMIN){role}}"),
    (S1, "query Q($b:Boolean!){me{id @skip(if:$b) name @include(if:true)}}"),
    (S1, "query Q @dir(a:1) @dir{me{id @dir}}"),
    (S1, "mutation M{rename(id:\"1\" name:\"n\"){id}}"),
    (S1, "mutation M($a:Int){setAge(age:$a)}"),
    (S1, "subscription S{tick}"),
    (S1, "subscription S{userChanged(id:\"1\"){id name}}"),
    (S1, "query A{me{id}} query B{count}"),
    (S1, "query A{me{id}} mutation B{setAge(age:1)}"),
    (S1, "{__typename}"),
    (S1, "{__schema{types{name}}}"),
    (S1, "{__type(name:\"User\"){name fields{name}}}"),
    (S1, "{me{score active role}}"),
    (S1, "{a:count b:count}"),
    (S1, "{me{...on Node{id}}}"),
    (S1, "{me{... @dir{id}}}"),
    (S1, "{me{...{id}}}"),
    (S1, "query Q($v:Int @dir(a:2)){me{friends(first:$v){id}}}"),
    (S1, "fragment F on Query @dir{count} {...F @dir}"),
    (S1, "{me{name name id:id}}"),
    (S2, "{a}"),
    (S2, "{b}"),
    (S2, "{b(x:[1,2])}"),
    (S2, "query($x:[Int!]!){b(x:$x)}"),
    (S3, "{a c}"),
];

fn run_exec_pair(i: usize, st: &mut Stats) {
    st.states += 1;
    let (stext, dtext) = PAIRS[i];
    let case = json!({"part": "executable", "pair": i, "schema": stext, "document": dtext});
    let r = vcore::catch(|| -> Result<&'static str, (String, String)> {
        let Ok(schema) = Schema::parse_and_validate(stext, "schema.graphql") else {
            return Ok("pair skipped: schema rejected by the first validation");
        };
        let Ok(doc) = ExecutableDocument::parse(&schema, dtext, "doc.graphql") else {
            return Ok("pair skipped: document does not build");
        };
        let Ok(v1) = doc.clone().validate(&schema) else {
            return Ok("pair skipped: document rejected by the first validation");
        };
        let inner = v1.into_inner();
        if inner != doc || inner.to_string() != doc.to_string() {
            return Err(("exec-changed".into(), "document differs after validate → into_inner".into()));
        }
        let v2 = inner.validate(&schema).map_err(|e| {
            ("exec-revalidate-rejects".to_string(), format!("second validate() of a valid document failed: {}", e.errors))
        })?;
        if *v2 != doc || v2.to_string() != doc.to_string() {
            return Err(("exec-changed".into(), "document differs after the second validate()".into()));
        }
        // the schema the document was validated against is itself stable under re-validation
        let s2 = schema.clone().into_inner().validate().map_err(|e| {
            ("revalidate-rejects".to_string(), format!("second validate() of the pair's schema failed: {}", e.errors))
        })?;
        if *s2 != *schema || hist::fingerprint(&s2, true) != hist::fingerprint(&schema, true) {
            return Err(("revalidate-not-equal".into(), "the pair's schema changed under re-validation".into()));
        }
        v2.into_inner().validate(&s2).map_err(|e| {
            ("exec-revalidate-rejects".to_string(), format!("validate() against the re-validated schema failed: {}", e.errors))
        })?;
        Ok("executable: validate → into_inner → validate ok, document unchanged")
    });
    st.transitions += 6;
    match r {
        Err(p) => st.fail_simple("exec-panic", case, format!("panicked: {p}"), i as u64),
        Ok(Err((sig, detail))) => st.fail_simple(&sig, case, detail, i as u64),
        Ok(Ok(label)) => {
            if !label.starts_with("pair skipped") {
                st.nontrivial += 1;
            }
            st.outcome(label)
        }
    }
}

fn run_case(case: &Value, st: &mut Stats) {
    match case["part"].as_str() {
        Some("executable") => {
            let i = case["pair"].as_u64().unwrap_or(0) as usize;
            if i >= PAIRS.len() {
                vcore::machinery_error("replay: no such pair");
            }
            run_exec_pair(i, st)
        }
        _ => run_schema_case(case, st),
    }
}

fn main() {
    let mut chk = Check::new("C16");
    vcore::quiet_panics();
    if let Some(case) = chk.replay_case() {
        let mut st = Stats::default();
        run_case(&case, &mut st);
        chk.absorb(st);
        chk.finish_replay();
    }
    let depth = chk.tier().pick(5u32, 6u32);
    let mut per_base = Vec::new();
    let mut all_closed = true;
    for base in 0..BASES.len() {
        let root = canon(&base_state(base));
        let (stats, rep) = hist::bfs(root, depth, |h, st| expand(base, h, st));
        println!(
            "base {base} {:?}: distinct canonical states {}, transitions {}, new states per depth {:?}{}",
            BASES[base],
            rep.states,
            rep.transitions,
            rep.levels,
            if rep.closed { " (closed)" } else { "" }
        );
        chk.absorb(stats);
        chk.stats.states += rep.states;
        chk.stats.count("schema_distinct_canonical_states", rep.states);
        chk.stats.count("schema_explorer_transitions", rep.transitions);
        all_closed &= rep.closed;
        per_base.push(json!({"base": BASES[base], "states": rep.states, "transitions": rep.transitions, "levels": rep.levels, "closed": rep.closed}));
        if base == 1 {
            chk.stats.sample(json!({"part": "schema", "base": BASES[base], "example_history": [op_name(OP_VALIDATE), op_name(OP_UNWRAP), op_name(OP_ADD_FIELD + 1), op_name(OP_VALIDATE)]}));
        }
    }
    // executable pairs
    let idx: Vec<usize> = (0..PAIRS.len()).collect();
    let estats = vcore::par_items(&idx, |&i, st| run_exec_pair(i, st));
    let valid_pairs = estats
        .outcomes
        .get("executable: validate → into_inner → validate ok, document unchanged")
        .copied()
        .unwrap_or(0)
        + estats.failures.values().map(|f| f.0).sum::<u64>();
    chk.absorb(estats);
    chk.stats.sample(json!({"part": "executable", "schema": S2, "document": PAIRS[PAIRS.len() - 2].1}));
    if valid_pairs < 30 {
        vcore::machinery_error(&format!("C16 needs >= 30 valid (schema, document) pairs, only {valid_pairs} passed their first validation"));
    }
    chk.stats.count("executable_pairs", PAIRS.len() as u64);
    chk.bounds = json!({
        "bases": per_base,
        "operations": (0..NOPS).map(op_name).collect::<Vec<_>>(),
        "max_depth": depth,
        "reachable_space_closed_within_depth": all_closed,
        "executable_pairs": PAIRS.len(),
    });
    chk.rule = "breadth-first over operation histories from each base schema, de-duplicated on (wrapper, serialized schema, ordered \
                non-built-in `types` keys, set of built-in scalars present); every enabled operation of every distinct state is \
                executed with the oracle; non-trivial = validate steps that pruned or restored a built-in scalar, and valid \
                (schema, document) pairs"
        .into();
    chk.assumptions = vec![
        "the position at which validation re-inserts a built-in scalar into `types` is not compared (hash-order dependent: C22's finding); presence is compared as a set".into(),
        "reference for the expected built-in scalar set: harness scan of field, argument, input-field and directive-definition-argument types, built-in definitions included".into(),
        "executable part: a fixed menu of valid pairs (the C17 sweep is a separate check)".into(),
    ];
    chk.finish(&|case| {
        let mut st = Stats::default();
        run_case(case, &mut st);
        !st.failures.is_empty()
    })
}
