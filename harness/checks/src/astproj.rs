//! Projection of an `apollo_compiler::ast::Document` onto the harness's mini-AST
//! (`refmodel::ast`), so that what apollo parsed can be compared with what the harness
//! generated. The query shorthand is not represented in apollo's AST: `shorthand` is always
//! `false` in the projection (compare against [`normalized`]).

use apollo_compiler::ast;
use apollo_compiler::Node;
use refmodel::ast as m;

pub fn value(v: &ast::Value) -> m::Value {
    match v {
        ast::Value::Null => m::Value::Null,
        ast::Value::Enum(n) => m::Value::Enum(n.to_string()),
        ast::Value::Variable(n) => m::Value::Var(n.to_string()),
        ast::Value::String(s) => m::Value::Str(s.clone()),
        ast::Value::Float(f) => m::Value::Float(f.as_str().to_string()),
        ast::Value::Int(i) => m::Value::Int(i.as_str().to_string()),
        ast::Value::Boolean(b) => m::Value::Bool(*b),
        ast::Value::List(items) => m::Value::List(items.iter().map(|i| value(i)).collect()),
        ast::Value::Object(fields) => {
            m::Value::Object(fields.iter().map(|(k, v)| (k.to_string(), value(v))).collect())
        }
    }
}

pub fn ty(t: &ast::Type) -> m::Ty {
    match t {
        ast::Type::Named(n) => m::Ty::Named(n.to_string()),
        ast::Type::NonNullNamed(n) => m::Ty::NonNull(Box::new(m::Ty::Named(n.to_string()))),
        ast::Type::List(inner) => m::Ty::List(Box::new(ty(inner))),
        ast::Type::NonNullList(inner) => m::Ty::NonNull(Box::new(m::Ty::List(Box::new(ty(inner))))),
    }
}

fn args(a: &[Node<ast::Argument>]) -> Vec<(String, m::Value)> {
    a.iter().map(|x| (x.name.to_string(), value(&x.value))).collect()
}

pub fn directives(d: &ast::DirectiveList) -> Vec<m::Directive> {
    d.iter().map(|x| m::Directive { name: x.name.to_string(), args: args(&x.arguments) }).collect()
}

fn desc(d: &Option<Node<str>>) -> Option<String> {
    d.as_ref().map(|s| s.to_string())
}

pub fn selection_set(s: &[ast::Selection]) -> Vec<m::Selection> {
    s.iter()
        .map(|sel| match sel {
            ast::Selection::Field(f) => m::Selection::Field(m::Field {
                alias: f.alias.as_ref().map(|a| a.to_string()),
                name: f.name.to_string(),
                args: args(&f.arguments),
                directives: directives(&f.directives),
                selection: selection_set(&f.selection_set),
            }),
            ast::Selection::FragmentSpread(f) => m::Selection::Spread {
                name: f.fragment_name.to_string(),
                directives: directives(&f.directives),
            },
            ast::Selection::InlineFragment(f) => m::Selection::Inline {
                on: f.type_condition.as_ref().map(|t| t.to_string()),
                directives: directives(&f.directives),
                selection: selection_set(&f.selection_set),
            },
        })
        .collect()
}

fn op_kind(k: ast::OperationType) -> m::OpKind {
    match k {
        ast::OperationType::Query => m::OpKind::Query,
        ast::OperationType::Mutation => m::OpKind::Mutation,
        ast::OperationType::Subscription => m::OpKind::Subscription,
    }
}

fn input_value(v: &ast::InputValueDefinition) -> m::InputValueDef {
    m::InputValueDef {
        description: desc(&v.description),
        name: v.name.to_string(),
        ty: ty(&v.ty),
        default: v.default_value.as_ref().map(|d| value(d)),
        directives: directives(&v.directives),
    }
}

fn field_defs(f: &[Node<ast::FieldDefinition>]) -> Vec<m::FieldDef> {
    f.iter()
        .map(|f| m::FieldDef {
            description: desc(&f.description),
            name: f.name.to_string(),
            args: f.arguments.iter().map(|a| input_value(a)).collect(),
            ty: ty(&f.ty),
            directives: directives(&f.directives),
        })
        .collect()
}

fn enum_values(v: &[Node<ast::EnumValueDefinition>]) -> Vec<m::EnumValueDef> {
    v.iter()
        .map(|v| m::EnumValueDef {
            description: desc(&v.description),
            name: v.value.to_string(),
            directives: directives(&v.directives),
        })
        .collect()
}

fn roots(r: &[Node<(ast::OperationType, ast::NamedType)>]) -> Vec<(m::OpKind, String)> {
    r.iter().map(|n| (op_kind(n.0), n.1.to_string())).collect()
}

fn names(n: &[apollo_compiler::Name]) -> Vec<String> {
    n.iter().map(|x| x.to_string()).collect()
}

pub fn definition(d: &ast::Definition) -> m::Definition {
    use ast::Definition as D;
    use m::TypeKind as K;
    let mut td = |kind: K, extend: bool, name: &apollo_compiler::Name| {
        let mut t = m::TypeDef::new(kind, name.as_str());
        t.extend = extend;
        t
    };
    match d {
        D::OperationDefinition(o) => m::Definition::Operation(m::Operation {
            kind: op_kind(o.operation_type),
            name: o.name.as_ref().map(|n| n.to_string()),
            vars: o
                .variables
                .iter()
                .map(|v| m::VarDef {
                    name: v.name.to_string(),
                    ty: ty(&v.ty),
                    default: v.default_value.as_ref().map(|d| value(d)),
                    directives: directives(&v.directives),
                })
                .collect(),
            directives: directives(&o.directives),
            selection: selection_set(&o.selection_set),
            shorthand: false,
        }),
        D::FragmentDefinition(f) => m::Definition::Fragment(m::Fragment {
            name: f.name.to_string(),
            on: f.type_condition.to_string(),
            directives: directives(&f.directives),
            selection: selection_set(&f.selection_set),
        }),
        D::DirectiveDefinition(x) => m::Definition::Directive(m::DirectiveDef {
            description: desc(&x.description),
            name: x.name.to_string(),
            args: x.arguments.iter().map(|a| input_value(a)).collect(),
            repeatable: x.repeatable,
            locations: x.locations.iter().map(|l| l.name().to_string()).collect(),
        }),
        D::SchemaDefinition(x) => m::Definition::Schema(m::SchemaDef {
            extend: false,
            description: desc(&x.description),
            directives: directives(&x.directives),
            roots: roots(&x.root_operations),
        }),
        D::SchemaExtension(x) => m::Definition::Schema(m::SchemaDef {
            extend: true,
            description: None,
            directives: directives(&x.directives),
            roots: roots(&x.root_operations),
        }),
        D::ScalarTypeDefinition(x) => {
            let mut t = td(K::Scalar, false, &x.name);
            t.description = desc(&x.description);
            t.directives = directives(&x.directives);
            m::Definition::Type(t)
        }
        D::ScalarTypeExtension(x) => {
            let mut t = td(K::Scalar, true, &x.name);
            t.directives = directives(&x.directives);
            m::Definition::Type(t)
        }
        D::ObjectTypeDefinition(x) => {
            let mut t = td(K::Object, false, &x.name);
            t.description = desc(&x.description);
            t.implements = names(&x.implements_interfaces);
            t.directives = directives(&x.directives);
            t.fields = field_defs(&x.fields);
            m::Definition::Type(t)
        }
        D::ObjectTypeExtension(x) => {
            let mut t = td(K::Object, true, &x.name);
            t.implements = names(&x.implements_interfaces);
            t.directives = directives(&x.directives);
            t.fields = field_defs(&x.fields);
            m::Definition::Type(t)
        }
        D::InterfaceTypeDefinition(x) => {
            let mut t = td(K::Interface, false, &x.name);
            t.description = desc(&x.description);
            t.implements = names(&x.implements_interfaces);
            t.directives = directives(&x.directives);
            t.fields = field_defs(&x.fields);
            m::Definition::Type(t)
        }
        D::InterfaceTypeExtension(x) => {
            let mut t = td(K::Interface, true, &x.name);
            t.implements = names(&x.implements_interfaces);
            t.directives = directives(&x.directives);
            t.fields = field_defs(&x.fields);
            m::Definition::Type(t)
        }
        D::UnionTypeDefinition(x) => {
            let mut t = td(K::Union, false, &x.name);
            t.description = desc(&x.description);
            t.directives = directives(&x.directives);
            t.members = names(&x.members);
            m::Definition::Type(t)
        }
        D::UnionTypeExtension(x) => {
            let mut t = td(K::Union, true, &x.name);
            t.directives = directives(&x.directives);
            t.members = names(&x.members);
            m::Definition::Type(t)
        }
        D::EnumTypeDefinition(x) => {
            let mut t = td(K::Enum, false, &x.name);
            t.description = desc(&x.description);
            t.directives = directives(&x.directives);
            t.values = enum_values(&x.values);
            m::Definition::Type(t)
        }
        D::EnumTypeExtension(x) => {
            let mut t = td(K::Enum, true, &x.name);
            t.directives = directives(&x.directives);
            t.values = enum_values(&x.values);
            m::Definition::Type(t)
        }
        D::InputObjectTypeDefinition(x) => {
            let mut t = td(K::Input, false, &x.name);
            t.description = desc(&x.description);
            t.directives = directives(&x.directives);
            t.input_fields = x.fields.iter().map(|a| input_value(a)).collect();
            m::Definition::Type(t)
        }
        D::InputObjectTypeExtension(x) => {
            let mut t = td(K::Input, true, &x.name);
            t.directives = directives(&x.directives);
            t.input_fields = x.fields.iter().map(|a| input_value(a)).collect();
            m::Definition::Type(t)
        }
    }
}

pub fn document(d: &ast::Document) -> m::Document {
    m::Document { defs: d.definitions.iter().map(definition).collect() }
}

/// The mini-AST document with every `shorthand` flag cleared (what a projection can equal).
pub fn normalized(d: &m::Document) -> m::Document {
    let mut d = d.clone();
    for def in &mut d.defs {
        if let m::Definition::Operation(o) = def {
            o.shorthand = false;
        }
    }
    d
}
